#!/bin/bash
# Build the overlay interpreter /verif/.venv offline: python 3.12 of /venv (so the
# repository's own dependencies import) + solver wheels from the offline wheelhouse.
set -e
cd "$(dirname "$0")"
export PIP_NO_INDEX=1 PIP_DISABLE_PIP_VERSION_CHECK=1
if [ -x .venv/bin/python ] && .venv/bin/python -c "import z3, jsonschema, numpy, toasty" 2>/dev/null; then
  exit 0
fi
rm -rf .venv
/venv/bin/python -m venv .venv
.venv/bin/python -m pip install -q --no-index --find-links /opt/veriftools/wheels z3-solver jsonschema >/dev/null
SP=$(.venv/bin/python -c "import sysconfig; print(sysconfig.get_paths()['purelib'])")
echo "import site; site.addsitedir('/venv/lib/python3.12/site-packages')" > "$SP/zz_repo_overlay.pth"
.venv/bin/python -c "import z3, jsonschema, numpy, toasty; print('overlay venv ok: z3', z3.get_version_string())"
