"""Context handed to a bounded run-time (R-tier) driver ``rt/cNN.py: run(ctx)``."""
import json
import random


class RTContext(object):
    def __init__(self, prop, tier, seed, workdir):
        self.prop = prop
        self.tier = tier          # 'quick' | 'thorough'
        self.seed = seed
        self.rng = random.Random(seed)
        self.workdir = workdir    # scratch directory, removed by the runner
        self.evaluations = 0
        self._distinct = set()
        self.samples = []
        self.violations = []      # dicts: obligation, witness, message
        self.bounds = []
        self.assumptions = []
        self.notes = []
        self.monitor_counts = {}

    @property
    def thorough(self):
        return self.tier == "thorough"

    def case(self, key=None, nontrivial=True):
        """Count one executed case. ``key`` (hashable/JSON-able) identifies it for the
        distinct count; ``nontrivial`` says whether it exercises the property's rule."""
        self.evaluations += 1
        if nontrivial:
            if key is None:
                key = ("#", self.evaluations)
            try:
                hash(key)
            except TypeError:
                key = json.dumps(key, sort_keys=True, default=str)
            self._distinct.add(key)

    @property
    def distinct_nontrivial(self):
        return len(self._distinct)

    def sample(self, obj, limit=6):
        if len(self.samples) < limit:
            self.samples.append(json.loads(json.dumps(obj, default=str)))

    def violation(self, obligation, witness, message):
        """Record that the real code broke contract clause ``obligation`` on the concrete
        input ``witness`` (a JSON-able dict, enough to replay)."""
        self.violations.append(
            {
                "obligation": obligation,
                "witness": json.loads(json.dumps(witness, default=str)),
                "message": str(message),
            }
        )

    def bound(self, text):
        self.bounds.append(text)

    def assume(self, text):
        if text not in self.assumptions:
            self.assumptions.append(text)

    def note(self, text):
        self.notes.append(text)

    def monitor(self, name, n=1):
        self.monitor_counts[name] = self.monitor_counts.get(name, 0) + n
