"""Run one property: deductive tier (pyvc) + bounded tier (rt), classify, report."""
import importlib
import json
import os
import shutil
import sys
import tempfile
import time
import traceback

from . import VERIF_DIR, REPO_DIR, known
from .rtctx import RTContext

EVIDENCE_DIR = os.path.join(VERIF_DIR, "evidence")
REPLAY_DIR = os.path.join(VERIF_DIR, "replays")
BASELINE_DIR = os.path.join(VERIF_DIR, "baseline")


_replay_seq = 0


def load_baseline(pid):
    p = os.path.join(BASELINE_DIR, pid + ".json")
    if os.path.exists(p):
        with open(p) as f:
            return json.load(f)
    return None


def write_replay(pid, name, payload):
    os.makedirs(REPLAY_DIR, exist_ok=True)
    safe = "".join(ch if ch.isalnum() or ch in "-_." else "_" for ch in name)[:80]
    global _replay_seq
    _replay_seq += 1
    p = os.path.join(REPLAY_DIR, "%s_%s_%d_%03d.json" % (pid, safe, int(time.time() * 1000) % 100000000, _replay_seq))
    with open(p, "w") as f:
        json.dump(payload, f, indent=1, default=str)
    return p


class Outcome(object):
    def __init__(self):
        self.violations = []     # (obligation, replay path, suffix)
        self.known = []          # (entry, obligation)
        self.undecided = []
        self.errors = []
        self.suspects = []       # (obligation, function, relaxed model, solver detail)
        self.weak = []           # D-tier violations without a native witness: (obligation, payload)


def run_dtier(pid, cfg, tier, seed, out, ev):
    from pyvc import driver
    from . import replay as rp
    from pyvc.contracts_api import REGISTRY
    t0 = time.time()
    functions = list(getattr(cfg, "FUNCTIONS", []))
    lemmas = list(getattr(cfg, "LEMMAS", []))
    if not functions and not lemmas:
        ev["dtier"] = {"functions": [], "note": "no deductive obligations for this property"}
        return
    timeout = 20000 if tier == "quick" else 120000
    slow_ms = 60000 if tier == "quick" else 240000
    reports, clauses, reach = driver.run(REPO_DIR, cfg.CONTRACT_MODULES, functions, lemmas, timeout_ms=timeout,
                                         slow=getattr(cfg, "SLOW", ()), slow_ms=slow_ms)
    for m in cfg.CONTRACT_MODULES:
        importlib.import_module(m)
    # closure over callees: a contract used at a call site is part of the proof, so it is verified in the same run
    pulled = []
    for _round in range(6):
        used = set()
        for r in reports:
            for a in r["assumptions"]:
                if a.startswith("uses contract of "):
                    used.add(a[len("uses contract of "):].strip())
        have = {r["qualname"] for r in reports}
        new = sorted(q for q in used - have if _verifiable(REGISTRY.get(q)))
        if not new:
            break
        pulled.extend(new)
        functions = functions + new
        r2, c2, reach2 = driver.run(REPO_DIR, cfg.CONTRACT_MODULES, new, [], timeout_ms=timeout,
                                    slow=getattr(cfg, "SLOW", ()), slow_ms=slow_ms)
        reports += r2
        clauses.update(c2)
        reach.update(reach2)
    ev["_pulled"] = pulled
    baseline = load_baseline(pid) or {}
    base_clauses = set(baseline.get("discharged", []))
    fn_status = {}
    assumptions, dropped = set(), set()
    for r in reports:
        fn_status[r["qualname"]] = r
        assumptions.update(r["assumptions"])
        dropped.update(r["dropped"])
        if r["status"] != "ok":
            out.undecided.append("%s: %s (%s)" % (r["qualname"], r["status"], (r["reason"] or "").split("\n")[0][:200]))
            if r["status"] == "error":
                out.errors.append("%s: %s" % (r["qualname"], r["reason"]))
        elif r["kind"] == "function" and not reach.get(r["qualname"], False) and r["exit_paths"] > 0:
            out.errors.append("vacuity guard: no reachable exit in %s (contradictory precondition?)" % r["qualname"])
        elif r["kind"] == "function" and r["exit_paths"] == 0:
            out.errors.append("vacuity guard: %s generated no exit path" % r["qualname"])
    base_shapes = baseline.get("shapes") or {}
    cur_shapes = {r["qualname"]: r.get("shape") for r in reports}

    def shape_changed(fn_):
        return (fn_ is not None and base_shapes.get(fn_) is not None and cur_shapes.get(fn_) is not None
                and base_shapes[fn_] != cur_shapes[fn_])
    n_obl = n_dis = 0
    per = []
    solver_s = 0.0
    backends = {}
    known_list = []
    for name in sorted(clauses):
        co = clauses[name]
        solver_s += co.secs
        d = co.as_dict()
        if co.status == "discharged":
            n_obl += 1
            n_dis += 1
            for b in co.backends:
                backends[b] = backends.get(b, 0) + 1
        elif co.status == "unknown":
            n_obl += 1
            relaxed = (co.detail or {}).get("relaxed_model") if isinstance(co.detail, dict) else None
            brief = {k: v for k, v in (co.detail or {}).items() if k != "relaxed_model"} if isinstance(co.detail, dict) else co.detail
            if relaxed and name in base_clauses:
                # discharged on the unchanged tree, now not provable, and the query minus its quantified
                # axioms has a model: replay the candidate natively; without a native witness it is reported
                # as a violation candidate (decided below, after the bounded tier)
                fn = find_function(name, functions)
                c = REGISTRY.get(fn) if fn else None
                hit = None
                if c is not None and isinstance(relaxed, dict):
                    try:
                        hit = rp.native_search(c, relaxed, seed=seed, budget_s=10 if tier == "quick" else 40,
                                               thorough=(tier == "thorough"))
                    except Exception as e:      # a broken replay is not a verdict
                        hit = {"not_replayable": "native replay raised %s: %s" % (type(e).__name__, e)}
                if isinstance(hit, dict) and "clause" in hit:
                    wit = dict(hit.get("inputs") or {})
                    wit.update({"function": fn, "reproduced": True})
                    entry = known.match(pid, name, wit)
                    if entry is not None:
                        known_list.append(name)
                        out.known.append((entry, name))
                    else:
                        payload = {"property": pid, "obligation": name, "function": fn, "tier": tier, "seed": seed,
                                   "solver_output": brief, "relaxed_counter_model": relaxed, "native_replay": hit,
                                   "how_to_replay": "./check %s --replay <this file>" % pid}
                        out.violations.append((name, write_replay(pid, name, payload), ""))
                    d["replay"] = hit
                elif shape_changed(fn):
                    out.undecided.append("%s: solver gave no answer and the loop structure of %s changed (%s -> %s): undecided"
                                         % (name, fn, base_shapes.get(fn), cur_shapes.get(fn)))
                else:
                    out.suspects.append((name, fn, relaxed, brief))
            else:
                out.undecided.append("%s: solver gave no answer (%s)" % (name, brief))
        elif co.status == "refuted":
            fn = find_function(name, functions)
            witness = {"model": co.model or {}, "info": co.info}
            hit = None
            c = REGISTRY.get(fn) if fn else None
            if c is not None:
                hook = getattr(cfg, "replay", None)
                if hook is not None:
                    try:
                        hit = hook(name, c, co.model or {}, seed)
                    except Exception as e:   # a broken replay helper is not a verdict
                        hit = {"not_replayable": "replay helper raised %s: %s" % (type(e).__name__, e)}
                if hit is None:
                    hit = rp.native_search(c, co.model or {}, seed=seed, budget_s=10 if tier == "quick" else 40,
                                           thorough=(tier == "thorough"))
            wit = dict((hit or {}).get("inputs") or {}) if isinstance(hit, dict) else {}
            wit.update({k.split("!")[0]: v for k, v in (co.model or {}).items() if "->" not in str(v)})
            reproduced = isinstance(hit, dict) and "clause" in hit
            wit["function"] = fn
            wit["reproduced"] = reproduced
            entry = known.match(pid, name, wit)
            d["replay"] = hit
            if entry is not None:
                known_list.append(name)
                out.known.append((entry, name))
            else:
                n_obl += 1
                payload = {"property": pid, "obligation": name, "function": fn, "tier": tier, "seed": seed,
                           "solver_model": co.model, "solver_info": co.info, "native_replay": hit,
                           "how_to_replay": "./check %s --replay <this file>" % pid}
                if reproduced:
                    path = write_replay(pid, name, payload)
                    out.violations.append((name, path, ""))
                elif shape_changed(fn):
                    out.undecided.append("%s: no longer provable, but the loop structure of %s differs from the one its loop "
                                         "contracts were written for (%s -> %s): the proof script does not apply, undecided"
                                         % (name, fn, base_shapes.get(fn), cur_shapes.get(fn)))
                elif name in base_clauses or not base_clauses:
                    payload["note"] = ("obligation is discharged on the unchanged tree and is now refuted by the solver; "
                                       "no concrete failing input was found natively")
                    out.weak.append((name, payload))
                else:
                    out.undecided.append("%s: refuted but never part of the discharged baseline" % name)
        per.append(d)
    # exploration guard: on byte-identical sources the number of explored paths can only grow (an inconclusive
    # feasibility check keeps a branch); fewer paths than when the baseline was recorded means lost coverage
    cur_sources = {k: v for r in reports for k, v in r.get("sources", {}).items()}
    base_sources = baseline.get("sources") or {}
    if base_sources and all(cur_sources.get(k) == v for k, v in base_sources.items()):
        for r in reports:
            want = (baseline.get("paths") or {}).get(r["qualname"])
            if want is not None and r["status"] == "ok" and r["paths"] < want:
                out.errors.append("exploration guard: %s explored %d paths, %d when the baseline was recorded on the same sources"
                                  % (r["qualname"], r["paths"], want))
    # obligations of the baseline that were not generated at all (function missing / out of subset)
    missing = sorted(b for b in base_clauses if b not in clauses)
    for b in missing:
        out.undecided.append("%s: not generated on this tree (function out of subset or absent)" % b)
    ev["dtier"] = {
        "functions_under_contract": [{"function": r["qualname"], "status": r["status"], "paths": r["paths"], "loop_shape": r.get("shape"),
                                      "reason": (r["reason"] or "").split("\n")[0][:300] if r["reason"] else None,
                                      "vcgen_s": r["gen_s"]} for r in reports],
        "obligations": n_obl, "discharged": n_dis, "per_obligation": per, "solver_s": round(solver_s, 2),
        "backends": backends, "known_findings": known_list, "baseline_missing": missing,
        "callees_verified_with_their_callers": ev.pop("_pulled", []),
        "wall_s": round(time.time() - t0, 2),
        "sources": {k: v for r in reports for k, v in r.get("sources", {}).items()},
    }
    # a callee contract used at a call site is an assumption only if that callee is not itself verified in this run
    proved_here = {r["qualname"] for r in reports if r["status"] == "ok" and r["kind"] == "function"}
    kept = []
    for a in sorted(assumptions):
        if a.startswith("assumed contract of ") and a[len("assumed contract of "):].strip() in proved_here:
            continue
        if a.startswith("uses contract of "):
            q = a[len("uses contract of "):].strip()
            if q in proved_here:
                continue
            c_ = REGISTRY.get(q)
            if ("assumed contract of %s" % q) in assumptions:
                continue            # already listed (a trusted contract)
            a = ("assumed call-site model of %s (not verified here)" if (c_ is not None and c_.model_ is not None)
                 else "assumed contract of %s (not verified in this run)") % q
        kept.append(a)
    ev["assumptions"].extend(kept)
    if dropped:
        ev["assumptions"].append("extraction drops (no-ops): " + "; ".join(sorted(dropped)))
    if n_obl + len(known_list) == 0 and all(r["status"] == "ok" for r in reports):
        out.errors.append("vacuity guard: zero obligations generated")


def _verifiable(c):
    """a contract that generates obligations of its own when its function is verified"""
    if c is None or c.trusted_:
        return False
    has_spec = bool(c.ensures_ or c.raises_ or c.path_hooks_ or c.post_hooks_ or c.yields_seq_ or c.yields_each_ or c.loops
                    or c.event_clauses_)
    has_inputs = bool(c.setup_ is not None or c.arg_types or c.self_fields or c.cases_)
    return has_spec and has_inputs


def find_function(clause, functions):
    best = None
    for f in functions:
        short = f.split(".", 1)[1] if f.startswith("toasty.") else f
        if clause.startswith(short + "/"):
            if best is None or len(f) > len(best):
                best = f
    return best


def run_rtier(pid, tier, seed, out, ev):
    try:
        mod = importlib.import_module("rt." + pid.lower())
    except ModuleNotFoundError as e:
        if e.name == "rt." + pid.lower():
            ev["rtier"] = {"note": "no bounded driver for this property"}
            return None
        raise
    work = tempfile.mkdtemp(prefix="verif_%s_" % pid.lower())
    ctx = RTContext(pid, tier, seed, work)
    t0 = time.time()
    try:
        mod.run(ctx)
    finally:
        shutil.rmtree(work, ignore_errors=True)
    known_list = []
    for v in ctx.violations:
        entry = known.match(pid, v["obligation"], v["witness"])
        if entry is not None:
            out.known.append((entry, v["obligation"]))
            known_list.append(v["obligation"])
            continue
        payload = {"property": pid, "obligation": v["obligation"], "tier": tier, "seed": seed, "witness": v["witness"],
                   "message": v["message"], "kind": "bounded run-time check on the real code",
                   "how_to_replay": "./check %s --replay <this file>" % pid}
        path = write_replay(pid, v["obligation"], payload)
        out.violations.append((v["obligation"], path, ""))
    for name, n in ctx.monitor_counts.items():
        if n == 0:
            out.errors.append("monitor %s was never evaluated (bypassed reference?)" % name)
    ev["rtier"] = {
        "evaluations": ctx.evaluations, "distinct_nontrivial": ctx.distinct_nontrivial, "samples": ctx.samples,
        "bounds": ctx.bounds, "notes": ctx.notes, "monitors": ctx.monitor_counts, "known_findings": sorted(set(known_list)),
        "violations": len(ctx.violations), "wall_s": round(time.time() - t0, 2),
    }
    ev["assumptions"].extend(ctx.assumptions)
    return ctx


def run_conformance(pid, cfg, tier, seed, out, ev):
    """Engine soundness cross-check (vf/conformance.py): the symbolic paths of every contracted function with
    scalar / Pos parameters must admit what CPython does on sampled inputs; thorough tier also runs the
    python- and numpy-semantics corpora of selftest/pysem.  A mismatch is a CHECKER ERROR, never a verdict."""
    from . import conformance
    thorough = tier == "thorough"
    res = conformance.run(REPO_DIR, cfg.CONTRACT_MODULES, list(cfg.FUNCTIONS), samples=150 if thorough else 12, seed=seed,
                          budget_s=60.0 if thorough else 8.0)
    corpus = []
    if thorough:
        corpus = run_corpus(seed, samples=60)
    rows = []
    for r in res + corpus:
        row = {k: v for k, v in r.items() if k not in ("trace",)}
        rows.append(row)
        if r["status"] == "mismatch":
            out.errors.append("engine conformance: the symbolic semantics of %s do not admit CPython's behaviour on %s "
                              "(native: %s)" % (r["function"], r["first_mismatch"]["inputs"], r["first_mismatch"]["native"]))
        elif r["status"] == "engine_error":
            out.errors.append("engine conformance run failed for %s: %s" % (r["function"], r.get("why")))
    ev["engine_conformance"] = {
        "what": "sampled admission check of the symbolic executor against CPython (soundness direction); not a proof",
        "functions_checked": sum(1 for r in rows if r["status"] == "ok"),
        "samples": sum(r.get("samples", 0) for r in rows), "rows": rows,
    }


def run_corpus(seed, samples=60):
    from . import conformance
    st = os.path.join(VERIF_DIR, "selftest")
    if st not in sys.path:
        sys.path.insert(0, st)
    import pysem.contracts as pc
    rows = conformance.run(st, ["pysem.contracts"], pc.FUNCTIONS + pc.NP_FUNCTIONS, samples=samples, seed=seed,
                           budget_s=60.0, workers=16)
    # refusal corpus: code whose behaviour depends on the history of the process / object, or on a decorator, must be
    # out of subset - if it verifies, the engine assumed a fresh state
    from pyvc import driver
    reports, _clauses, _reach = driver.run(st, ["pysem.contracts"], list(pc.REFUSE), [], timeout_ms=10000)
    for r in reports:
        ok = r["status"] == "out_of_subset"
        rows.append({"function": r["qualname"], "status": "ok" if ok else "engine_error", "samples": 0, "kind": "must_refuse",
                     "why": None if ok else "the engine accepted history-dependent code (status %s)" % r["status"]})
    return rows


def run_property(pid, tier, seed, only=None):
    t0 = time.time()
    out = Outcome()
    ev = {"assumptions": []}
    try:
        cfg = importlib.import_module("contracts." + pid.lower())
    except ModuleNotFoundError:
        print("CHECKER-ERROR: no configuration for %s" % pid)
        return 3
    try:
        if only in (None, "d"):
            run_dtier(pid, cfg, tier, seed, out, ev)
        if only in (None, "d"):
            run_conformance(pid, cfg, tier, seed, out, ev)
        ctx = None
        if only in (None, "r"):
            ctx = run_rtier(pid, tier, seed, out, ev)
    except Exception:
        print("CHECKER-ERROR: %s" % traceback.format_exc())
        return 3
    ev["assumptions"].extend(getattr(cfg, "ASSUMPTIONS", []))
    settle_weak(pid, tier, seed, out)
    write_evidence(pid, cfg, tier, seed, out, ev, time.time() - t0)
    seen = set()
    for entry, obl in out.known:
        key = entry.get("text")
        if key in seen:
            continue
        seen.add(key)
        print("KNOWN-FINDING: property=%s %s" % (pid, entry.get("text")))
    for u in out.undecided:
        print("UNDECIDED property=%s %s" % (pid, u))
    for e in out.errors:
        print("CHECKER-ERROR: %s" % e)
    for obl, path, suffix in out.violations:
        print("VIOLATION property=%s replay=%s obligation=%s%s" % (pid, path, obl, suffix))
    d = ev.get("dtier", {})
    r = ev.get("rtier", {})
    print("%s %s: D-tier %s/%s obligations discharged (%s functions); R-tier %s cases (%s distinct non-trivial); %.1fs" % (
        pid, tier, d.get("discharged", 0), d.get("obligations", 0), len(d.get("functions_under_contract", [])),
        r.get("evaluations", 0), r.get("distinct_nontrivial", 0), time.time() - t0))
    if out.violations:
        return 1
    if out.errors:
        return 3
    return 0


def settle_weak(pid, tier, seed, out):
    """Deductive violations that came without a native witness: if the bounded tier of the same
    run produced a concrete failing input, point to it; otherwise report them flagged
    'no-failing-input-found' (replay file = obligation + solver output)."""
    concrete = [v for v in out.violations if v[2] == ""]
    for name, payload in out.weak:
        if concrete:
            payload["witness_from_bounded_tier"] = concrete[0][1]
            path = write_replay(pid, name, payload)
            out.violations.append((name, path, ""))
        else:
            path = write_replay(pid, name, payload)
            out.violations.append((name, path, " no-failing-input-found"))
    for name, fn, relaxed, brief in out.suspects:
        payload = {"property": pid, "obligation": name, "function": fn, "tier": tier, "seed": seed,
                   "solver_output": brief, "relaxed_counter_model": relaxed,
                   "note": "discharged on the unchanged tree; on this tree the solver cannot prove it and the query without "
                           "its quantified axioms is satisfiable (candidate counter-model attached)"}
        if concrete:
            payload["witness_from_bounded_tier"] = concrete[0][1]
            out.violations.append((name, write_replay(pid, name, payload), ""))
        else:
            out.violations.append((name, write_replay(pid, name, payload), " no-failing-input-found"))


def write_evidence(pid, cfg, tier, seed, out, ev, wall):
    d = ev.get("dtier", {})
    r = ev.get("rtier", {})
    claimed = getattr(cfg, "LEVEL", "other")
    n_obl, n_dis = d.get("obligations", 0), d.get("discharged", 0)
    level = claimed
    if claimed == "proof" and (n_obl == 0 or n_dis != n_obl or out.undecided):
        level = "other"
    samples = []
    for p in d.get("per_obligation", [])[:4]:
        samples.append({"obligation": p["obligation"], "status": p["status"], "backend": p["backend"]})
    samples.extend(r.get("samples", [])[:6])
    if not samples:
        samples = [{"note": "nothing explored"}]
    trusted = list(getattr(cfg, "TRUSTED_BASE", []))
    cov = {
        "obligations": n_obl, "discharged": n_dis,
        "checker_cmd": "./check %s --tier %s   (pyvc: AST->VC over /repo source; z3 %s, cvc5 fallback)" % (pid, tier, _z3v()),
        "trusted_base": trusted,
        "evaluations": max(r.get("evaluations", 0), 0) + n_obl,
        "distinct_nontrivial": r.get("distinct_nontrivial", 0) + n_dis,
        "rule": getattr(cfg, "RULE", "D-tier: one obligation per contract clause (aggregated over paths), non-trivial = "
                        "not closed by the simplifier alone is NOT required; R-tier: see bounds"),
        "samples": samples,
        "explanation": getattr(cfg, "EXPLANATION", "") + " | undecided: %d, known findings: %d" % (
            len(out.undecided), len(out.known)),
        "exhaustive": False,
        "deductive_tier": d, "bounded_tier": r,
        "undecided": out.undecided,
        "known_findings": sorted(set(e.get("text") for e, _ in out.known)),
        "engine_conformance": ev.get("engine_conformance"),
    }
    doc = {
        "property_id": pid, "tier": tier, "seed": seed, "level": level, "coverage": cov,
        "assumptions": sorted(set(ev["assumptions"])), "wall_s": round(wall, 2), "violations": len(out.violations),
    }
    os.makedirs(EVIDENCE_DIR, exist_ok=True)
    with open(os.path.join(EVIDENCE_DIR, pid + ".json"), "w") as f:
        json.dump(doc, f, indent=1, default=str)


def _z3v():
    try:
        import z3
        return z3.get_version_string()
    except Exception:
        return "?"


def write_baseline(pid, seed=0):
    """Record which clauses are discharged on the current (pinned) tree.  Run by hand only."""
    out = Outcome()
    ev = {"assumptions": []}
    cfg = importlib.import_module("contracts." + pid.lower())
    run_dtier(pid, cfg, "quick", seed, out, ev)
    d = ev["dtier"]
    names = [p["obligation"] for p in d["per_obligation"] if p["status"] == "discharged"]
    os.makedirs(BASELINE_DIR, exist_ok=True)
    with open(os.path.join(BASELINE_DIR, pid + ".json"), "w") as f:
        json.dump({"property": pid, "discharged": sorted(names),
                   "not_discharged": sorted(p["obligation"] for p in d["per_obligation"] if p["status"] != "discharged"),
                   "paths": {f_["function"]: f_["paths"] for f_ in d["functions_under_contract"]},
                   "shapes": {f_["function"]: f_.get("loop_shape") for f_ in d["functions_under_contract"]},
                   "sources": d.get("sources", {})}, f, indent=1)
    print("baseline %s: %d discharged clauses, undecided: %s" % (pid, len(names), out.undecided))
