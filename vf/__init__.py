"""Verification front end: runs the deductive tier (pyvc) and the bounded run-time
tier (rt) of one property, classifies outcomes, writes evidence."""
import os
VERIF_DIR = os.path.dirname(os.path.dirname(os.path.abspath(__file__)))
REPO_DIR = os.environ.get("TOASTY_REPO", "/repo")
