"""Replay of solver counter-models on the real code.

A refuted clause comes with a model of the function's symbolic inputs.  ``native_search``
rebuilds concrete python arguments from the model (first candidate: the model itself; then
a neighbourhood and boundary values), runs the *real* function imported from /repo and
evaluates the contract's clauses natively.  A hit is a concrete failing input; no hit
leaves the refutation without a native witness.
"""
import itertools
import random
import re
import time

from contracts import native


def model_value(model, key):
    """Look up 'pos.x' / 'self._width' / 'n' in a model dict whose names carry '!k' suffixes."""
    if not model:
        return None
    best = None
    for name, val in model.items():
        base = name.split("!")[0]
        if base == key:
            try:
                v = int(str(val).replace("(- ", "-").replace(")", "").replace(" ", ""))
            except ValueError:
                s = str(val)
                if s in ("True", "False"):
                    v = s == "True"
                else:
                    m = re.match(r"^(-?\d+)/(\d+)$", s)
                    if m:
                        v = int(m.group(1)) / int(m.group(2))
                    else:
                        continue
            best = v
    return best


SMALL = [0, 1, 2, 3, 4, 5, 7, 8, 255, 256, 257, 511, 512, 513, 1023, 1024, 1025, 3000, -1]


def int_candidates(mv, rng, thorough):
    out = []
    if mv is not None:
        out += [mv, mv + 1, mv - 1, mv + 2, mv - 2]
    out += SMALL
    if thorough:
        out += [rng.randrange(0, 5000) for _ in range(20)]
    seen, res = set(), []
    for v in out:
        if v not in seen:
            seen.add(v)
            res.append(v)
    return res


def split_top(s, sep=","):
    out, depth, cur = [], 0, ""
    for ch in s:
        if ch in "[({":
            depth += 1
        elif ch in "])}":
            depth -= 1
        if ch == sep and depth == 0:
            out.append(cur.strip())
            cur = ""
        else:
            cur += ch
    if cur.strip():
        out.append(cur.strip())
    return out


class Leaf(object):
    def __init__(self, key, kind):
        self.key, self.kind = key, kind


def leaves_of(tdecl, key):
    """Flatten a declared type into scalar leaves + a builder from leaf values."""
    t = tdecl.strip()
    if t in ("int", "nat"):
        return [Leaf(key, t)], lambda vals: vals[0]
    if t == "bool":
        return [Leaf(key, "bool")], lambda vals: vals[0]
    if t == "Pos":
        from toasty.pyramid import Pos
        ls = [Leaf(key + "." + f, "int") for f in ("n", "x", "y")]
        return ls, lambda vals: Pos(*vals)
    if t.startswith("tuple[") and t.endswith("]"):
        parts = split_top(t[6:-1])
        subs = [leaves_of(p, "%s.%d" % (key, k)) for k, p in enumerate(parts)]
        ls = [l for s, _ in subs for l in s]

        def build(vals, subs=subs):
            out, pos = [], 0
            for s, b in subs:
                out.append(b(vals[pos:pos + len(s)]))
                pos += len(s)
            return tuple(out)
        return ls, build
    return None, None


def native_search(contract, model, seed=0, budget_s=10.0, thorough=False, max_cases=4000):
    """Returns None (no failing input found / not replayable) or a dict
    {clause, inputs, observed}."""
    rng = random.Random(seed)
    try:
        owner, fn = native.resolve(contract.qualname)
    except Exception as e:
        return {"not_replayable": "cannot import %s: %s" % (contract.qualname, e)}
    import inspect
    try:
        sig = inspect.signature(fn)
    except (TypeError, ValueError):
        return {"not_replayable": "no signature"}
    params = list(sig.parameters)
    leaves, builders = [], []
    is_method = params and params[0] == "self"
    is_init = contract.qualname.endswith(".__init__")
    for p in params:
        if p == "self":
            if is_init:
                builders.append(("self", None, 0))
                continue
            if contract.self_fields is None:
                return {"not_replayable": "receiver fields not declared"}
            sl = []
            for fld, t in contract.self_fields.items():
                ls, b = leaves_of(t, "self." + fld)
                if ls is None:
                    return {"not_replayable": "receiver field %s of type %s" % (fld, t)}
                sl.append((fld, ls, b))
            builders.append(("self", sl, sum(len(x[1]) for x in sl)))
            for _, ls, _b in sl:
                leaves.extend(ls)
            continue
        t = contract.arg_types.get(p)
        if t is None:
            if sig.parameters[p].default is not inspect.Parameter.empty:
                builders.append((p, "default", 0))
                continue
            return {"not_replayable": "parameter %s has no declared type" % p}
        ls, b = leaves_of(t, p)
        if ls is None:
            return {"not_replayable": "parameter %s of type %s" % (p, t)}
        builders.append((p, (ls, b), len(ls)))
        leaves.extend(ls)
    cand = []
    for lf in leaves:
        mv = model_value(model, lf.key)
        if lf.kind == "bool":
            cand.append([mv] + [True, False] if isinstance(mv, bool) else [True, False])
        else:
            c = int_candidates(mv if isinstance(mv, int) else None, rng, thorough)
            if lf.kind == "nat":
                c = [v for v in c if v >= 0]
            cand.append(c)

    def combos():
        # first the model itself, then single-coordinate deviations, then random mixes
        first = [c[0] for c in cand]
        yield first
        for i, c in enumerate(cand):
            for v in c[1:]:
                x = list(first)
                x[i] = v
                yield x
        for _ in range(max_cases):
            yield [rng.choice(c) for c in cand]

    t0 = time.time()
    tried = 0
    for vals in itertools.islice(combos(), max_cases):
        if time.time() - t0 > budget_s:
            break
        tried += 1
        args, pos, ns = [], 0, {}
        inst = None
        for (p, how, n) in builders:
            if p == "self":
                inst = object.__new__(owner)
                if how is not None:
                    for fld, ls, b in how:
                        setattr(inst, fld, b(vals[pos:pos + len(ls)]))
                        pos += len(ls)
                ns["self"] = inst
                continue
            if how == "default":
                ns[p] = sig.parameters[p].default
                continue
            ls, b = how
            v = b(vals[pos:pos + n])
            pos += n
            ns[p] = v
        try:
            if not all(native.eval_clause(expr, ns) is not False for _, expr in contract.requires_):
                continue
        except Exception:
            continue
        call_args = [ns[p] for p in params]
        fail = run_and_check(contract, fn, call_args, ns)
        if fail is not None:
            fail["inputs"] = {k: repr(v) if k != "self" else {f: getattr(v, f, None) for f in (contract.self_fields or {})}
                              for k, v in ns.items()}
            fail["tried"] = tried
            return fail
    return None


def run_and_check(contract, fn, call_args, ns):
    import copy
    old_ns = dict(ns)
    if "self" in ns:
        old_ns["self"] = copy.copy(ns["self"])
    raised = None
    result = None
    items = None
    try:
        result = fn(*call_args)
        if contract.yields_type_ is not None:
            items = list(result)
    except Exception as e:    # the real code raised
        raised = e
    ens_ns = dict(ns)
    ens_ns["result"] = result
    ens_ns["old"] = lambda x: x
    # exceptional behaviour
    for etype, when in contract.raises_:
        try:
            w = native.eval_clause(when, old_ns)
        except Exception:
            continue
        if w is None:
            continue
        is_e = raised is not None and any(k.__name__ == etype for k in type(raised).__mro__)
        if w and not is_e:
            return {"clause": "raises/%s/not_missed" % etype, "observed": "no %s raised (got %r)" % (etype, raised or result)}
        if is_e and not w:
            return {"clause": "raises/%s/only_when" % etype, "observed": "raised %r although the condition is false" % (raised,)}
    if raised is not None:
        declared = [e for e, _ in contract.raises_] + [e for e, _ in contract.may_raise_]
        if not any(k.__name__ in declared for k in type(raised).__mro__):
            return {"clause": "no_unexpected_raise/%s" % type(raised).__name__, "observed": "raised %r" % (raised,)}
        return None
    for name, expr, _ in contract.ensures_:
        try:
            ok = native.eval_clause(expr, ens_ns)
        except Exception as e:
            return {"clause": "ensures/" + name, "observed": "clause raised %r on result %r" % (e, result)}
        if ok is False:
            return {"clause": "ensures/" + name, "observed": "result %r" % (summ(result),)}
    if items is not None:
        for k, it in enumerate(items):
            for name, expr in contract.yields_each_:
                ns2 = dict(ens_ns)
                ns2["item"] = it
                try:
                    ok = native.eval_clause(expr, ns2)
                except Exception as e:
                    return {"clause": "yields_each/" + name, "observed": "clause raised %r on item %r" % (e, it)}
                if ok is False:
                    return {"clause": "yields_each/" + name, "observed": "item #%d = %r" % (k, it)}
    for chk in getattr(contract, "native_checks", []):
        msg = chk(ens_ns, result if items is None else items)
        if msg:
            return {"clause": msg[0], "observed": msg[1]}
    return None


def summ(v):
    s = repr(v)
    return s if len(s) < 300 else s[:300] + "..."
