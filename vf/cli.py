"""./check <ID> [--tier quick|thorough] [--replay <path>] [--only d|r] [--write-baseline]"""
import argparse
import json
import os
import sys


def main(argv=None):
    ap = argparse.ArgumentParser(prog="check")
    ap.add_argument("property")
    ap.add_argument("--tier", default=os.environ.get("VERIF_TIER", "quick"), choices=["quick", "thorough"])
    ap.add_argument("--replay")
    ap.add_argument("--only", choices=["d", "r"])
    ap.add_argument("--write-baseline", action="store_true")
    a = ap.parse_args(argv)
    seed = int(os.environ.get("VERIF_SEED", "0") or 0)
    os.environ["VERIF_TIER"] = a.tier
    from . import runner
    pid = a.property.upper()
    if a.write_baseline:
        runner.write_baseline(pid, seed)
        return 0
    if a.replay:
        from . import replaycmd
        return replaycmd.replay(pid, a.replay)
    return runner.run_property(pid, a.tier, seed, only=a.only)


if __name__ == "__main__":
    sys.exit(main())
