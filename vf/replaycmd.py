"""Re-run one recorded violation on the current tree."""
import importlib
import json


def replay(pid, path):
    with open(path) as f:
        doc = json.load(f)
    print("replaying %s / %s" % (pid, doc.get("obligation")))
    if "witness" in doc:
        mod = importlib.import_module("rt." + pid.lower())
        fn = getattr(mod, "replay", None)
        if fn is None:
            print("no replay entry point for the bounded driver of %s; witness: %s" % (pid, json.dumps(doc["witness"])))
            return 2
        ok, msg = fn(doc["obligation"], doc["witness"])
        print(("REPRODUCED: " if not ok else "holds now: ") + str(msg))
        return 1 if not ok else 0
    # deductive violation: re-run the native search seeded with the recorded model
    from pyvc.contracts_api import REGISTRY
    from . import replay as rp
    cfg = importlib.import_module("contracts." + pid.lower())
    for m in cfg.CONTRACT_MODULES:
        importlib.import_module(m)
    c = REGISTRY.get(doc.get("function"))
    if c is None:
        print("no contract for %s" % doc.get("function"))
        return 2
    hit = rp.native_search(c, doc.get("solver_model") or {}, seed=doc.get("seed", 0), budget_s=30)
    if isinstance(hit, dict) and "clause" in hit:
        print("REPRODUCED: %s" % json.dumps(hit, default=str))
        return 1
    print("no failing input found natively (%s)" % (hit,))
    return 0
