"""Re-run one recorded violation on the current tree."""
import importlib
import json


def replay(pid, path):
    with open(path) as f:
        doc = json.load(f)
    print("replaying %s / %s" % (pid, doc.get("obligation")))
    if "witness" in doc:
        mod = importlib.import_module("rt." + pid.lower())
        fn = getattr(mod, "replay", None)
        if fn is None:
            print("no replay entry point for the bounded driver of %s; witness: %s" % (pid, json.dumps(doc["witness"])))
            return 2
        ok, msg = fn(doc["obligation"], doc["witness"])
        print(("REPRODUCED: " if not ok else "holds now: ") + str(msg))
        return 1 if not ok else 0
    # deductive violation: re-run the native search seeded with the recorded model
    from pyvc.contracts_api import REGISTRY
    from . import replay as rp
    cfg = importlib.import_module("contracts." + pid.lower())
    for m in cfg.CONTRACT_MODULES:
        importlib.import_module(m)
    c = REGISTRY.get(doc.get("function"))
    if c is None:
        print("no contract for %s" % doc.get("function"))
        return 2
    hit = rp.native_search(c, doc.get("solver_model") or {}, seed=doc.get("seed", 0), budget_s=30)
    if isinstance(hit, dict) and "clause" in hit:
        print("REPRODUCED: %s" % json.dumps(hit, default=str))
        return 1
    print("no failing input found natively (%s)" % (hit,))
    # no native witness: decide the recorded obligation again, deductively, on the current tree
    from pyvc import driver
    from . import REPO_DIR
    fn = doc.get("function")
    reports, clauses, _reach = driver.run(REPO_DIR, cfg.CONTRACT_MODULES, [fn], [], timeout_ms=60000)
    st = {r["qualname"]: r["status"] for r in reports}
    co = clauses.get(doc.get("obligation"))
    if co is None:
        print("UNDECIDED: the obligation is not generated on this tree (function status: %s)" % st.get(fn))
        return 2
    print("deductive tier on the current tree: %s is %s (%d VCs, back end %s)" % (doc.get("obligation"), co.status, co.vcs, "+".join(sorted(co.backends))))
    if co.status == "discharged":
        print("holds now")
        return 0
    if co.status == "refuted":
        print("REPRODUCED (refuted by the solver): counter-model %s" % json.dumps(co.model, default=str)[:600])
        return 1
    print("UNDECIDED: solver gave no answer")
    return 2
