"""Engine soundness cross-check ("admission"): the symbolic semantics pyvc gives to a function of
/repo must ADMIT every behaviour CPython shows for it.

For a function whose parameters are of replayable scalar types (int, nat, bool, Pos, tuples of
these; receivers with such fields) the function is executed symbolically once (same engine, same
loop contracts, same callee contracts as in the proofs; its own post-conditions removed).  Every
finished path gives (path condition, outcome, result term).  Then the REAL function is called on
sampled inputs satisfying the contract's preconditions and, for each sample, at least one path must
be satisfiable together with ``inputs == sample`` and ``result == native result`` (or ``raises the
native exception``).  If none is, the engine (or an assumed callee contract) misrepresents Python:
that is a CHECKER ERROR (exit 3) — never a verdict about toasty.

This checks the direction proofs rely on (symbolic ⊇ concrete).  It is a sampled check of the
engine, listed in the evidence under ``engine_conformance``; it proves nothing about toasty itself.
"""
import copy
import inspect
import itertools
import random
import time

import z3

from contracts import native
from pyvc import smt
from pyvc.core import _has_quantifier, exc_isinstance, is_z3, z3num
from pyvc.ops import OptionalVal
from pyvc.values import Inst, NTuple, PyList, StrSeq
from .replay import leaves_of as _leaves_of_scalar, Leaf, SMALL

NP_DTYPES = {"f16": "float16", "f32": "float32", "f64": "float64", "u8": "uint8", "i16": "int16", "i32": "int32"}
ARRAY_SAMPLES = {
    "f16": [float("nan"), 0.0, 1.0, -2.5, 3.25, 100.0, 0.5, float("inf")],
    "f32": [float("nan"), 0.0, 1.0, -2.5, 3.25, 100.0, 0.5, -0.0, float("inf"), float("-inf")],
    "f64": [float("nan"), 0.0, 1.0, -2.5, 3.25, 1e6, 0.5],
    "u8": [0, 0, 1, 7, 128, 255], "i16": [0, 0, 1, -1, -32768, 32767, 300], "i32": [0, 0, 1, -1, 40000, -70000, 5],
}


def leaves_of(t, key):
    t = t.strip()
    if t.startswith("ndarray:"):
        import numpy as np
        _, dt, shp = t.split(":")
        shape = tuple(int(d) for d in shp.split("x"))
        n = 1
        for d in shape:
            n *= d
        ls = [Leaf("%s.%d" % (key, k), "arr:" + dt) for k in range(n)]
        return ls, (lambda vals, dt=dt, shape=shape: np.array(vals, dtype=NP_DTYPES[dt]).reshape(shape))
    return _leaves_of_scalar(t, key)


class _Reg(object):
    def __init__(self, base, qualname, c2):
        self.base, self.qualname, self.c2 = base, qualname, c2
        self.contracts = base.contracts
        self.lemmas = base.lemmas
        self.spec_funcs = base.spec_funcs

    def get(self, q):
        return self.c2 if q == self.qualname else self.base.get(q)

    def __getattr__(self, k):
        return getattr(self.base, k)


def eligible(c):
    """(ok, why-not)"""
    if c is None:
        return False, "no contract"
    if c.setup_ is not None or c.cases_:
        return False, "custom symbolic inputs / case split"
    if c.trusted_ or c.model_ is not None:
        return False, "assumed contract"
    for p, t in c.arg_types.items():
        if leaves_of(t, p)[0] is None:
            return False, "parameter %s: %s" % (p, t)
    for f, t in (c.self_fields or {}).items():
        if leaves_of(t, f)[0] is None:
            return False, "receiver field %s: %s" % (f, t)
    return True, ""


def _norm(nat):
    """numpy scalars -> python scalars (recursively through tuples/lists)."""
    try:
        import numpy as np
        if isinstance(nat, np.generic):
            return nat.item()
    except ImportError:
        pass
    if isinstance(nat, tuple) and not hasattr(nat, "_fields"):
        return tuple(_norm(x) for x in nat)
    if isinstance(nat, tuple):
        return tuple(_norm(x) for x in nat)
    if isinstance(nat, list):
        return [_norm(x) for x in nat]
    return nat


def eq_constraint(sym, nat):
    """z3 Bool / python bool saying ``the symbolic value equals the native value``; None if not comparable."""
    nat = _norm(nat)
    try:
        import numpy as np
        from pyvc.ndarray import NdArr
        if isinstance(nat, np.ndarray):
            if not isinstance(sym, NdArr):
                return None
            return _array_eq(sym, nat)
        if isinstance(sym, NdArr):
            return None
    except ImportError:
        pass
    if isinstance(sym, OptionalVal):
        if nat is None:
            return z3.Not(sym.present) if is_z3(sym.present) else (not sym.present)
        inner = eq_constraint(sym.value, nat)
        if inner is None:
            return None
        return _and([sym.present, inner])
    if nat is None:
        return sym is None
    if sym is None:
        return False
    if isinstance(nat, bool):
        if isinstance(sym, bool):
            return sym == nat
        if is_z3(sym) and z3.is_bool(sym):
            return sym if nat else z3.Not(sym)
        if isinstance(sym, int):
            return sym == int(nat)
        return None
    if isinstance(nat, int):
        if isinstance(sym, bool):
            return int(sym) == nat
        if isinstance(sym, int):
            return sym == nat
        if is_z3(sym) and (z3.is_int(sym) or z3.is_real(sym)):
            return sym == nat
        if is_z3(sym) and z3.is_bool(sym):
            return sym if nat == 1 else (z3.Not(sym) if nat == 0 else False)
        return None
    if isinstance(nat, float):
        return None        # floating point results are not compared (reals in the engine)
    if isinstance(nat, str):
        if isinstance(sym, str):
            return sym == nat
        if isinstance(sym, StrSeq) and sym.is_literal():
            return sym.literal() == nat
        return None
    if isinstance(nat, tuple):
        if isinstance(sym, NTuple):
            vals = list(sym.vals)
        elif isinstance(sym, tuple):
            vals = list(sym)
        elif isinstance(sym, PyList):
            return False
        else:
            return None
        if len(vals) != len(nat):
            return False
        parts = [eq_constraint(s, n) for s, n in zip(vals, nat)]
        if any(p is None for p in parts):
            return None
        return _and(parts)
    if isinstance(nat, list):
        if isinstance(sym, PyList):
            if len(sym.items) != len(nat):
                return False
            parts = [eq_constraint(s, n) for s, n in zip(sym.items, nat)]
            if any(p is None for p in parts):
                return None
            return _and(parts)
        return None
    return None


def _array_eq(sym, nat):
    """element-wise equality of a functional array with a numpy array (shape, then every element)."""
    import fractions
    import math
    import numpy as np
    from pyvc.ndarray import FPix
    shape = []
    parts = []
    if len(sym.shape) != nat.ndim:
        return False
    for d, n in zip(sym.shape, nat.shape):
        if isinstance(d, int):
            if d != n:
                return False
        else:
            parts.append(z3num(d) == n)
    kind = nat.dtype.kind
    symkind = "f" if sym.dtype in ("f16", "f32", "f64", "real") else ("b" if sym.dtype == "bool" else "i")
    natkind = "f" if kind == "f" else ("b" if kind == "b" else "i")
    if symkind != natkind:
        return False
    if sym.dtype in NP_DTYPES and NP_DTYPES[sym.dtype] != nat.dtype.name:
        return False
    for idx in np.ndindex(*nat.shape):
        e = sym.at(tuple(idx))
        v = nat[idx].item()
        if isinstance(e, FPix) or kind == "f":
            if not isinstance(e, FPix):
                return None
            if isinstance(v, float) and math.isnan(v):
                parts.append(e.nan if not isinstance(e.nan, bool) else e.nan)
            elif isinstance(v, float) and math.isinf(v):
                # +-inf: a defined, non-finite element (the sign is not modelled)
                parts.append(z3.Not(e.nan) if not isinstance(e.nan, bool) else (not e.nan))
                parts.append(e.inf if not isinstance(e.inf, bool) else e.inf)
            else:
                parts.append(z3.Not(e.nan) if not isinstance(e.nan, bool) else (not e.nan))
                parts.append(z3.Not(e.inf) if not isinstance(e.inf, bool) else (not e.inf))
                # reals in the engine, IEEE floats natively: equal up to the rounding of the native dtype
                fv = fractions.Fraction(v)
                tol = {"float16": fractions.Fraction(1, 400), "float32": fractions.Fraction(1, 10 ** 6)}.get(
                    nat.dtype.name, fractions.Fraction(1, 10 ** 12)) * max(abs(fv), fractions.Fraction(1, 10 ** 6))
                parts.append(z3num(e.val) >= z3.RealVal(str(fv - tol)))
                parts.append(z3num(e.val) <= z3.RealVal(str(fv + tol)))
        else:
            c = eq_constraint(e, v)
            if c is None:
                return None
            parts.append(c)
    return _and(parts)


def _yields_eq(pth, items):
    yt = pth.get("yields")
    if yt is None:
        return None
    m = pth["m"]
    saved = m.path
    m.path = pth["path"]
    m.spec_mode += 1
    try:
        try:
            seq = yt.as_symseq(m, default=None)
            parts = [z3num(seq.length) == len(items)]
            for k, it in enumerate(items):
                e = eq_constraint(seq.at(k), it)
                if e is None:
                    return None
                parts.append(e)
        except Exception:
            return None
    finally:
        m.spec_mode -= 1
        m.path = saved
    return _and(parts)


def _and(parts):
    out = []
    for p in parts:
        if p is False:
            return False
        if p is True:
            continue
        out.append(p)
    if not out:
        return True
    return z3.And(*out)


class FunctionModel(object):
    """Symbolic paths of one function (computed once)."""

    def __init__(self, repo, registry, externals, qualname):
        from pyvc.verify import Verifier
        self.qualname = qualname
        c = registry.get(qualname)
        c2 = copy.copy(c)
        self.paths = []

        self.ended = []

        def capture(m, path, fr, env, outcome, value, exc):
            if outcome == "ended":
                self.ended.append({"entry": dict(fr.entry_env.vars), "path": path})
                return
            rec = {"entry": dict(fr.entry_env.vars), "outcome": outcome, "value": value,
                   "etype": exc.etype if exc is not None else None, "m": m}
            if fr.ytrace is not None:
                rec["yields"] = fr.ytrace
            if env.has("self") and isinstance(env.lookup("self"), Inst):
                rec["self_final"] = dict(env.lookup("self").fields)
            rec["pc_len"] = len(path.pc)
            rec["path"] = path
            self.paths.append(rec)
        c2.path_hooks_ = [capture]
        c2.ensures_, c2.raises_, c2.post_hooks_, c2.event_clauses_ = [], [], [], []
        c2.may_raise_ = [("Exception", "conformance run: any exception is recorded, none is judged")]
        c2.shards_ = 1
        c2.yields_each_, c2.yields_seq_ = [], []
        V = Verifier(repo, _Reg(registry, qualname, c2), externals)
        self.rep = V.gen_function(qualname)
        self.status = self.rep.status
        self.reason = self.rep.reason


def _sample_values(kind, rng, n, small=False):
    if kind.startswith("arr:"):
        return ARRAY_SAMPLES[kind[4:]]
    if small and kind != "bool":
        return [0, 1, 2, 3, 4, 5] if kind == "nat" else [0, 1, 2, 3, 4, 5, -1]
    base = list(SMALL) + [6, 9, 10, 15, 16, 17, 31, 32, 33, 63, 64, 100, 127, 128, 1000]
    if kind == "bool":
        return [True, False]
    vals = base + [rng.randrange(0, 2 ** rng.randrange(1, 14)) for _ in range(n)]
    if kind == "nat":
        vals = [v for v in vals if v >= 0]
    return vals


def _bind_inputs(plan, pth, ns):
    """inputs == sample, as a constraint over the path's own entry symbols (None: not expressible)."""
    binds = []
    for ent in plan:
        p, how = ent[0], ent[1]
        if how == "default" and p not in pth["entry"]:
            continue
        sym = pth["entry"].get(p)
        if p == "self":
            if how == "new":
                continue
            for f, _ in how:
                e = eq_constraint(sym.fields.get(f), getattr(ns["self"], f))
                if e is None:
                    return None
                binds.append(e)
        else:
            e = eq_constraint(sym, ns[p])
            if e is None:
                if how == "default":
                    continue
                return None
            binds.append(e)
    return _and(binds)


def check_function(repo, registry, externals, qualname, samples=60, seed=0, budget_s=30.0):
    """Returns a dict: status 'ok' | 'skipped' | 'mismatch' | 'engine_error', counts, first mismatch."""
    c = registry.get(qualname)
    ok, why = eligible(c)
    if not ok:
        return {"function": qualname, "status": "skipped", "why": why}
    try:
        owner, fn = native.resolve(qualname)
        sig = inspect.signature(fn)
    except Exception as e:
        return {"function": qualname, "status": "skipped", "why": "cannot import: %s" % e}
    params = list(sig.parameters)
    is_init = qualname.endswith(".__init__")
    if is_init and not c.init_fields_:
        return {"function": qualname, "status": "skipped", "why": "constructor without declared fields"}
    is_gen = inspect.isgeneratorfunction(fn)
    t0 = time.time()
    fm = FunctionModel(repo, registry, externals, qualname)
    if fm.status != "ok":
        return {"function": qualname, "status": "skipped", "why": "symbolic run: %s %s" % (fm.status, (fm.reason or "")[:120])}
    if not fm.paths:
        return {"function": qualname, "status": "skipped", "why": "no finished path"}
    rng = random.Random(seed)
    # builders of native arguments
    plan = []
    for p in params:
        if p == "self":
            if is_init:
                plan.append(("self", "new"))
                continue
            if c.self_fields is None:
                return {"function": qualname, "status": "skipped", "why": "receiver fields not declared"}
            ic = registry.get(qualname.rsplit(".", 1)[0] + ".__init__")
            ctor = None
            if ic is not None and owner is not None:
                try:
                    isig = inspect.signature(owner.__init__)
                    ips = [q for q in isig.parameters if q != "self"]
                    if all(q in ic.arg_types and leaves_of(ic.arg_types[q], q)[0] is not None for q in ips):
                        ctor = [(q, leaves_of(ic.arg_types[q], q)) for q in ips]
                except (TypeError, ValueError):
                    ctor = None
            plan.append(("self", [(f, leaves_of(t, "self." + f)) for f, t in c.self_fields.items()], ctor))
        elif p in c.arg_types:
            plan.append((p, leaves_of(c.arg_types[p], p)))
        elif sig.parameters[p].default is not inspect.Parameter.empty:
            plan.append((p, "default"))
        else:
            return {"function": qualname, "status": "skipped", "why": "parameter %s untyped" % p}
    checked = admitted = inconclusive = compared = side_covered = 0
    tried = 0
    first_bad = None
    while checked < samples and tried < samples * 40 and time.time() - t0 < budget_s:
        tried += 1
        ns = {}
        skip = False
        for ent in plan:
            p, how = ent[0], ent[1]
            if p == "self":
                if how == "new":
                    ns["self"] = object.__new__(owner)
                    continue
                ctor = ent[2]
                if ctor is not None and tried % 3 != 0:
                    try:
                        ns["self"] = owner(*[b([rng.choice(_sample_values(l.kind, rng, 4, is_gen)) for l in ls]) for q, (ls, b) in ctor])
                    except Exception:
                        skip = True
                        break
                    continue
                inst = object.__new__(owner)
                for f, (ls, b) in how:
                    vals = [rng.choice(_sample_values(l.kind, rng, 4, is_gen)) for l in ls]
                    setattr(inst, f, b(vals))
                ns["self"] = inst
            elif how == "default":
                ns[p] = sig.parameters[p].default
            else:
                ls, b = how
                ns[p] = b([rng.choice(_sample_values(l.kind, rng, 4, is_gen)) for l in ls])
        if skip:
            continue
        try:
            if not all(native.eval_clause(expr, ns) is not False for _, expr in c.requires_):
                continue
        except Exception:
            continue
        raised, result = None, None
        final_self = None
        import sys
        old_limit = sys.getrecursionlimit()
        sys.setrecursionlimit(900)
        try:
            call = [copy.copy(ns[p]) if p == "self" else copy.deepcopy(ns[p]) for p in params]
            result = fn(*call)
            if is_gen:
                result = list(itertools.islice(result, 200))
                if len(result) >= 200:
                    continue
            if is_init:
                final_self = call[0]
        except RecursionError:
            sys.setrecursionlimit(old_limit)
            continue
        except Exception as e:     # noqa
            raised = e
        finally:
            sys.setrecursionlimit(old_limit)
        checked += 1
        verdict = None          # True admitted / False not admitted / None inconclusive
        any_unknown = False
        for pth in fm.paths:
            if (raised is None) != (pth["outcome"] == "return"):
                continue
            if raised is not None:
                names = [k.__name__ for k in type(raised).__mro__]
                if not any(exc_isinstance(pth["etype"], n) or pth["etype"] == n for n in names):
                    continue
            req = _bind_inputs(plan, pth, ns)
            bad = req is None
            if bad:
                any_unknown = True
                continue
            if req is False:
                continue
            goal = True
            if raised is None:
                if is_init:
                    parts = []
                    for f in c.init_fields_:
                        if f in pth.get("self_final", {}) and hasattr(final_self, f):
                            parts.append(eq_constraint(pth["self_final"][f], getattr(final_self, f)))
                    goal = None if (not parts or any(q is None for q in parts)) else _and(parts)
                elif is_gen:
                    goal = _yields_eq(pth, result)
                else:
                    goal = eq_constraint(pth["value"], result)
                if goal is None:
                    goal = True        # result not comparable: only the path condition is checked
                else:
                    compared += 1
            if goal is False:
                continue
            hyps = [h for h in pth["path"].pc if not isinstance(h, bool) and not _has_quantifier(h)]
            extra = [x for x in (req, goal) if x is not True]
            s = z3.Solver()
            s.set("timeout", 5000)
            for f in smt.pow2_instances(hyps + extra):
                s.add(f)
            for f in smt.bit_facts(hyps + extra):
                s.add(f)
            for h in hyps + extra:
                s.add(h)
            r = s.check()
            if r == z3.sat:
                verdict = True
                break
            if r == z3.unknown:
                any_unknown = True
        if not verdict and not any_unknown:
            # arithmetic / index errors are modelled as SIDE OBLIGATIONS (refuted => reported), not as paths:
            # a sample that falsifies one of them is accounted for by that obligation
            for pth in fm.paths + fm.ended:
                binds = _bind_inputs(plan, pth, ns)
                if binds is None:
                    continue
                for ob in pth["path"].obligations:
                    if ob.kind != "side":
                        continue
                    g = ob.goal if not isinstance(ob.goal, bool) else z3.BoolVal(ob.goal)
                    s2 = z3.Solver()
                    s2.set("timeout", 3000)
                    for h in ob.hyps:
                        if not isinstance(h, bool) and not _has_quantifier(h):
                            s2.add(h)
                    if binds is not True:
                        s2.add(binds)
                    s2.add(z3.Not(g))
                    if s2.check() == z3.sat:
                        verdict = "side"
                        break
                if verdict:
                    break
        if verdict == "side":
            side_covered += 1
        elif verdict:
            admitted += 1
        elif any_unknown:
            inconclusive += 1
        else:
            if first_bad is None:
                first_bad = {"inputs": {k: (repr(v) if k != "self" else {f: repr(getattr(v, f, None)) for f in (c.self_fields or {})})
                                        for k, v in ns.items()},
                             "native": ("raised %r" % (raised,)) if raised is not None else repr(result)[:300]}
    status = "ok" if first_bad is None else "mismatch"
    return {"function": qualname, "status": status, "paths": len(fm.paths), "samples": checked, "admitted": admitted,
            "results_compared": compared, "covered_by_side_obligation": side_covered,
            "inconclusive": inconclusive, "first_mismatch": first_bad,
            "secs": round(time.time() - t0, 2)}


def _one(job):
    repo_dir, contract_modules, qualname, samples, seed, budget = job
    import importlib
    from pyvc.contracts_api import REGISTRY
    from pyvc.extract import Repo
    from pyvc.externals import default_externals
    for mname in contract_modules:
        importlib.import_module(mname)
    repo = Repo(repo_dir)
    ext = default_externals()
    for mname in contract_modules:
        mod = importlib.import_module(mname)
        if hasattr(mod, "install_externals"):
            mod.install_externals(ext)
    try:
        return check_function(repo, REGISTRY, ext, qualname, samples=samples, seed=seed, budget_s=budget)
    except Exception as e:      # the cross-check itself failed: reported, never a verdict
        import traceback
        return {"function": qualname, "status": "engine_error", "why": "%s: %s" % (type(e).__name__, e),
                "trace": traceback.format_exc(limit=6)}


def run(repo_dir, contract_modules, functions, samples=60, seed=0, budget_s=30.0, workers=8):
    from concurrent.futures import ProcessPoolExecutor
    jobs = [(repo_dir, list(contract_modules), f, samples, seed, budget_s) for f in functions]
    if not jobs:
        return []
    with ProcessPoolExecutor(max_workers=min(workers, len(jobs))) as ex:
        return list(ex.map(_one, jobs))
