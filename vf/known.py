"""known_findings.json: committed list of genuine defects that are recorded rather than
repaired ("finding") or repaired ("fixed", suppresses nothing). Never written at run time."""
import json
import os

from . import VERIF_DIR


def load():
    p = os.path.join(VERIF_DIR, "known_findings.json")
    if not os.path.exists(p):
        return []
    with open(p) as f:
        return json.load(f).get("findings", [])


def match(prop, obligation, witness):
    """Return the 'finding' entry that covers this violation, or None. An entry covers it
    only if the obligation name matches AND the witness predicate holds on the witness."""
    for e in load():
        if e.get("kind") != "finding" or e.get("property") != prop:
            continue
        if e.get("obligation") != obligation:
            continue
        pred = e.get("witness_pred", "True")
        try:
            ok = bool(eval(pred, {"__builtins__": {"abs": abs, "len": len, "min": min, "max": max, "str": str, "int": int, "float": float, "any": any, "all": all, "isinstance": isinstance, "list": list}}, dict(witness or {})))
        except Exception:
            ok = False
        if ok:
            return e
    return None
