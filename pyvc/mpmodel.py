"""Assumed contracts of multiprocessing / filelock objects (DESIGN §3.4), as ghost-event models.

mp.Queue   every item put is delivered to at most one get; ``get(timeout)`` may raise Empty at
           any time the caller cannot exclude (timeouts fire arbitrarily: this is what makes the
           invariants hold for *every* interleaving); an item a getter receives satisfies the
           queue's *rely* condition (set by the contract of the code that owns the queue).
mp.Event   monotone flag.
mp.Process start/join; ``exitcode != 0`` iff the target raised.
No fairness, no termination is assumed.
"""
import z3

from . import ops
from .core import OutOfSubset, PyRaise, is_z3, z3num, fresh_name
from .values import NTuple, Opaque, PyList
from .externals import EventCM, NoopCM
from .symmap import SymSet
from .types import fresh_of_type, register_type


def new_queue(label, item_type=None, rely=None):
    q = Opaque("queue", fresh_name(label))
    q.attrs["_g_item_type"] = item_type
    q.attrs["_g_rely"] = rely            # callable(interp, queue, item) -> fact assumed about a received item
    q.attrs["_g_put"] = SymSet(label + ".put")    # ghost: every position ever put (by this process)
    q.attrs["_g_got"] = SymSet(label + ".got")    # ghost: every position ever received (by this process)
    q.attrs["_g_closed"] = False
    return q


class QueuePlugin(object):
    def enter_context(self, interp, cm, run_body):
        if isinstance(cm, Opaque) and cm.kind == "filelock":
            interp.path.event("enter", "lock", cm.attrs["_g_key"])
            try:
                run_body(cm)
            finally:
                interp.path.event("exit", "lock", cm.attrs["_g_key"])
            return True
        return False

    def getattr(self, interp, base, attr):
        if isinstance(base, Opaque) and base.kind == "process" and attr == "exitcode":
            # None while running; an int once the process has ended (!= 0 iff the target raised)
            from .ops import OptionalVal
            if "_g_exitcode" not in base.attrs:
                base.attrs["_g_exitcode"] = OptionalVal(z3.Bool(fresh_name("finished")), z3.Int(fresh_name("exitcode")))
            interp.path.event("exitcode_read", base, base.attrs["_g_exitcode"])
            return base.attrs["_g_exitcode"]
        return NotImplemented

    def havoc(self, interp, obj, expr):
        if isinstance(obj, Opaque) and obj.kind == "queue":
            from .symmap import fresh_bool_cube
            obj.attrs["_g_put"].member = fresh_bool_cube(obj.name + ".put")
            obj.attrs["_g_got"].member = fresh_bool_cube(obj.name + ".got")
            return True
        return False

    def is_mutable_model(self, obj):
        return False


def install(X):
    X.plugins.append(QueuePlugin())

    @X.register("multiprocessing.Queue")
    def _(interp, args, kwargs):
        interp.note_assumption("mp.Queue: each item put is delivered to at most one get; get(timeout) may raise "
                               "Empty whenever no item is visible; no fairness assumed")
        q = new_queue("queue")
        q.attrs["_g_maxsize"] = kwargs.get("maxsize", args[0] if args else 0)
        interp.path.event("q_new", q)
        return q

    @X.register("multiprocessing.Event")
    def _(interp, args, kwargs):
        e = Opaque("event", fresh_name("event"))
        e.attrs["_g_set"] = False
        interp.path.event("ev_new", e)
        return e

    @X.register("multiprocessing.Process")
    def _(interp, args, kwargs):
        p = Opaque("process", fresh_name("proc"))
        p.attrs["_g_target"] = kwargs.get("target")
        p.attrs["_g_args"] = kwargs.get("args")
        interp.path.event("proc_new", p, kwargs.get("target"), kwargs.get("args"))
        return p

    @X.register("multiprocessing.get_start_method")
    def _(interp, args, kwargs):
        return Opaque("start_method")

    # ---- queue ----
    @X.register_opaque("queue", "put")
    def _(interp, q, args, kwargs):
        item = args[0]
        if "timeout" in kwargs or len(args) > 2:
            # bounded queue, put with a time-out: may raise Full whenever the queue is full
            if interp.path.nondet("put_times_out"):
                interp.path.event("q_put_full", q, item)
                raise PyRaise("Full", origin="queue.put timed out (bounded queue full)")
        if isinstance(item, NTuple) and item.tname == "Pos":
            if q.attrs.get("_g_once"):
                interp.side_obligation("each_position_is_put_at_most_once", z3.Not(q.attrs["_g_put"].has(item)))
            q.attrs["_g_put"].add(item)
        interp.path.event("q_put", q, item)
        return None

    @X.register_opaque("queue", "get")
    def _(interp, q, args, kwargs):
        if interp.path.nondet("get_times_out"):
            interp.path.event("q_get_empty", q)
            raise PyRaise("Empty", origin="queue.get timed out (may happen whenever the caller cannot exclude it)")
        t = q.attrs.get("_g_item_type")
        if t is None:
            raise OutOfSubset("queue.get on a queue without a declared item type")
        item = fresh_of_type(interp, t, "got")
        rely = q.attrs.get("_g_rely")
        if rely is not None:
            interp.path.assume(rely(interp, q, item))
        interp.path.event("q_get", q, item)
        if isinstance(item, NTuple) and item.tname == "Pos":
            q.attrs["_g_got"].add(item)
        return item

    @X.register_opaque("queue", "close")
    def _(interp, q, args, kwargs):
        interp.path.event("q_close", q)
        return None

    @X.register_opaque("queue", "join_thread")
    def _(interp, q, args, kwargs):
        interp.path.event("q_join_thread", q)
        return None

    @X.register_opaque("queue", "qsize")
    def _(interp, q, args, kwargs):
        return z3.Int(fresh_name("qsize"))

    # ---- event ----
    @X.register_opaque("event", "set")
    def _(interp, e, args, kwargs):
        e.attrs["_g_set"] = True
        interp.path.event("ev_set", e)
        return None

    @X.register_opaque("event", "is_set")
    def _(interp, e, args, kwargs):
        b = z3.Bool(fresh_name("is_set"))
        interp.path.event("ev_is_set", e, b)
        return b

    # ---- process ----
    @X.register_opaque("process", "start")
    def _(interp, p, args, kwargs):
        interp.path.event("proc_start", p)
        return None

    @X.register_opaque("process", "join")
    def _(interp, p, args, kwargs):
        # join() returns once the process has ended; join(timeout) may return while it is still running (exitcode None)
        timeout = args[0] if args else kwargs.get("timeout")
        interp.path.event("proc_join", p, timeout)
        return None

    # ---- callbacks (user code): may raise anything ----
    @X.register_opaque("callback", "__call__")
    def _(interp, cb, args, kwargs):
        interp.path.event("cb_start", cb, tuple(args))
        if interp.path.nondet("callback_raises"):
            raise PyRaise("CallbackError", origin="the user callback raised")
        interp.path.event("cb_done", cb, tuple(args))
        return None


    @X.register_opaque("factory", "__call__")
    def _(interp, f, args, kwargs):
        interp.path.event("factory_call", f)
        return Opaque("buffer", fresh_name("buf"))


    @X.register("filelock.SoftFileLock")
    def _(interp, args, kwargs):
        interp.note_assumption("SoftFileLock(path): at most one holder per path at a time across processes; "
                               "released on context exit, normal or exceptional")
        lk = Opaque("filelock", fresh_name("lock"))
        lk.attrs["_g_key"] = args[0]
        # the constructor's default time-out applies to every acquire() that does not give its own (filelock API)
        lk.attrs["_g_timeout"] = kwargs.get("timeout", args[1] if len(args) > 1 else -1)
        return lk

    @X.register_opaque("filelock", "acquire")
    def _(interp, lk, args, kwargs):
        t = kwargs.get("timeout", args[0] if args else None)
        if t is None:
            t = lk.attrs.get("_g_timeout", -1)
        if t is not None and not (isinstance(t, (int, float)) and t < 0):
            # a bounded wait may give up while another process legitimately holds the lock
            if interp.path.nondet("lock_wait_times_out"):
                interp.path.event("lock_timeout", lk.attrs["_g_key"])
                raise PyRaise("Timeout", origin="filelock.Timeout: the lock is held by someone else")
        interp.path.event("enter", "lock", lk.attrs["_g_key"])
        return lk

    @X.register_opaque("filelock", "release")
    def _(interp, lk, args, kwargs):
        interp.path.event("exit", "lock", lk.attrs["_g_key"])
        return None


    @X.register_opaque("collection", "images")
    def _(interp, c, args, kwargs):
        return Opaque("images", fresh_name("images"))

    @X.register_opaque("collection", "descriptions")
    def _(interp, c, args, kwargs):
        return Opaque("descriptions", fresh_name("descriptions"))
