"""Arithmetic / comparison / truthiness on symbolic scalars.  States what of Python's
semantics the encoding assumes:

* ``int`` is z3 Int (exact: python ints are unbounded);
* ``float`` is z3 Real; float literals and ``np.pi`` are the *exact rational value of the
  IEEE double* (machine floats treated as mathematical reals);
* ``//`` and ``%`` on ints follow python's floor semantics for either divisor sign, with a
  "divisor != 0" side obligation;
* ``2**k`` / ``4**k`` / shifts with a symbolic exponent use the uninterpreted ``pow2``.
"""
import fractions
import math

import z3

from .core import fresh_name, OutOfSubset, is_z3, z3num, z3bool, PyRaise
from .values import NTuple, EnumVal, StrSeq, Tok, PyList, SliceVal, Ext, Opaque, Inst, FuncVal, StrId

pow2 = z3.Function("pow2", z3.IntSort(), z3.IntSort())
ilog2 = z3.Function("ilog2", z3.IntSort(), z3.IntSort())

# Bit(v, i): bit i of the non-negative int v.  Its meaning comes from the decomposition facts
# v == sum(2**i * Bit(v, i)) that smt.py instantiates for every ground v (0 <= v < 2**BIT_WIDTH).
Bit = z3.Function("Bit", z3.IntSort(), z3.IntSort(), z3.BoolSort())

PI = fractions.Fraction(math.pi)


def pow2_axioms():
    k = z3.Int("k!ax")
    return [
        pow2(0) == 1,
        z3.ForAll([k], z3.Implies(k >= 0, pow2(k + 1) == 2 * pow2(k)), patterns=[pow2(k + 1)]),
        z3.ForAll([k], z3.Implies(k >= 1, pow2(k) == 2 * pow2(k - 1)), patterns=[pow2(k)]),
        z3.ForAll([k], z3.Implies(k >= 0, pow2(k) >= 1), patterns=[pow2(k)]),
        z3.ForAll([k], z3.Implies(k >= 0, ilog2(pow2(k)) == k), patterns=[pow2(k)]),
    ]


def is_num(v):
    return isinstance(v, (int, float, fractions.Fraction)) and not isinstance(v, bool) or (
        is_z3(v) and (z3.is_int(v) or z3.is_real(v))
    )


def is_real(v):
    return isinstance(v, (float, fractions.Fraction)) or (is_z3(v) and z3.is_real(v))


def is_int(v):
    return (isinstance(v, int) and not isinstance(v, bool)) or (is_z3(v) and z3.is_int(v))


def concrete_num(v):
    return isinstance(v, (int, float, fractions.Fraction)) and not isinstance(v, bool)


def _pynum(v):
    if isinstance(v, float):
        return fractions.Fraction(v)
    return v


def simp(e):
    if is_z3(e):
        e = z3.simplify(e)
        if z3.is_int_value(e):
            return e.as_long()
        if z3.is_true(e):
            return True
        if z3.is_false(e):
            return False
    return e


def binop(interp, op, a, b):
    """op in '+','-','*','/','//','%','**','<<','>>','|','&'."""
    if isinstance(a, bool) and not is_z3(b):
        a = int(a)
    if isinstance(b, bool) and not is_z3(a):
        b = int(b)
    if concrete_num(a) and concrete_num(b):
        a, b = _pynum(a), _pynum(b)
        try:
            if op == "+":
                return a + b
            if op == "-":
                return a - b
            if op == "*":
                return a * b
            if op == "/":
                return fractions.Fraction(a) / fractions.Fraction(b)
            if op == "//":
                return a // b
            if op == "%":
                return a % b
            if op == "**":
                if isinstance(b, int) and b >= 0:
                    return a ** b
                raise OutOfSubset("non-integer power")
            if op == "<<":
                return a << b
            if op == ">>":
                return a >> b
            if op == "|":
                return a | b
            if op == "&":
                return a & b
        except ZeroDivisionError:
            raise PyRaise("ZeroDivisionError", origin="concrete division")
    if not (is_num(a) or isinstance(a, bool) or (is_z3(a) and z3.is_bool(a))) or not (
        is_num(b) or isinstance(b, bool) or (is_z3(b) and z3.is_bool(b))
    ):
        raise OutOfSubset("arithmetic %s on %r, %r" % (op, a, b))
    za, zb = _arith(a), _arith(b)
    if op == "+":
        return simp(za + zb)
    if op == "-":
        return simp(za - zb)
    if op == "*":
        return simp(za * zb)
    if op == "/":
        interp.side_nonzero(zb)
        ra = z3.ToReal(za) if z3.is_int(za) else za
        rb = z3.ToReal(zb) if z3.is_int(zb) else zb
        return simp(ra / rb)
    if op in ("//", "%"):
        interp.side_nonzero(zb)
        if z3.is_int(za) and z3.is_int(zb):
            if z3.is_int_value(zb) and zb.as_long() > 0:
                return simp(za / zb) if op == "//" else simp(za % zb)
            q = z3.If(zb > 0, za / zb, (-za) / (-zb))
            if op == "//":
                return simp(q)
            return simp(za - zb * q)
        # real floor division / modulo
        ra = z3.ToReal(za) if z3.is_int(za) else za
        rb = z3.ToReal(zb) if z3.is_int(zb) else zb
        q = z3.ToReal(z3.ToInt(ra / rb))
        if op == "//":
            return simp(q)
        return simp(ra - rb * q)
    if op == "**":
        if concrete_num(a) and a in (2, 4) and z3.is_int(zb):
            interp.side_obligation("pow_exponent_nonneg", zb >= 0)
            return pow2(zb) if a == 2 else pow2(2 * zb)
        if concrete_num(b) and isinstance(b, int) and 0 <= b <= 4:
            r = z3num(1) if b == 0 else za
            for _ in range(b - 1):
                r = r * za
            return simp(r)
        raise OutOfSubset("power %r ** %r" % (a, b))
    if op == "<<":
        interp.side_obligation("shift_nonneg", zb >= 0)
        if concrete_num(b):
            return simp(za * (2 ** b))
        return simp(za * pow2(zb))
    if op == ">>":
        interp.side_obligation("shift_nonneg", zb >= 0)
        if concrete_num(b):
            return simp(za / z3.IntVal(2 ** b))
        interp.assume_fact(pow2(zb) >= 1)
        return simp(za / pow2(zb))
    if op in ("|", "&"):
        return bitop(interp, op, za, zb)
    raise OutOfSubset("operator %s" % op)


def _arith(v):
    if is_z3(v) and z3.is_bool(v):
        return z3.If(v, 1, 0)
    return z3num(v)


BIT_WIDTH = 4


def bits_of(x, width=BIT_WIDTH):
    """Boolean terms for the low ``width`` bits of a non-negative Int term."""
    out = []
    for i in range(width):
        out.append(((x / (2 ** i)) % 2) == 1)
    return out


def bitop(interp, op, za, zb):
    """Bitwise | and & on small non-negative ints: bit-sum expansion over BIT_WIDTH bits with
    the side obligation that both operands are in [0, 2**BIT_WIDTH)."""
    w = interp.bit_width
    lim = 2 ** w
    if concrete_num(zb) or z3.is_int_value(zb):
        vb = zb if concrete_num(zb) else zb.as_long()
        if op == "&" and vb == 1:
            # x & 1 == x % 2 for any int (python semantics incl. negatives)
            return simp(za % 2)
    interp.side_obligation("bitop_range_lhs", z3.And(za >= 0, za < lim))
    interp.side_obligation("bitop_range_rhs", z3.And(zb >= 0, zb < lim))
    ba, bb = [Bit(za, i) for i in range(w)], [Bit(zb, i) for i in range(w)]
    total = z3.IntVal(0)
    for i in range(w):
        bit = z3.Or(ba[i], bb[i]) if op == "|" else z3.And(ba[i], bb[i])
        total = total + z3.If(bit, 2 ** i, 0)
    return simp(total)


def neg(v):
    if concrete_num(v):
        return -_pynum(v)
    return simp(-z3num(v))


def compare(interp, op, a, b):
    """op in '==','!=','<','<=','>','>=' ; returns python bool or z3 Bool."""
    if op in ("==", "!="):
        r = equals(interp, a, b)
        if op == "==":
            return r
        return (not r) if isinstance(r, bool) else simp(z3.Not(r))
    if concrete_num(a) and concrete_num(b):
        a, b = _pynum(a), _pynum(b)
        return {"<": a < b, "<=": a <= b, ">": a > b, ">=": a >= b}[op]
    if isinstance(a, bool):
        a = int(a)
    if isinstance(b, bool):
        b = int(b)
    if not (is_num(a) and is_num(b)):
        raise OutOfSubset("ordering comparison on %r, %r" % (a, b))
    za, zb = z3num(a), z3num(b)
    return simp({"<": za < zb, "<=": za <= zb, ">": za > zb, ">=": za >= zb}[op])


def equals(interp, a, b):
    if a is None or b is None:
        if a is None and b is None:
            return True
        other = b if a is None else a
        if isinstance(other, OptionalVal):
            return simp(z3.Not(other.present))
        return False
    if isinstance(a, OptionalVal) or isinstance(b, OptionalVal):
        o, other = (a, b) if isinstance(a, OptionalVal) else (b, a)
        if isinstance(other, OptionalVal):
            raise OutOfSubset("equality of two optional values")
        # None is not equal to any number
        return conj([o.present, equals(interp, o.value, other)])
    if isinstance(a, bool) and isinstance(b, bool):
        return a == b
    if (is_z3(a) and z3.is_bool(a)) or (is_z3(b) and z3.is_bool(b)):
        if is_num(a) or is_num(b):
            return simp(_arith(a) == _arith(b))
        return simp(z3bool(a) == z3bool(b))
    if is_num(a) and is_num(b):
        if concrete_num(a) and concrete_num(b):
            return _pynum(a) == _pynum(b)
        return simp(z3num(a) == z3num(b))
    if isinstance(a, bool) and is_num(b) or isinstance(b, bool) and is_num(a):
        return equals(interp, _arith(a) if isinstance(a, bool) else a, _arith(b) if isinstance(b, bool) else b)
    if isinstance(a, NTuple) and isinstance(b, NTuple):
        if a.tname != b.tname or len(a.vals) != len(b.vals):
            return False
        return conj([equals(interp, x, y) for x, y in zip(a.vals, b.vals)])
    if isinstance(a, NTuple) and isinstance(b, tuple):
        b = NTuple(a.tname, a.names, b) if len(b) == len(a.vals) else None
        return equals(interp, a, b) if b is not None else False
    if isinstance(b, NTuple) and isinstance(a, tuple):
        return equals(interp, b, a)
    if isinstance(a, tuple) and isinstance(b, tuple):
        if len(a) != len(b):
            return False
        return conj([equals(interp, x, y) for x, y in zip(a, b)])
    if isinstance(a, StrId) or isinstance(b, StrId):
        ia, ib = str_ident(a), str_ident(b)
        if ia is None or ib is None:
            if not isinstance(a, (str, StrSeq, StrId)) or not isinstance(b, (str, StrSeq, StrId)):
                return False
            raise OutOfSubset("equality of string identity with %r / %r" % (a, b))
        return simp(ia == ib)
    if isinstance(a, (str, StrSeq)) and isinstance(b, (str, StrSeq)):
        if isinstance(a, str) and isinstance(b, str):
            return a == b
        sa = a if isinstance(a, StrSeq) else StrSeq([a])
        sb = b if isinstance(b, StrSeq) else StrSeq([b])
        return sa == sb
    if isinstance(a, EnumVal) or isinstance(b, EnumVal):
        return isinstance(a, EnumVal) and isinstance(b, EnumVal) and a == b
    if isinstance(a, PyList) and isinstance(b, PyList):
        if len(a.items) != len(b.items):
            return False
        return conj([equals(interp, x, y) for x, y in zip(a.items, b.items)])
    if isinstance(a, (Opaque, Inst, FuncVal, Ext)) or isinstance(b, (Opaque, Inst, FuncVal, Ext)):
        if a is b:
            return True
        if isinstance(a, Ext) and isinstance(b, Ext):
            return a == b
        if type(a) is not type(b):
            return False
        raise OutOfSubset("equality of distinct opaque objects")
    if getattr(type(a), "_pyvc_eq", False) and type(a) is type(b):
        return bool(a == b)
    kinds = (type(a).__name__, type(b).__name__)
    if isinstance(a, (str, StrSeq)) != isinstance(b, (str, StrSeq)):
        return False
    raise OutOfSubset("equality on %s / %s" % kinds)


def conj(parts):
    out = []
    for p in parts:
        if isinstance(p, bool):
            if not p:
                return False
            continue
        out.append(p)
    if not out:
        return True
    return simp(z3.And(*out)) if len(out) > 1 else out[0]


def disj(parts):
    out = []
    for p in parts:
        if isinstance(p, bool):
            if p:
                return True
            continue
        out.append(p)
    if not out:
        return False
    return simp(z3.Or(*out)) if len(out) > 1 else out[0]


def negate(p):
    if isinstance(p, bool):
        return not p
    return simp(z3.Not(z3bool(p)))


def implies(a, b):
    return disj([negate(a), b])


def ite(c, a, b):
    if isinstance(c, bool):
        return a if c else b
    if (is_num(a) or isinstance(a, bool) or is_z3(a)) and (is_num(b) or isinstance(b, bool) or is_z3(b)):
        if isinstance(a, bool) or isinstance(b, bool) or (is_z3(a) and z3.is_bool(a)):
            return simp(z3.If(c, z3bool(a), z3bool(b)))
        za, zb = z3num(a), z3num(b)
        if z3.is_int(za) and z3.is_real(zb):
            za = z3.ToReal(za)
        if z3.is_real(za) and z3.is_int(zb):
            zb = z3.ToReal(zb)
        return simp(z3.If(c, za, zb))
    if isinstance(a, NTuple) and isinstance(b, NTuple) and a.tname == b.tname:
        return NTuple(a.tname, a.names, [ite(c, x, y) for x, y in zip(a.vals, b.vals)])
    if isinstance(a, tuple) and isinstance(b, tuple) and len(a) == len(b):
        return tuple(ite(c, x, y) for x, y in zip(a, b))
    if a is b:
        return a
    from .values import Opaque as _Opaque
    if isinstance(a, _Opaque) and isinstance(b, _Opaque) and a.kind == b.kind:
        if a.name == b.name:
            return a
        # one of two opaque objects of the same kind: an opaque object of that kind about which nothing is known
        return _Opaque(a.kind, fresh_name("either_%s" % a.kind))
    raise OutOfSubset("if-then-else over structured values %r / %r" % (type(a).__name__, type(b).__name__))


class OptionalVal(object):
    """``value`` if ``present`` else None, for scalar/NTuple payloads."""

    def __init__(self, present, value):
        self.present = present
        self.value = value

    def __repr__(self):
        return "<optional %s ? %s>" % (self.present, self.value)


def truth(interp, v):
    """Python truthiness as python bool or z3 Bool."""
    if isinstance(v, bool):
        return v
    if is_z3(v):
        if z3.is_bool(v):
            return v
        if z3.is_int(v) or z3.is_real(v):
            return simp(v != 0)
    if concrete_num(v):
        return v != 0
    if isinstance(v, OptionalVal):
        # None is falsy; otherwise the payload's own truthiness (a present 0 / 0.0 is falsy too)
        inner = truth(interp, v.value)
        if inner is True:
            return v.present
        if inner is False:
            return False
        return conj([v.present, inner])
    if isinstance(v, StrSeq):
        if any(isinstance(p, str) and p for p in v.parts):
            return True
        if any(isinstance(p, Tok) and p.klass in ("digits", "format", "path", "name", "wcskey") for p in v.parts):
            return True    # tokens of these classes stand for non-empty strings
        raise OutOfSubset("truthiness of symbolic string")
    from .values import truthy_static
    t = truthy_static(v)
    if t is None:
        raise OutOfSubset("truthiness of %r" % (v,))
    return t


_STR_LITS = {}


def strlit(text):
    """Identity term of a string literal; distinct literals get distinct identities (the
    Distinct constraint is added to every query that mentions two of them, see smt.py)."""
    if text not in _STR_LITS:
        _STR_LITS[text] = z3.Int("strlit!%s" % text)
    return _STR_LITS[text]


def str_ident(v):
    if isinstance(v, StrId):
        return v.ident
    if isinstance(v, str):
        return strlit(v)
    if isinstance(v, StrSeq):
        if v.is_literal():
            return strlit(v.literal())
        if len(v.parts) == 1 and isinstance(v.parts[0], Tok) and is_z3(v.parts[0].src):
            return v.parts[0].src if v.parts[0].klass == "strid" else None
    return None
