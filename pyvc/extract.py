"""Locate the real source of the functions under contract.

Every run re-reads ``<repo>/toasty/**/*.py`` and parses it with ``ast``; functions,
methods and nested closures are found by qualified name, e.g.
``toasty.pyramid.Pyramid._walk_parallel`` or
``toasty.samplers.plate_carree_sampler.<locals>.vec2pix``.  Nothing is copied
into /verif: the AST that is executed symbolically is the AST of the file that
Python would import.
"""
import ast
import hashlib
import os


class SourceError(Exception):
    pass


class Module(object):
    def __init__(self, name, path):
        self.name = name
        self.path = path
        with open(path, "r", encoding="utf-8") as f:
            self.text = f.read()
        self.sha = hashlib.sha256(self.text.encode()).hexdigest()[:16]
        self.tree = ast.parse(self.text, filename=path)
        self.functions = {}   # qualname (without module) -> ast.FunctionDef
        self.classes = {}     # class name -> ast.ClassDef
        self.assigns = {}     # module-level name -> ast expr (last assignment)
        self.imports = {}     # local name -> dotted target ("numpy", "toasty.pyramid.Pos", ...)
        self._index(self.tree.body, "", toplevel=True)

    def _index(self, body, prefix, toplevel=False, in_class=False):
        for node in body:
            if isinstance(node, (ast.FunctionDef, ast.AsyncFunctionDef)):
                qn = prefix + node.name
                self.functions[qn] = node
                self._index(node.body, qn + ".<locals>.")
            elif isinstance(node, ast.ClassDef):
                if toplevel:
                    self.classes[node.name] = node
                self._index(node.body, prefix + node.name + ".", in_class=True)
            elif toplevel and isinstance(node, ast.Assign):
                for t in node.targets:
                    if isinstance(t, ast.Name):
                        self.assigns[t.id] = node.value
            elif toplevel and isinstance(node, (ast.Import, ast.ImportFrom)):
                self._index_import(node)
            elif toplevel and isinstance(node, ast.AugAssign) and isinstance(node.target, ast.Name):
                self.assigns.setdefault(node.target.id, node.value)
            elif isinstance(node, (ast.If, ast.Try, ast.With, ast.For, ast.While)):
                # nested defs inside compound statements (closures defined in branches)
                for fld in ("body", "orelse", "finalbody"):
                    sub = getattr(node, fld, None)
                    if sub:
                        self._index(sub, prefix, toplevel=toplevel and not isinstance(node, (ast.For, ast.While, ast.With)))
                if isinstance(node, ast.Try):
                    for h in node.handlers:
                        self._index(h.body, prefix, toplevel=toplevel)

    def _index_import(self, node):
        pkg = self.name.rsplit(".", 1)[0] if "." in self.name else self.name
        if isinstance(node, ast.Import):
            for a in node.names:
                self.imports[a.asname or a.name.split(".")[0]] = a.name if a.asname else a.name.split(".")[0]
        else:
            base = node.module or ""
            if node.level:
                parts = self.name.split(".")
                # level 1 = current package
                lvl = node.level - 1 if self.path.endswith("__init__.py") else node.level
                anchor = parts[: len(parts) - lvl]
                base = ".".join(anchor + ([base] if base else []))
            for a in node.names:
                self.imports[a.asname or a.name] = (base + "." + a.name) if base else a.name

    def local_imports(self, func_node):
        """Imports executed inside a function body (``from .par_util import x``)."""
        out = {}
        for node in ast.walk(func_node):
            if isinstance(node, (ast.Import, ast.ImportFrom)):
                saved = self.imports
                self.imports = {}
                self._index_import(node)
                out.update(self.imports)
                self.imports = saved
        return out


class Repo(object):
    def __init__(self, root):
        self.root = root
        self._mods = {}

    def module(self, name):
        if name not in self._mods:
            rel = name.replace(".", os.sep)
            cands = [os.path.join(self.root, rel + ".py"), os.path.join(self.root, rel, "__init__.py")]
            for p in cands:
                if os.path.exists(p):
                    self._mods[name] = Module(name, p)
                    break
            else:
                raise SourceError("module %s not found under %s" % (name, self.root))
        return self._mods[name]

    def attr_is_assigned(self, attr):
        """Does any statement of the package store to an attribute of that name (``x.attr = …``, ``x.attr += …``,
        ``setattr(x, "attr", …)``)?  Scans every module of the package once."""
        if not hasattr(self, "_assigned_attrs"):
            import glob
            names = set()
            pkg = os.path.join(self.root, "toasty")
            for path in glob.glob(os.path.join(pkg if os.path.isdir(pkg) else self.root, "**", "*.py"), recursive=True):
                if os.sep + "tests" + os.sep in path:
                    continue
                try:
                    tree = ast.parse(open(path).read())
                except SyntaxError:
                    continue
                for n in ast.walk(tree):
                    if isinstance(n, ast.Attribute) and isinstance(n.ctx, (ast.Store, ast.Del)):
                        names.add(n.attr)
                    elif (isinstance(n, ast.Call) and isinstance(n.func, ast.Name) and n.func.id == "setattr" and len(n.args) >= 2
                          and isinstance(n.args[1], ast.Constant) and isinstance(n.args[1].value, str)):
                        names.add(n.args[1].value)
            self._assigned_attrs = names
        return attr in self._assigned_attrs

    def split(self, qualname):
        """'toasty.pyramid.Pyramid.walk' -> (Module, 'Pyramid.walk')."""
        parts = qualname.split(".")
        for k in range(len(parts) - 1, 0, -1):
            mname = ".".join(parts[:k])
            try:
                m = self.module(mname)
            except SourceError:
                continue
            return m, ".".join(parts[k:])
        raise SourceError("cannot resolve %s" % qualname)

    def function(self, qualname):
        m, rest = self.split(qualname)
        if rest not in m.functions:
            raise SourceError("function %s not found in %s" % (rest, m.path))
        return m, m.functions[rest]

    def has_function(self, qualname):
        try:
            self.function(qualname)
            return True
        except SourceError:
            return False

    def sources_digest(self):
        return {m.name: m.sha for m in self._mods.values()}


def loop_shape(fn_node, lenient=()):
    """Loop skeleton of a function, the thing loop contracts are keyed on (by ordinal): for every loop in source order
    its kind, whether a ``while`` test is the constant True, whether it has an ``else``, and how many ``break`` /
    ``continue`` / ``return`` / ``yield`` statements belong to it directly (not to a nested loop or function).
    Two versions of a function with different skeletons need different proof scripts."""
    import ast as _ast
    out = []

    def own_counts(loop):
        cnt = {"break": 0, "continue": 0, "return": 0, "yield": 0}

        def walk(n, top):
            for ch in _ast.iter_child_nodes(n):
                if isinstance(ch, (_ast.FunctionDef, _ast.AsyncFunctionDef, _ast.Lambda, _ast.ClassDef)):
                    continue
                if isinstance(ch, (_ast.For, _ast.While)):
                    # returns/yields of nested loops still leave/extend this loop; breaks/continues do not
                    for g in _ast.walk(ch):
                        if isinstance(g, _ast.Return):
                            cnt["return"] += 1
                        elif isinstance(g, (_ast.Yield, _ast.YieldFrom)):
                            cnt["yield"] += 1
                    continue
                if isinstance(ch, _ast.Break):
                    cnt["break"] += 1
                elif isinstance(ch, _ast.Continue):
                    cnt["continue"] += 1
                elif isinstance(ch, _ast.Return):
                    cnt["return"] += 1
                elif isinstance(ch, (_ast.Yield, _ast.YieldFrom)):
                    cnt["yield"] += 1
                walk(ch, False)
        walk(loop, True)
        return cnt

    loops_in_order = []

    def collect(n):
        for ch in _ast.iter_child_nodes(n):
            if isinstance(ch, (_ast.FunctionDef, _ast.AsyncFunctionDef, _ast.Lambda, _ast.ClassDef)) and ch is not fn_node:
                continue
            if isinstance(ch, (_ast.For, _ast.While)):
                loops_in_order.append(ch)
            collect(ch)
    collect(fn_node)
    loops_in_order.sort(key=lambda n: (n.lineno, n.col_offset))
    ordinal = {id(n): k for k, n in enumerate(loops_in_order)}

    def visit(n):
        for ch in _ast.iter_child_nodes(n):
            if isinstance(ch, (_ast.FunctionDef, _ast.AsyncFunctionDef, _ast.Lambda, _ast.ClassDef)) and ch is not fn_node:
                continue
            if isinstance(ch, (_ast.For, _ast.While)) and ordinal.get(id(ch)) in lenient:
                # a loop summarised per arbitrary element (no inductive invariant): its contract does not depend on
                # where the body continues, only on the loop being there
                out.append("for(any-element)" if isinstance(ch, _ast.For) else "while(any-element)")
                visit(ch)
                continue
            if isinstance(ch, _ast.While):
                c = own_counts(ch)
                const_true = isinstance(ch.test, _ast.Constant) and ch.test.value is True
                out.append("while%s%s b%d c%d r%d y%d" % ("(True)" if const_true else "(cond)", "+else" if ch.orelse else "",
                                                          c["break"], c["continue"], c["return"], c["yield"]))
            elif isinstance(ch, _ast.For):
                c = own_counts(ch)
                out.append("for%s b%d c%d r%d y%d" % ("+else" if ch.orelse else "", c["break"], c["continue"], c["return"], c["yield"]))
            visit(ch)
    visit(fn_node)
    return "; ".join(out)
