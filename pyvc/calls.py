"""Call evaluation: spec special forms, builtins, methods, modular use of contracts, inlining."""
import ast
import string

import z3

from . import ops
from .core import (OutOfSubset, PathEnd, ReturnEx, BreakEx, ContinueEx, PyRaise, is_z3, z3num, z3bool, fresh_name)
from .interp import Env, Frame, GenVal, RangeVal, PySet, parse_expr
from .values import (NTuple, RECORD_TYPES, EnumVal, SliceVal, FuncVal, BoundMethod, Ext, Opaque, Poison, Inst,
                     PyList, PyDict, SymSeq, StrSeq, Tok)
from .ops import OptionalVal, simp
from .types import fresh_of_type, StrId

EXC_NAMES = {"Exception", "ValueError", "KeyError", "IndexError", "TypeError", "AttributeError", "StopIteration",
             "NotImplementedError", "OSError", "IOError", "FileNotFoundError", "AssertionError", "ZeroDivisionError",
             "RuntimeError"}



TRANSPARENT_DECORATORS = {"property", "staticmethod", "classmethod", "contextmanager", "abstractmethod", "abstractclassmethod",
                          "abstractstaticmethod"}


def check_decorators(node, qualname):
    """A decorator replaces the function by whatever it returns: only the ones whose meaning the engine implements are
    accepted; any other makes the function's behaviour unknown (out of subset), for a call and for verification alike."""
    for d in getattr(node, "decorator_list", []):
        if isinstance(d, ast.Name) and d.id in TRANSPARENT_DECORATORS:
            continue
        if isinstance(d, ast.Attribute) and d.attr in ("setter", "getter", "deleter"):
            continue
        raise OutOfSubset("%s is wrapped by the decorator %s, which may change its behaviour" % (qualname, ast.unparse(d)))

class CMCall(object):
    """A call to a ``@contextmanager`` generator function of the repo, entered by ``with``."""

    def __init__(self, fv, args, kwargs):
        self.fv, self.args, self.kwargs = fv, args, kwargs

    def run(self, interp, run_body):
        interp.call_function(self.fv, self.args, self.kwargs, force_inline=True, cm_body=run_body)


def eval_call(interp, node, env):
    fn = node.func
    # ---- spec special forms (evaluated lazily) ----
    if isinstance(fn, ast.Name) and interp.spec_mode and not env.has(fn.id):
        name = fn.id
        if name in ("forall", "exists"):
            return quantifier(interp, name, node, env)
        if name == "all_k":
            lo, hi = interp.eval(node.args[0], env), interp.eval(node.args[1], env)
            lam = node.args[2]
            out = []
            for kk in range(lo, hi):
                e2 = Env(parent=env)
                e2.set(lam.args.args[0].arg, kk)
                out.append(ops.truth(interp, interp.eval(lam.body, e2)))
            return ops.conj(out)
        if name == "forall_pix":
            # goal-only universal statement over the (row, column) positions of an array/image:
            # proved by skolemisation (fresh indices assumed in range); never usable as a hypothesis
            if not getattr(interp, "goal_mode", False):
                raise OutOfSubset("forall_pix used outside a proof goal")
            target = interp.eval(node.args[0], env)
            lam = node.args[1]
            arr = target.fields["_array"] if hasattr(target, "fields") else target
            r, c = z3.Int(fresh_name("row")), z3.Int(fresh_name("col"))
            interp.path.assume(z3.And(r >= 0, r < z3num(arr.shape[0]), c >= 0, c < z3num(arr.shape[1])))
            e2 = Env(parent=env)
            e2.set(lam.args.args[0].arg, r)
            e2.set(lam.args.args[1].arg, c)
            return ops.truth(interp, interp.eval(lam.body, e2))
        if name == "implies":
            a = ops.truth(interp, interp.eval(node.args[0], env))
            if a is False:
                return True
            b = ops.truth(interp, interp.eval(node.args[1], env))
            return ops.implies(a, b)
        if name == "iff":
            a, b = [ops.truth(interp, interp.eval(x, env)) for x in node.args]
            if isinstance(a, bool) and isinstance(b, bool):
                return a == b
            return simp(z3bool(a) == z3bool(b))
        if name == "ite":
            c, a, b = [interp.eval(x, env) for x in node.args]
            return ops.ite(ops.truth(interp, c), a, b)
        if name == "old":
            oe = interp.old_env
            if oe is None:
                # in a loop invariant / assertion of the function under verification: the entry state
                fr_ = interp.frame
                oe = getattr(fr_, "entry_env", None) if (fr_ is not None and fr_.verifying) else None
            if oe is None:
                raise OutOfSubset("old() outside a postcondition")
            saved, interp.old_env = interp.old_env, None
            try:
                return interp.eval(node.args[0], oe)
            finally:
                interp.old_env = saved
        if name == "at_loop_entry":
            # in a loop invariant: the value an expression had when the (innermost cut) loop was first reached
            le = getattr(interp.frame, "loop_entry_env", None) if interp.frame is not None else None
            if le is None:
                raise OutOfSubset("at_loop_entry() outside a cut loop")
            return interp.eval(node.args[0], le)
        if name in interp.registry.spec_funcs:
            args = [interp.eval(a, env) for a in node.args]
            return interp.registry.spec_funcs[name](interp, *args)
    fv = interp.eval(fn, env)
    args = []
    for a in node.args:
        if isinstance(a, ast.Starred):
            args.extend(interp.iter_concrete(interp.eval(a.value, env)))
        else:
            args.append(interp.eval(a, env))
    kwargs = {}
    for kw in node.keywords:
        if kw.arg is None:
            d = interp.eval(kw.value, env)
            if isinstance(d, PyDict):
                kwargs.update(d.items)
            else:
                raise OutOfSubset("** of %r" % (d,))
        else:
            kwargs[kw.arg] = interp.eval(kw.value, env)
    return interp.call_value(fv, args, kwargs, node)


def quantifier(interp, kind, node, env):
    lam = node.args[0]
    if not isinstance(lam, ast.Lambda):
        raise OutOfSubset("%s expects a lambda" % kind)
    names = [a.arg for a in lam.args.args]
    sorts = {}
    for kw in node.keywords:
        if kw.arg == "real":
            sorts = {n: "real" for n in interp.eval(kw.value, env)}
    vars_ = [z3.Real(fresh_name(n)) if sorts.get(n) == "real" else z3.Int(fresh_name(n)) for n in names]
    e2 = Env(parent=env)
    for n, v in zip(names, vars_):
        e2.set(n, v)
    body = ops.truth(interp, interp.eval(lam.body, e2))
    if isinstance(body, bool):
        return body
    pats = []
    for kw in node.keywords:
        if kw.arg == "trigger":
            tl = kw.value
            if isinstance(tl, ast.Lambda):
                tv = interp.eval(tl.body, e2)
                tv = list(tv) if isinstance(tv, tuple) else [tv]
                tv = [t for t in tv if is_z3(t)]
                if tv and all(_good_trigger(t, vars_) for t in tv):
                    pats = [z3.MultiPattern(*tv) if len(tv) > 1 else tv[0]]
    q = z3.ForAll if kind == "forall" else z3.Exists
    if pats:
        try:
            return q(vars_, body, patterns=pats)
        except z3.Z3Exception:
            pass
    return q(vars_, body)


def _good_trigger(t, vars_):
    """No if-then-else inside, mentions a bound variable, is an uninterpreted application."""
    ids = set(v.get_id() for v in vars_)
    has_var = False
    stack = [t]
    while stack:
        x = stack.pop()
        if x.get_id() in ids:
            has_var = True
        if z3.is_app(x):
            if x.decl().kind() == z3.Z3_OP_ITE:
                return False
            stack.extend(x.children())
    return has_var and z3.is_app(t) and t.decl().kind() == z3.Z3_OP_UNINTERPRETED and t.num_args() > 0


class CallMixin(object):
    # ------------------------------------------------------------------ dispatch
    def call_value(self, fv, args, kwargs, node=None):
        if isinstance(fv, FuncVal):
            return self.call_function(fv, args, kwargs)
        if isinstance(fv, BoundMethod):
            return self.call_method(fv, args, kwargs)
        if isinstance(fv, Ext):
            return self.call_ext(fv, args, kwargs)
        if isinstance(fv, Opaque):
            return self.call_opaque(fv, "__call__", args, kwargs)
        raise OutOfSubset("call of %r" % (fv,))

    def call_opaque(self, obj, method, args, kwargs):
        if self.externals is not None:
            r = self.externals.opaque_call(self, obj, method, args, kwargs)
            if r is not NotImplemented:
                return r
        raise OutOfSubset("call of %s on opaque %s" % (method, obj.kind))

    # ------------------------------------------------------------------ parameters
    def bind_params(self, fnode, module, args, kwargs, closure):
        a = fnode.args
        env = Env(parent=closure, module=module)
        params = [p.arg for p in a.posonlyargs + a.args]
        defaults = [None] * (len(params) - len(a.defaults)) + list(a.defaults)
        args = list(args)
        kwargs = dict(kwargs)
        for k, p in enumerate(params):
            if k < len(args):
                env.set(p, args[k])
                if p in kwargs:
                    raise PyRaise("TypeError", origin="multiple values for %s" % p)
            elif p in kwargs:
                env.set(p, kwargs.pop(p))
            elif defaults[k] is not None:
                env.set(p, self.eval(defaults[k], Env(module=module)))
            else:
                raise PyRaise("TypeError", origin="missing argument %s" % p)
        extra = args[len(params):]
        if a.vararg is not None:
            env.set(a.vararg.arg, tuple(extra))
        elif extra:
            raise PyRaise("TypeError", origin="too many positional arguments")
        for p, d in zip(a.kwonlyargs, a.kw_defaults):
            if p.arg in kwargs:
                env.set(p.arg, kwargs.pop(p.arg))
            elif d is not None:
                env.set(p.arg, self.eval(d, Env(module=module)))
            else:
                raise PyRaise("TypeError", origin="missing keyword argument %s" % p.arg)
        if a.kwarg is not None:
            env.set(a.kwarg.arg, PyDict(kwargs))
        elif kwargs:
            raise PyRaise("TypeError", origin="unexpected keyword arguments %s" % sorted(kwargs))
        return env

    # ------------------------------------------------------------------ repo functions
    def call_function(self, fv, args, kwargs, force_inline=False, cm_body=None):
        node = fv.node
        if isinstance(node, ast.Lambda):
            env = self.bind_params(node, fv.module, args, kwargs, fv.closure)
            return self.eval(node.body, env)
        decos = [d.id for d in node.decorator_list if isinstance(d, ast.Name)]
        check_decorators(node, fv.qualname)
        if "contextmanager" in decos and cm_body is None:
            return CMCall(fv, args, kwargs)
        c = self.registry.get(fv.qualname)
        is_local = "<locals>" in fv.qualname
        if c is not None and not c.inline_ and not force_inline:
            return self.apply_contract(c, fv, args, kwargs)
        if c is None and not is_local and not force_inline:
            # a repository helper without a contract (e.g. extracted by a refactoring): its real body is
            # executed in place, which is sound; it is listed in the evidence
            self.note_assumption("inlined (no contract of its own): %s" % fv.qualname)
        return self.inline_call(fv, args, kwargs, c, cm_body)

    def inline_call(self, fv, args, kwargs, c=None, cm_body=None):
        node = fv.node
        env = self.bind_params(node, fv.module, args, kwargs, fv.closure)
        if self.call_depth > 40:
            raise OutOfSubset("inline recursion too deep")
        fr = Frame(fv.qualname, fv.module, node, c, verifying=False)
        fr.entry_env = env
        fr.cm_body = cm_body
        self.frames.append(fr)
        self.call_depth += 1
        try:
            try:
                self.exec_block(node.body, env)
                result = None
            except ReturnEx as r:
                result = r.value
        finally:
            self.frames.pop()
            self.call_depth -= 1
        if fr.ytrace is not None and cm_body is None:
            # an inlined generator: its trace is the value
            if all(k == "item" for k, _ in fr.ytrace.segs):
                return PyList([v for _, v in fr.ytrace.segs])
            return GenVal(c, env, fr.ytrace.as_symseq(self))
        return result

    def apply_contract(self, c, fv, args, kwargs):
        env = self.bind_params(fv.node, fv.module, args, kwargs, fv.closure)
        callee = fv.qualname
        short = callee.split(".", 1)[1] if callee.startswith("toasty.") else callee
        for name, expr in c.requires_:
            self.path.oblige(self.oblname("call:%s/%s" % (short, name)), self.spec(expr, env), kind="precondition")
        if c.trusted_:
            self.note_assumption("assumed contract of %s" % callee)
        # every contract used at a call site is reported: the runner verifies it in the same run if it can be
        # verified (closure over callees), otherwise it is listed as assumed
        self.note_assumption("uses contract of %s" % callee)
        # termination of recursion
        cur = self.frame
        if cur is not None and cur.verifying and getattr(cur, "fullname", None) == callee and c.decreases_:
            m_callee = z3num(self.spec_value(c.decreases_, env))
            m_caller = z3num(self.spec_value(c.decreases_, cur.entry_env))
            self.path.oblige(self.oblname("decreases"), z3.And(m_callee >= 0, m_callee < m_caller), kind="decreases")
        elif cur is not None and cur.verifying and getattr(cur, "fullname", None) == callee:
            raise OutOfSubset("recursive call without a decreases clause")
        from .verify import snapshot as _snap
        _memo = {}
        self.path.event("call", callee, {k_: _snap(v_, _memo) for k_, v_ in env.vars.items()})
        for etype, when in c.raises_:
            w = self.spec(when, env)
            if self.path.choose(w if isinstance(w, bool) else z3bool(w)):
                self.path.event("call_raised", callee, etype)
                raise PyRaise(etype, origin="raised by %s (contract)" % callee)
        for etype, _note in c.may_raise_:
            if self.path.nondet("may_raise"):
                self.path.event("call_raised", callee, etype)
                raise PyRaise(etype.lstrip("="), origin="may be raised by %s (contract)" % callee)
        if c.init_fields_ is not None and env.has("self") and isinstance(env.lookup("self"), Inst):
            inst = env.lookup("self")
            for fld, t in c.init_fields_.items():
                inst.fields[fld] = fresh_of_type(self, t, "new.%s" % fld)
        if c.yields_type_ is not None:
            return self.contract_generator(c, env, callee)
        if c.model_ is not None:
            result = c.model_(self, env)
            if callee.endswith("PyramidIO.read_image"):
                if not hasattr(self.path, "read_results"):
                    self.path.read_results = []
                self.path.read_results.append(_snap(result, {}))    # as read, before the caller modifies it
            return result
        result = None
        if c.returns_ is not None:
            result = fresh_of_type(self, c.returns_, "ret_" + short.split(".")[-1])
            if callee.endswith("_get_min_max_of_children"):
                self.path.minmax_result = result
            if callee.endswith("PyramidIO.read_image"):
                if not hasattr(self.path, "read_results"):
                    self.path.read_results = []
                self.path.read_results.append(result)
        saved_old = self.old_env
        self.old_env = env
        try:
            for name, expr, _opts in c.ensures_:
                self.path.assume(self.spec(expr, env, extra={"result": result}), tag=name)
        finally:
            self.old_env = saved_old
        return result

    def contract_generator(self, c, env, callee):
        from .types import fresh_seq
        seq = fresh_seq(self, c.yields_type_, "Y_" + callee.split(".")[-1])
        k = z3.Int(fresh_name("k"))
        item = seq.at(k)
        for name, expr in c.yields_each_:
            body = self.spec(expr, env, extra={"item": item})
            if isinstance(body, bool):
                if not body:
                    self.path.assume(seq.length == 0)
                continue
            trig = getattr(seq, "funcs", None)
            pat = [trig[0](k)] if trig else None
            q = z3.ForAll([k], z3.Implies(z3.And(k >= 0, k < seq.length), body), patterns=pat) if pat else \
                z3.ForAll([k], z3.Implies(z3.And(k >= 0, k < seq.length), body))
            self.path.assume(q, tag=name)
        for name, expr in c.yields_seq_:
            self.path.assume(self.spec(expr, env, extra={"Y": seq}), tag=name)
        return GenVal(c, env, seq)

    # ------------------------------------------------------------------ methods
    def call_method(self, bm, args, kwargs):
        recv, name = bm.recv, bm.name
        if getattr(bm, "func", None) is not None:
            if isinstance(recv, Ext) and recv.name.startswith("class:"):
                return self.call_function(bm.func, [recv] + list(args), kwargs)
            return self.call_function(bm.func, [recv] + list(args), kwargs)
        if isinstance(recv, PyList):
            return self.list_method(recv, name, args, kwargs)
        if isinstance(recv, PyDict):
            return self.dict_method(recv, name, args, kwargs)
        if isinstance(recv, PySet):
            if name == "add":
                recv.items.append(args[0])
                return None
        if isinstance(recv, (str, StrSeq)):
            return self.str_method(recv, name, args, kwargs)
        if isinstance(recv, Opaque):
            return self.call_opaque(recv, name, args, kwargs)
        if isinstance(recv, NTuple) and name == "_replace":
            vals = list(recv.vals)
            for k, v in kwargs.items():
                vals[recv.names.index(k)] = v
            return NTuple(recv.tname, recv.names, vals)
        if self.externals is not None:
            r = self.externals.method(self, recv, name, args, kwargs)
            if r is not NotImplemented:
                return r
        raise OutOfSubset("method %s of %r" % (name, recv))

    def list_method(self, lst, name, args, kwargs):
        if name == "append":
            lst.items.append(args[0])
            return None
        if name == "extend":
            lst.items.extend(self.iter_concrete(args[0]))
            return None
        if name == "pop":
            if not lst.items:
                raise PyRaise("IndexError", origin="pop from empty list")
            if args:
                i = args[0]
                if not isinstance(i, int):
                    raise OutOfSubset("pop with symbolic index")
                return lst.items.pop(i)
            return lst.items.pop()
        if name == "index":
            x = args[0]
            for k, it in enumerate(lst.items):
                e = ops.equals(self, it, x)
                if self.path.choose(e if isinstance(e, bool) else z3bool(e)):
                    return k
            raise PyRaise("ValueError", origin="list.index: not in list")
        if name == "insert":
            lst.items.insert(args[0], args[1])
            return None
        if name == "copy":
            return PyList(lst.items)
        raise OutOfSubset("list method %s" % name)

    def dict_method(self, d, name, args, kwargs):
        if name == "get":
            k = self.hashable(args[0])
            return d.items.get(k, args[1] if len(args) > 1 else None)
        if name == "pop":
            k = self.hashable(args[0])
            if k in d.items:
                return d.items.pop(k)
            if len(args) > 1:
                return args[1]
            raise PyRaise("KeyError", (k,), origin="dict.pop of missing key")
        if name == "setdefault":
            k = self.hashable(args[0])
            if k not in d.items:
                d.items[k] = args[1] if len(args) > 1 else None
            return d.items[k]
        if name == "items":
            return PyList([(k, v) for k, v in d.items.items()])
        if name == "keys":
            return PyList(list(d.items.keys()))
        if name == "values":
            return PyList(list(d.items.values()))
        if name == "update":
            if args and isinstance(args[0], PyDict):
                d.items.update(args[0].items)
            d.items.update(kwargs)
            return None
        if name == "copy":
            return PyDict(d.items)
        raise OutOfSubset("dict method %s" % name)

    def str_method(self, s, name, args, kwargs):
        if name == "format":
            lit = s if isinstance(s, str) else (s.literal() if s.is_literal() else None)
            if lit is None:
                raise OutOfSubset("format on symbolic template")
            parts, auto = [], 0
            for text, field, spec_, conv in string.Formatter().parse(lit):
                parts.append(text)
                if field is None:
                    continue
                if spec_ or conv:
                    if conv == "r" and not spec_:
                        pass
                    else:
                        raise OutOfSubset("format spec")
                if field == "":
                    v = args[auto]
                    auto += 1
                elif field.isdigit():
                    v = args[int(field)]
                elif field in kwargs:
                    v = kwargs[field]
                else:
                    raise OutOfSubset("format field %r" % field)
                parts.append(self.to_str(v))
            return self.mk_str(parts)
        if isinstance(s, str):
            if all(isinstance(a, (str, int, tuple)) or a is None for a in args):
                if name in ("split", "startswith", "endswith", "lower", "upper", "strip", "rfind", "find", "replace",
                            "join", "isdigit"):
                    if name == "join":
                        items = self.iter_concrete(args[0])
                        if all(isinstance(i, str) for i in items):
                            return s.join(items)
                        out = []
                        for k, it in enumerate(items):
                            if k:
                                out.append(s)
                            out.append(self.to_str(it))
                        return self.mk_str(out)
                    r = getattr(s, name)(*args)
                    return PyList(r) if isinstance(r, list) else r
            if name == "join":
                items = self.iter_concrete(args[0])
                out = []
                for k, it in enumerate(items):
                    if k:
                        out.append(s)
                    out.append(self.to_str(it))
                return self.mk_str(out)
        if self.externals is not None:
            r = self.externals.str_method(self, s, name, args, kwargs)
            if r is not NotImplemented:
                return r
        raise OutOfSubset("string method %s on %r" % (name, s))

    # ------------------------------------------------------------------ Ext (builtins, records, classes, libraries)
    def call_ext(self, fv, args, kwargs):
        name = fv.name
        if name.startswith("record:"):
            t = name[7:]
            names = RECORD_TYPES[t]
            vals = list(args) + [None] * (len(names) - len(args))
            for k, v in kwargs.items():
                vals[names.index(k)] = v
            return NTuple(t, names, vals)
        if name.startswith("class:"):
            return self.construct(fv, args, kwargs)
        if name.startswith("builtin:"):
            return self.call_builtin(name[8:], args, kwargs)
        if self.externals is not None:
            r = self.externals.call(self, name, args, kwargs)
            if r is not NotImplemented:
                return r
        raise OutOfSubset("call to external %s (no model)" % name)

    def construct(self, ext, args, kwargs):
        dotted = ext.name[len("class:"):]
        mname, cname = dotted.rsplit(".", 1)
        m = self.repo.module(mname)
        cls = m.classes[cname]
        if any(isinstance(b, ast.Name) and b.id == "Enum" for b in cls.bases):
            # Enum lookup by value: ImageMode("RGB")
            for node in cls.body:
                if isinstance(node, ast.Assign) and isinstance(node.targets[0], ast.Name):
                    v = self.eval(node.value, Env(module=m))
                    if ops.equals(self, v, args[0]) is True:
                        return EnumVal(cname, node.targets[0].id, v)
            raise PyRaise("ValueError", origin="not a valid %s" % cname)
        inst = Inst(cname, module=mname)
        inst.constructed = True       # built on this path: fields never assigned hold the class-level defaults
        init = None
        c = cls
        while init is None and c is not None:
            for node in c.body:
                if isinstance(node, ast.FunctionDef) and node.name == "__init__":
                    init = (node, c)
            nxt = None
            for b in c.bases:
                if isinstance(b, ast.Name) and b.id in m.classes:
                    nxt = m.classes[b.id]
            c = nxt if init is None else c
        if init is None:
            return inst
        node, owner = init
        qn = "%s.%s.__init__" % (mname, owner.name)
        fv = FuncVal(node, Env(module=m), m, qn)
        self.call_function(fv, [inst] + list(args), kwargs)
        return inst

    def call_builtin(self, name, args, kwargs):
        if name in ("max", "min"):
            items = list(args)
            if len(items) == 1:
                items = self.iter_concrete(items[0])
            if not items:
                raise PyRaise("ValueError", origin="%s() of empty sequence" % name)
            # optional values that reached a min()/max() were tested 'is not None' by the code
            items = [it.value if isinstance(it, OptionalVal) else it for it in items]
            res = items[0]
            for x in items[1:]:
                c = ops.compare(self, ">" if name == "max" else "<", x, res)
                res = ops.ite(c, x, res)
            return res
        if name == "abs":
            x = args[0]
            if ops.concrete_num(x):
                return abs(x)
            return simp(z3.If(z3num(x) >= 0, z3num(x), -z3num(x)))
        if name == "int":
            x = args[0]
            if isinstance(x, bool):
                return int(x)
            if isinstance(x, int):
                return x
            if ops.concrete_num(x):
                return int(x)
            if is_z3(x):
                if z3.is_int(x):
                    return x
                if z3.is_real(x):
                    return simp(z3.If(x >= 0, z3.ToInt(x), -z3.ToInt(-x)))
                if z3.is_bool(x):
                    return z3.If(x, 1, 0)
            if isinstance(x, (str, StrSeq)):
                return self.parse_int(x)
            if self.externals is not None:
                r = self.externals.to_int(self, x)
                if r is not NotImplemented:
                    return r
            raise OutOfSubset("int() of %r" % (x,))
        if name == "float":
            x = args[0]
            if ops.concrete_num(x):
                import fractions
                return fractions.Fraction(x)
            if is_z3(x):
                return z3.ToReal(x) if z3.is_int(x) else x
            if isinstance(x, (str, StrSeq)) and self.externals is not None:
                r = self.externals.parse_float(self, x)
                if r is not NotImplemented:
                    return r
            raise OutOfSubset("float() of %r" % (x,))
        if name == "bool":
            return ops.truth(self, args[0])
        if name == "len":
            x = args[0]
            if isinstance(x, (tuple, str)):
                return len(x)
            if isinstance(x, NTuple):
                return len(x.vals)
            if isinstance(x, (PyList, PySet)):
                return len(x.items)
            if isinstance(x, PyDict):
                return len(x.items)
            if isinstance(x, SymSeq):
                return x.length
            if isinstance(x, GenVal):
                return x.seq.length
            if self.externals is not None:
                r = self.externals.length(self, x)
                if r is not NotImplemented:
                    return r
            raise OutOfSubset("len() of %r" % (x,))
        if name == "range":
            if len(args) == 1:
                return RangeVal(0, args[0], 1)
            if len(args) == 2:
                return RangeVal(args[0], args[1], 1)
            return RangeVal(*args)
        if name == "isinstance":
            return self.isinstance_(args[0], args[1])
        if name == "str":
            return self.to_str(args[0])
        if name == "repr":
            return self.to_str(args[0])
        if name in ("list", "tuple"):
            if not args:
                return PyList([]) if name == "list" else ()
            x = args[0]
            if isinstance(x, (SymSeq,)) :
                return x
            if isinstance(x, GenVal):
                return x.seq
            if self.externals is not None:
                r = self.externals.listify(self, x, name)
                if r is not NotImplemented:
                    return r
            items = self.iter_concrete(x)
            return PyList(items) if name == "list" else tuple(items)
        if name == "set":
            return PySet(self.iter_concrete(args[0]) if args else [])
        if name == "dict":
            d = PyDict()
            d.items.update(kwargs)
            return d
        if name == "enumerate":
            x = args[0]
            if self.externals is not None:
                for plug in self.externals.plugins:
                    hook = getattr(plug, "enumerate_hook", None)
                    r = hook(self, x) if hook else None
                    if r is not None:
                        return r
            if isinstance(x, (SymSeq, GenVal)):
                seq = x.seq if isinstance(x, GenVal) else x
                return SymSeq(seq.length, lambda k, s=seq: (k, s.at(k)), "enumerate")
            items = self.iter_concrete(x)
            start = args[1] if len(args) > 1 else 0
            return PyList([(start + k, v) for k, v in enumerate(items)])
        if name == "zip":
            if any(isinstance(a, Opaque) for a in args):
                z = Opaque("zip", fresh_name("zip"))
                z.attrs["_g_args"] = tuple(args)
                return z
            if any(isinstance(a, (SymSeq, GenVal)) for a in args):
                return self.sym_zip(args)
            lists = [self.iter_concrete(a) for a in args]
            return PyList([tuple(t) for t in zip(*lists)])
        if name == "hasattr":
            obj, attr = args
            if isinstance(obj, Inst):
                try:
                    self.getattr(obj, attr)
                    return True
                except PyRaise:
                    return False
            if self.externals is not None:
                r = self.externals.hasattr(self, obj, attr)
                if r is not NotImplemented:
                    return r
            raise OutOfSubset("hasattr on %r" % (obj,))
        if name == "print":
            self.note_dropped("print(...)")
            return None
        if name == "slice":
            a = list(args) + [None] * (3 - len(args))
            if len(args) == 1:
                return SliceVal(None, args[0], None)
            return SliceVal(a[0], a[1], a[2])
        if name == "sum":
            items = self.iter_concrete(args[0])
            tot = args[1] if len(args) > 1 else 0
            for x in items:
                tot = self.binop("+", tot, x)
            return tot
        if name in ("any", "all"):
            items = [ops.truth(self, x) for x in self.iter_concrete(args[0])]
            return ops.disj(items) if name == "any" else ops.conj(items)
        if name == "map":
            f = args[0]
            src = args[1].seq if isinstance(args[1], GenVal) else args[1]
            if hasattr(src, "freeze"):
                src = src.freeze()
            if isinstance(src, SymSeq):
                # element-wise image of a sequence of symbolic length: one application to an ARBITRARY element in
                # code mode (it may raise: then the mapping raises), then the mapped sequence evaluated lazily
                k = z3.Int(fresh_name("map_k"))
                self.path.assume(z3.And(k >= 0, k < z3num(src.length)))
                if self.path.nondet("map_applies_to_some_element"):
                    self.call_value(f, [src.at(k)], {})
                    raise PathEnd()      # did not raise: the other branch continues with the mapped sequence

                def at(j, src=src, f=f):
                    self.spec_mode += 1
                    try:
                        return self.call_value(f, [src.at(j)], {})
                    finally:
                        self.spec_mode -= 1
                return SymSeq(src.length, at, "map")
            return PyList([self.call_value(f, [x], {}) for x in self.iter_concrete(args[1])])
        if name == "type":
            return TypeOf(args[0])
        if name == "sorted" and len(args) == 1 and not kwargs:
            src = args[0].seq if isinstance(args[0], GenVal) else args[0]
            if hasattr(src, "freeze"):
                src = src.freeze()
            if isinstance(src, SymSeq):
                return self.sorted_permutation(src)
        if name == "sorted":
            items = self.iter_concrete(args[0])
            if all(isinstance(i, (int, str)) for i in items):
                return PyList(sorted(items))
            raise OutOfSubset("sorted on symbolic values")
        if name == "round":
            x = args[0]
            if is_z3(x) and z3.is_real(x):
                return round_half_even(x)
            if isinstance(x, int):
                return x
        if name == "open" and self.externals is not None:
            r = self.externals.call(self, "builtin.open", args, kwargs)
            if r is not NotImplemented:
                return r
        if name == "next" and self.externals is not None:
            r = self.externals.call(self, "builtin.next", args, kwargs)
            if r is not NotImplemented:
                return r
        if name in EXC_NAMES:
            return ExcValue(name, args)
        if name == "dict.fromkeys" and len(args) == 1:
            src = args[0].seq if isinstance(args[0], GenVal) else args[0]
            if isinstance(src, SymSeq):
                return self.ordered_dedup(src)
        raise OutOfSubset("builtin %s" % name)

    def sorted_permutation(self, src):
        """``sorted(seq)``: a PERMUTATION of seq (r[k] = seq[perm(k)], perm a bijection of the index range) that is
        ordered by an abstract total pre-order Le on the elements, and that is seq itself when seq is already strictly
        ordered.  (Over-approximation: which permutation is left open otherwise.)"""
        n = z3num(src.length)
        perm = z3.Function(fresh_name("sorted.perm"), z3.IntSort(), z3.IntSort())
        inv = z3.Function(fresh_name("sorted.inv"), z3.IntSort(), z3.IntSort())
        Lt = z3.Function(fresh_name("sorted.lt"), z3.IntSort(), z3.IntSort(), z3.BoolSort())   # strict order on source indices
        i, j = z3.Int(fresh_name("i")), z3.Int(fresh_name("j"))
        rng = lambda v: z3.And(0 <= v, v < n)
        self.path.assume(z3.ForAll([i], z3.Implies(rng(i), z3.And(rng(perm(i)), inv(perm(i)) == i)), patterns=[perm(i)]))
        self.path.assume(z3.ForAll([i], z3.Implies(rng(i), z3.And(rng(inv(i)), perm(inv(i)) == i)), patterns=[inv(i)]))
        self.path.assume(z3.ForAll([i, j], z3.Implies(z3.And(rng(i), rng(j), i < j), z3.Not(Lt(perm(j), perm(i)))),
                                   patterns=[z3.MultiPattern(perm(i), perm(j))]))
        already = z3.ForAll([i, j], z3.Implies(z3.And(rng(i), rng(j), i < j), Lt(i, j)))
        self.path.assume(z3.Implies(already, z3.ForAll([i], z3.Implies(rng(i), perm(i) == i), patterns=[perm(i)])))
        self.note_assumption("sorted(seq): a permutation of seq, equal to seq when seq is already strictly ordered")
        return SymSeq(src.length, lambda k, src=src, perm=perm: src.at(perm(z3num(k))), "sorted")

    def ordered_dedup(self, src):
        """``dict.fromkeys(seq)`` (insertion-ordered, first occurrence kept), as the key sequence: a SUBSEQUENCE
        r[k] = seq[idx(k)] with idx strictly increasing, idx(0) == 0, pairwise distinct elements, and equal to seq
        itself when seq has no repeated element.  (Over-approximation: how many repeats are dropped is left open.)"""
        from .core import fresh_name
        n = z3num(src.length)
        L = z3.Int(fresh_name("dedup.len"))
        idx = z3.Function(fresh_name("dedup.idx"), z3.IntSort(), z3.IntSort())
        i, j = z3.Int(fresh_name("i")), z3.Int(fresh_name("j"))
        self.path.assume(z3.And(L >= 0, L <= n, z3.Implies(n >= 1, z3.And(L >= 1, idx(0) == 0))))
        self.path.assume(z3.ForAll([i], z3.Implies(z3.And(0 <= i, i < L), z3.And(0 <= idx(i), idx(i) < n)), patterns=[idx(i)]))
        self.path.assume(z3.ForAll([i, j], z3.Implies(z3.And(0 <= i, i < j, j < L), idx(i) < idx(j)), patterns=[z3.MultiPattern(idx(i), idx(j))]))
        def same(a, b):
            try:
                ia, ib = ops.str_ident(a), ops.str_ident(b)
                if ia is not None and ib is not None:
                    return ia == ib
            except OutOfSubset:
                pass
            return ops.equals(self, a, b)
        ne = same(src.at(i), src.at(j))
        if not isinstance(ne, bool):
            all_distinct = z3.ForAll([i, j], z3.Implies(z3.And(0 <= i, i < j, j < n), z3.Not(ne)))
            self.path.assume(z3.Implies(all_distinct, z3.And(L == n, z3.ForAll([i], z3.Implies(z3.And(0 <= i, i < n), idx(i) == i), patterns=[idx(i)]))))
            ner = same(src.at(idx(i)), src.at(idx(j)))
            if not isinstance(ner, bool):
                self.path.assume(z3.ForAll([i, j], z3.Implies(z3.And(0 <= i, i < j, j < L), z3.Not(ner)), patterns=[z3.MultiPattern(idx(i), idx(j))]))
        self.note_assumption("dict.fromkeys(seq): ordered de-duplication, modelled as a subsequence that equals seq when seq has no repeats")
        return SymSeq(L, lambda k, src=src, idx=idx: src.at(idx(z3num(k))), "dedup")

    def sym_zip(self, args):
        seqs = []
        for a in args:
            if isinstance(a, GenVal):
                seqs.append(a.seq)
            elif isinstance(a, SymSeq):
                seqs.append(a)
            else:
                items = self.iter_concrete(a)
                seqs.append(SymSeq(len(items), (lambda k, a=a: self.getitem(a, k)), "zipitem"))
        length = seqs[0].length
        for s in seqs[1:]:
            length = ops.ite(ops.compare(self, "<", s.length, length), s.length, length)
        return SymSeq(length, lambda k: tuple(s.at(k) for s in seqs), "zip")

    def parse_int(self, s):
        if isinstance(s, str):
            try:
                return int(s)
            except ValueError:
                raise PyRaise("ValueError", origin="int() of %r" % s)
        if self.externals is not None:
            r = self.externals.parse_int(self, s)
            if r is not NotImplemented:
                return r
        raise OutOfSubset("int() of symbolic string")

    def isinstance_(self, v, cls):
        names = []
        for c in (cls if isinstance(cls, tuple) else (cls,)):
            if isinstance(c, Ext):
                names.append(c.name)
            else:
                raise OutOfSubset("isinstance against %r" % (c,))
        res = False
        for n in names:
            n = n.split(":")[-1]
            if n == "int":
                r = (isinstance(v, int)) or (is_z3(v) and z3.is_int(v)) or isinstance(v, bool) or (is_z3(v) and z3.is_bool(v))
            elif n == "str":
                r = isinstance(v, (str, StrSeq, StrId))
            elif n == "float":
                r = ops.is_real(v)
            elif n == "bool":
                r = isinstance(v, bool) or (is_z3(v) and z3.is_bool(v))
            elif n in ("list",):
                r = isinstance(v, (PyList, SymSeq))
            elif n == "tuple":
                r = isinstance(v, (tuple, NTuple))
            elif n == "dict":
                r = isinstance(v, PyDict)
            else:
                short = n.split(".")[-1]
                if isinstance(v, Inst):
                    r = self.inst_isinstance(v, short)
                elif isinstance(v, NTuple):
                    r = v.tname == short
                elif self.externals is not None:
                    r = self.externals.isinstance(self, v, n)
                    if r is NotImplemented:
                        raise OutOfSubset("isinstance(%r, %s)" % (v, n))
                else:
                    raise OutOfSubset("isinstance(%r, %s)" % (v, n))
            if isinstance(v, OptionalVal):
                raise OutOfSubset("isinstance on optional value")
            if isinstance(res, bool) and isinstance(r, bool):
                res = res or r
            else:
                res = ops.disj([res, r])
        return res

    def inst_isinstance(self, inst, cname):
        if inst.module is None:
            return inst.cls == cname        # plain record standing for an object of a foreign class
        m, cls = self.find_class(inst)
        while cls is not None:
            if cls.name == cname:
                return True
            nxt = None
            for b in cls.bases:
                if isinstance(b, ast.Name) and b.id in m.classes:
                    nxt = m.classes[b.id]
            cls = nxt
        return False


class ExcValue(object):
    def __init__(self, etype, args):
        self.etype, self.args = etype, args


class TypeOf(object):
    def __init__(self, v):
        self.v = v


def round_half_even(x):
    """np.round / round on a Real term: nearest integer, ties to even (as a Real-valued Int)."""
    f = z3.ToInt(x)
    frac = x - z3.ToReal(f)
    return z3.If(frac < z3.RealVal("1/2"), f,
                 z3.If(frac > z3.RealVal("1/2"), f + 1,
                       z3.If(f % 2 == 0, f, f + 1)))
