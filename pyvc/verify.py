"""Verify real functions against their sidecar contracts: generate VCs path by path,
discharge them, aggregate per clause."""
import ast
import time
import os
import traceback

import z3

from . import ops
from .core import (OutOfSubset, PathEnd, ReturnEx, BreakEx, ContinueEx, PyRaise, exc_isinstance, explore,
                   is_z3, z3bool, fresh_name, Obligation)
from .extract import SourceError
from .interp import Interp, Env, Frame, GenVal
from .stmts import StmtMixin
from .calls import CallMixin
from .types import fresh_of_type
from .values import Inst, PyList, PyDict, NTuple, Opaque
from . import smt


class Machine(Interp, StmtMixin, CallMixin):
    def __init__(self, repo, registry, externals=None):
        Interp.__init__(self, repo, registry, externals)
        self.exc_stack = []


def _assert_ordinal(self, node):
    if not hasattr(self, "_asserts"):
        nodes = [n for n in Frame._walk_own(self.node) if isinstance(n, ast.Assert)]
        nodes.sort(key=lambda n: (n.lineno, n.col_offset))
        self._asserts = {id(n): k for k, n in enumerate(nodes)}
    return self._asserts.get(id(node), 0)


Frame.assert_ordinal = _assert_ordinal
Frame.cm_body = None


def _do_yield(self, v):
    f = self.frame
    if getattr(f, "cm_body", None) is not None:
        body = f.cm_body
        pending = None
        try:
            body(v)
        except (ReturnEx, BreakEx, ContinueEx) as ex:
            pending = ex
        f.cm_pending = pending
        return
    return Interp.do_yield(self, v)


Machine.do_yield = _do_yield


def snapshot(v, memo=None):
    """Copy of the mutable part of a value graph (for old())."""
    memo = {} if memo is None else memo
    if id(v) in memo:
        return memo[id(v)]
    if isinstance(v, Inst):
        c = Inst(v.cls, module=v.module)
        if getattr(v, "constructed", False):
            c.constructed = True
        memo[id(v)] = c
        c.fields = {k: snapshot(x, memo) for k, x in v.fields.items()}
        return c
    if isinstance(v, PyList):
        c = PyList([])
        memo[id(v)] = c
        c.items = [snapshot(x, memo) for x in v.items]
        return c
    if isinstance(v, PyDict):
        c = PyDict()
        memo[id(v)] = c
        c.items = {k: snapshot(x, memo) for k, x in v.items.items()}
        return c
    if isinstance(v, Opaque) and any(hasattr(x, "snapshot") for x in v.attrs.values()):
        c = Opaque(v.kind, v.name)
        memo[id(v)] = c
        c.attrs = {k: snapshot(x, memo) for k, x in v.attrs.items()}
        return c
    if hasattr(v, "snapshot"):
        c = v.snapshot(memo)
        memo[id(v)] = c
        return c
    return v


class ClauseResult(object):
    def __init__(self, name):
        self.name = name
        self.status = None       # discharged | refuted | unknown
        self.vcs = 0
        self.backends = set()
        self.secs = 0.0
        self.model = None
        self.detail = None
        self.kind = None
        self.info = None

    def as_dict(self):
        return {"name": self.name, "status": self.status, "vcs": self.vcs, "backend": "+".join(sorted(self.backends)),
                "secs": round(self.secs, 3), "kind": self.kind}


class FunctionReport(object):
    def __init__(self, qualname):
        self.qualname = qualname
        self.status = "ok"        # ok | out_of_subset | missing | error
        self.reason = None
        self.paths = 0
        self.exit_paths = 0
        self.obligations = []     # raw Obligation objects
        self.reach = []           # reachability canaries (expected sat)
        self.assumptions = set()
        self.dropped = set()


class Verifier(object):
    def __init__(self, repo, registry, externals=None, timeout_ms=20000, slow_ms=60000, workers=None, cvc5=True):
        self.repo = repo
        self.registry = registry
        self.externals = externals
        self.timeout_ms = timeout_ms
        self.slow_ms = slow_ms
        self.workers = workers
        self.cvc5 = cvc5
        self.reports = {}

    # ------------------------------------------------------------------ VC generation
    def gen_function(self, qualname, case_range=None, shard=None):
        rep = FunctionReport(qualname)
        self.reports[qualname] = rep
        c = self.registry.get(qualname)
        if c is None:
            rep.status, rep.reason = "error", "no contract registered"
            return rep
        try:
            module, node = self.repo.function(qualname)
        except SourceError as e:
            rep.status, rep.reason = "missing", str(e)
            return rep
        cases = c.cases_ or [{}]
        if case_range is not None:
            cases = cases[case_range[0]:case_range[1]]
        try:
            from .calls import check_decorators
            check_decorators(node, qualname)
            for ci, case in enumerate(cases):
                m = Machine(self.repo, self.registry, self.externals)

                def run(path, m=m, case=case):
                    self._run_path(m, path, c, module, node, qualname, case, rep)

                paths = explore(run, shard=shard)
                if shard is not None and shard[0] == "frontier":
                    rep.pending = list(explore.pending)
                rep.paths += len(paths)
                for p in paths:
                    rep.obligations.extend(p.obligations)
                rep.assumptions |= m.assumptions_used
                rep.dropped |= m.dropped
        except OutOfSubset as e:
            rep.status, rep.reason = "out_of_subset", str(e)
            if os.environ.get("VERIF_DEBUG"):
                rep.reason += "\n" + traceback.format_exc(limit=-12)
        except RecursionError:
            rep.status, rep.reason = "out_of_subset", "recursion limit in the symbolic executor"
        except z3.Z3Exception as e:
            # a term of the wrong sort reached a typed model (e.g. an int stored where the code used to store a bool):
            # the code is outside what the models can express - undecided, never a verdict and not a checker crash
            rep.status, rep.reason = "out_of_subset", "ill-sorted term in a typed model: %s" % (str(e)[:200],)
            if os.environ.get("VERIF_DEBUG"):
                rep.reason += "\n" + traceback.format_exc(limit=-12)
        except Exception as e:   # engine bug: never a verdict
            rep.status, rep.reason = "error", "%s: %s\n%s" % (type(e).__name__, e, traceback.format_exc(limit=-10))
        return rep

    def make_args(self, m, c, node, module, case):
        env = Env(module=module)
        a = node.args
        params = [p.arg for p in a.posonlyargs + a.args + a.kwonlyargs]
        if a.vararg:
            params.append(a.vararg.arg)
        if a.kwarg:
            params.append(a.kwarg.arg)
        m._case = case
        custom = c.setup_(m, m.path) if c.setup_ else {}
        for p in params:
            if p in custom:
                env.set(p, custom[p])
            elif p in case:
                v = self._case_value(m, case[p], p)
                env.set(p, v)
            elif p == "self" and c.self_class is not None:
                inst = Inst(c.self_class, module=module.name)
                for fld, t in (c.self_fields or {}).items():
                    if fld in case:
                        inst.fields[fld] = self._case_value(m, case[fld], "self." + fld)
                    else:
                        inst.fields[fld] = fresh_of_type(m, t, "self." + fld)
                env.set("self", inst)
            elif p in c.arg_types:
                env.set(p, fresh_of_type(m, c.arg_types[p], p))
            else:
                # default value if the parameter has one, otherwise undeclared
                dflt = self._default_of(m, node, module, p)
                if dflt is NotImplemented:
                    raise OutOfSubset("parameter %s of %s has no declared type" % (p, c.qualname))
                env.set(p, dflt)
        for k, v in custom.items():
            if k not in env.vars:
                env.set(k, v)
        return env

    def _case_value(self, m, v, p):
        if isinstance(v, str) and v.startswith("type:"):
            return fresh_of_type(m, v[5:], p)
        if isinstance(v, tuple):
            return tuple(self._case_value(m, x, "%s.%d" % (p, k)) for k, x in enumerate(v))
        return v

    def _default_of(self, m, node, module, p):
        a = node.args
        pos = [x.arg for x in a.posonlyargs + a.args]
        if p in pos:
            k = pos.index(p) - (len(pos) - len(a.defaults))
            if k >= 0:
                return m.eval(a.defaults[k], Env(module=module))
        for x, d in zip(a.kwonlyargs, a.kw_defaults):
            if x.arg == p and d is not None:
                return m.eval(d, Env(module=module))
        if a.kwarg and a.kwarg.arg == p:
            return PyDict()
        if a.vararg and a.vararg.arg == p:
            return ()
        return NotImplemented

    def _run_path(self, m, path, c, module, node, qualname, case, rep):
        m.path = path
        m.frames = []
        m.exc_stack = []
        short = qualname.split(".", 1)[1] if qualname.startswith("toasty.") else qualname
        fr = Frame(short, module, node, c, verifying=True)
        fr.fullname = qualname
        m.frames.append(fr)
        env = self.make_args(m, c, node, module, case)
        fr.env = env
        fr.entry_env = Env(module=module)
        memo = {}
        fr.entry_env.vars = {k: snapshot(v, memo) for k, v in env.vars.items()}
        pre_env = Env(module=module)
        pre_env.vars = dict(env.vars)
        for name, expr in c.requires_:
            path.assume(m.spec(expr, pre_env))
        for name, expr in c.assumes_:
            path.assume(m.spec(expr, pre_env))
            m.note_assumption("assumed in %s: %s" % (short, expr))
        outcome, value, exc = "return", None, None
        try:
            try:
                m.exec_block(node.body, env)
            except ReturnEx as r:
                value = r.value
        except PyRaise as ex:
            outcome, exc = "raise", ex
        except PathEnd:
            # the path ended inside the body (arbitrary loop iteration checked): trace clauses still apply
            for hook in c.path_hooks_:
                hook(m, path, fr, env, "ended", None, None)
            raise
        for hook in c.path_hooks_:
            hook(m, path, fr, env, outcome, value, exc)
        rep.exit_paths += 1
        path.exit = (outcome, value, exc)
        path.final_env = env
        m.old_env = fr.entry_env
        try:
            self._exit_obligations(m, path, c, fr, env, outcome, value, exc)
            for hook in c.post_hooks_:
                hook(m, path, fr, env, outcome, value, exc)
        finally:
            m.old_env = None
        # reachability canary: this exit must be reachable
        rep.reach.append(Obligation(short + "/reach", path.pc, z3.BoolVal(False), kind="reach"))

    def _exit_obligations(self, m, path, c, fr, env, outcome, value, exc):
        # clauses are evaluated over the parameters' *current* bindings overlaid on entry values:
        # contracts talk about the arguments as passed (entry), so use the entry env for names
        spec_env = Env(module=fr.module)
        spec_env.vars = dict(fr.entry_env.vars)
        # mutable receivers/arguments: postconditions see the final state of objects
        for k, v in env.vars.items():
            if k in spec_env.vars and isinstance(v, (Inst, PyList, PyDict)) or (k in spec_env.vars and hasattr(v, "snapshot")):
                spec_env.vars[k] = v
        if outcome == "return":
            for etype, when in c.raises_:
                w = m.spec(when, fr.entry_env)
                path.oblige(m.oblname("raises/%s/not_missed" % etype), ops.negate(w), kind="raises", assume_after=False)
            if fr.ytrace is not None and not getattr(fr, "cm_body", None):
                extra = {"result": None}
                if c.yields_seq_:
                    dflt = (lambda: fresh_of_type(m, c.yields_type_, "nil")) if c.yields_type_ else None
                    extra["Y"] = fr.ytrace.as_symseq(m, default=dflt)
                for name, expr in c.yields_seq_:
                    path.oblige(m.oblname("yields_seq/" + name), m.spec(expr, spec_env, extra=extra), kind="ensures",
                                assume_after=False, uses=c.uses_.get(name))
            for name, expr, opts in c.ensures_:
                saved_pc = list(path.pc)
                m.goal_mode = True
                try:
                    g = m.spec(expr, spec_env, extra={"result": value})
                finally:
                    m.goal_mode = False
                path.oblige(m.oblname("ensures/" + name), g, kind="ensures", assume_after=False,
                            uses=opts.get("uses", c.uses_.get(name)))
                path.pc[:] = saved_pc
        else:
            whens = [m.spec(when, fr.entry_env) for etype, when in c.raises_ if exc_isinstance(exc.etype, etype)]
            allowed = any((exc.etype == et[1:]) if et.startswith("=") else exc_isinstance(exc.etype, et)
                          for et, _ in c.may_raise_)
            if whens:
                path.oblige(m.oblname("raises/%s/only_when" % exc.etype), ops.disj(whens), kind="raises",
                            info={"origin": exc.origin}, assume_after=False)
            elif not allowed:
                path.oblige(m.oblname("no_unexpected_raise/%s" % exc.etype), z3.BoolVal(False), kind="no_raise",
                            info={"origin": exc.origin}, assume_after=False)

    # ------------------------------------------------------------------ discharge
    def discharge(self, obligations, reach=(), slow=()):
        """Returns ({clause name: ClauseResult}, reach_status)"""
        jobs = []
        index = []
        for k, ob in enumerate(obligations):
            g = ob.goal
            if isinstance(g, bool):
                g = z3.BoolVal(g)
            if z3.is_true(z3.simplify(g)):
                index.append((ob, None))
                continue
            t = self.slow_ms if any(ob.name.startswith(s) or s in ob.name for s in slow) else self.timeout_ms
            jobs.append((k, smt.to_smt2(ob.hyps, g), t, self.cvc5))
            index.append((ob, k))
        rjobs = []
        for k, ob in enumerate(reach):
            from .core import _has_quantifier
            rjobs.append((("reach", k), smt.to_smt2([h for h in ob.hyps if not _has_quantifier(h)], ob.goal,
                                                    want_axioms=False, use_theories=False), 5000, False))
        res = smt.discharge(jobs + rjobs, workers=self.workers)
        clauses = {}
        for ob, k in index:
            cr = clauses.setdefault(ob.name, ClauseResult(ob.name))
            cr.kind = ob.kind
            cr.vcs += 1
            if k is None:
                st, be, sec, mod = "unsat", "simplifier", 0.0, None
            else:
                st, be, sec, mod = res[k]
            cr.backends.add(be)
            cr.secs += sec
            if st == "sat":
                if cr.status != "refuted":
                    cr.status = "refuted"
                    cr.model = mod
                    cr.info = ob.info
            elif st == "unsat":
                if cr.status is None:
                    cr.status = "discharged"
            else:
                if cr.status != "refuted":
                    cr.status = "unknown"
                    cr.detail = mod
        reach_ok = {}
        for k, ob in enumerate(reach):
            st = res[("reach", k)][0]
            fn = ob.name
            reach_ok[fn] = reach_ok.get(fn, False) or (st == "sat")
        return clauses, reach_ok
