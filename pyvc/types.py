"""Tiny type language of contracts -> fresh symbolic values.

  int | nat | real | bool | Pos | Tile | none | str | tok:<klass> | opaque:<kind>
  tuple[T1,T2,...] | list[T;N] | seq[T] | opt[T] | <registered name>

``nat`` is an Int with the fact ``>= 0`` assumed.  ``Pos`` is three Ints (no range facts:
those go into ``requires``).  ``seq[T]`` is a sequence of symbolic length (SymSeq) whose
elements are uninterpreted functions of the index.
"""
import z3

from .core import OutOfSubset, fresh_name
from .values import NTuple, Opaque, PyList, SymSeq, StrSeq, Tok, Inst, StrId
from .ops import OptionalVal

CUSTOM_TYPES = {}   # name -> callable(interp, name) -> value


def register_type(name, fn):
    CUSTOM_TYPES[name] = fn


def split_top(s, sep=","):
    out, depth, cur = [], 0, ""
    for ch in s:
        if ch in "[({":
            depth += 1
        elif ch in "])}":
            depth -= 1
        if ch == sep and depth == 0:
            out.append(cur.strip())
            cur = ""
        else:
            cur += ch
    if cur.strip():
        out.append(cur.strip())
    return out


def fresh_of_type(interp, t, name):
    t = t.strip()
    if t == "int":
        return z3.Int(fresh_name(name))
    if t == "nat":
        v = z3.Int(fresh_name(name))
        interp.path.assume(v >= 0)
        return v
    if t == "real":
        return z3.Real(fresh_name(name))
    if t == "bool":
        return z3.Bool(fresh_name(name))
    if t == "none":
        return None
    if t == "Pos":
        return NTuple("Pos", ("n", "x", "y"), [z3.Int(fresh_name("%s.%s" % (name, f))) for f in ("n", "x", "y")])
    if t.startswith("ndarray:"):
        # ndarray:<dtype>:<d0>x<d1>...  an array of concrete shape with arbitrary content
        from .ndarray import fresh_array
        _, dt, shp = t.split(":")
        return fresh_array(tuple(int(d) for d in shp.split("x")), dt, name, interp)
    if t == "str":
        return StrSeq([Tok(fresh_name(name), "any")])
    if t.startswith("tok:"):
        return StrSeq([Tok(fresh_name(name), t[4:])])
    if t.startswith("opaque:"):
        return Opaque(t[7:], fresh_name(name))
    if t.startswith("tuple[") and t.endswith("]"):
        parts = split_top(t[6:-1])
        return tuple(fresh_of_type(interp, p, "%s.%d" % (name, k)) for k, p in enumerate(parts))
    if t.startswith("list[") and t.endswith("]"):
        inner, n = split_top(t[5:-1], ";")
        return PyList([fresh_of_type(interp, inner, "%s.%d" % (name, k)) for k in range(int(n))])
    if t.startswith("opt[") and t.endswith("]"):
        inner = fresh_of_type(interp, t[4:-1], name)
        return OptionalVal(z3.Bool(fresh_name(name + ".present")), inner)
    if t.startswith("seq[") and t.endswith("]"):
        return fresh_seq(interp, t[4:-1], name)
    if t.startswith("inst:"):
        # inst:<module>.<Class>{field:type,...}
        head, _, rest = t[5:].partition("{")
        mod, _, cls = head.rpartition(".")
        inst = Inst(cls, module=mod)
        for part in split_top(rest.rstrip("}")):
            if part:
                f, _, ft = part.partition(":")
                inst.fields[f.strip()] = fresh_of_type(interp, ft.strip(), "%s.%s" % (name, f.strip()))
        return inst
    if t in CUSTOM_TYPES:
        return CUSTOM_TYPES[t](interp, name)
    raise OutOfSubset("unknown type %r in contract" % t)


CUSTOM_SEQ_TYPES = {}


def register_seq_type(name, fn):
    """fn(interp, base_name, k) -> element k of a fresh sequence of that element type"""
    CUSTOM_SEQ_TYPES[name] = fn


def fresh_seq(interp, elem_t, name):
    length = z3.Int(fresh_name(name + ".len"))
    interp.path.assume(length >= 0)
    base = fresh_name(name)
    if elem_t in CUSTOM_SEQ_TYPES:
        fn = CUSTOM_SEQ_TYPES[elem_t]
        return SymSeq(length, lambda k, fn=fn, base=base: fn(interp, base, z3k(k)), name)
    if elem_t in ("int", "nat"):
        f = z3.Function(base, z3.IntSort(), z3.IntSort())
        return SymSeq(length, lambda k, f=f: f(z3k(k)), name)
    if elem_t == "bool":
        f = z3.Function(base, z3.IntSort(), z3.BoolSort())
        return SymSeq(length, lambda k, f=f: f(z3k(k)), name)
    if elem_t == "real":
        f = z3.Function(base, z3.IntSort(), z3.RealSort())
        return SymSeq(length, lambda k, f=f: f(z3k(k)), name)
    if elem_t == "Pos":
        fs = [z3.Function("%s.%s" % (base, fld), z3.IntSort(), z3.IntSort()) for fld in ("n", "x", "y")]
        s = SymSeq(length, lambda k, fs=fs: NTuple("Pos", ("n", "x", "y"), [f(z3k(k)) for f in fs]), name)
        s.funcs = fs
        return s
    if elem_t.startswith("tuple[") and elem_t.endswith("]"):
        parts = split_top(elem_t[6:-1])
        comps = []
        for j, pt in enumerate(parts):
            if pt in ("int", "nat"):
                f = z3.Function("%s.%d" % (base, j), z3.IntSort(), z3.IntSort())
                comps.append(lambda k, f=f: f(z3k(k)))
            elif pt == "Pos":
                fs = [z3.Function("%s.%d.%s" % (base, j, fld), z3.IntSort(), z3.IntSort()) for fld in ("n", "x", "y")]
                comps.append(lambda k, fs=fs: NTuple("Pos", ("n", "x", "y"), [f(z3k(k)) for f in fs]))
                if j == 0:
                    first_fn = fs[0]
            elif pt == "bool":
                f = z3.Function("%s.%d" % (base, j), z3.IntSort(), z3.BoolSort())
                comps.append(lambda k, f=f: f(z3k(k)))
            elif pt == "none":
                comps.append(lambda k: None)
            else:
                raise OutOfSubset("sequence tuple component type %r" % pt)
        s = SymSeq(length, lambda k, comps=comps: tuple(c(k) for c in comps), name)
        trig = z3.Function("%s.trig" % base, z3.IntSort(), z3.IntSort())
        s.funcs = None
        return s
    if elem_t.startswith("tok:") or elem_t == "str":
        # element k is an opaque token indexed by k: modelled as an uninterpreted Int id
        f = z3.Function(base, z3.IntSort(), z3.IntSort())
        s = SymSeq(length, lambda k, f=f: StrId(f(z3k(k))), name)
        s.funcs = [f]
        return s
    raise OutOfSubset("sequence element type %r" % elem_t)


def z3k(k):
    if isinstance(k, int):
        return z3.IntVal(k)
    return k


