"""pyvc: a verification-condition generator over the real python source of /repo."""
