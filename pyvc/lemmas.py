"""Mathematical lemmas (independent of the code), stated directly over z3 terms and
re-checked by the solver on every run.  An induction lemma proves base and step and may then
be *used* (as a quantified or instantiated fact) by contracts that name it."""
import z3

from .core import Obligation
from .verify import FunctionReport


class LemmaCtx(object):
    def __init__(self, name):
        self.name = name
        self.hyps = []
        self.obligations = []

    def ints(self, names):
        return z3.Ints(names)

    def assume(self, *facts):
        self.hyps.extend(facts)

    def prove(self, clause, goal, extra_hyps=()):
        self.obligations.append(Obligation("lemma:%s/%s" % (self.name, clause), list(self.hyps) + list(extra_hyps), goal, kind="lemma"))


def _prove_raw(self, clause, smt2_text, solver="cvc5-strings"):
    """A lemma stated directly as an SMT-LIB query (must be unsat), e.g. in the theory of strings."""
    txt = "; solver=%s\n%s" % (solver, smt2_text)
    self.obligations.append(Obligation("lemma:%s/%s" % (self.name, clause), [], z3.BoolVal(False), info={"raw_smt2": txt}, kind="lemma"))


LemmaCtx.prove_raw = _prove_raw


def gen_lemma(registry, name):
    rep = FunctionReport("lemma:" + name)
    lem = registry.lemmas.get(name)
    if lem is None:
        rep.status, rep.reason = "error", "no such lemma"
        return rep
    L = LemmaCtx(name)
    try:
        lem.fn(L)
    except Exception as e:
        rep.status, rep.reason = "error", "%s: %s" % (type(e).__name__, e)
        return rep
    rep.obligations = L.obligations
    rep.paths = 1
    rep.exit_paths = 1
    return rep
