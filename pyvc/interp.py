"""Symbolic interpreter for the python subset used by the functions under contract.

Executes the *real* AST of /repo (see extract.py) over the value domain of values.py.
Calls are modular: a callee that has a contract is replaced by (assert pre, havoc result,
assume post); only callees whose contract says ``inline()`` (tiny helpers, closures,
lambdas) are executed in place.
"""
import ast
import fractions

import z3

from . import ops
from .core import (OutOfSubset, PathEnd, ReturnEx, BreakEx, ContinueEx, PyRaise, exc_isinstance,
                   is_z3, z3num, z3bool, fresh_name)
from .values import (NTuple, RECORD_TYPES, EnumVal, SliceVal, FuncVal, BoundMethod, Ext, Opaque, Poison,
                     Inst, PyList, PyDict, SymSeq, StrSeq, Tok, StrId)
from .ops import OptionalVal, simp


class Env(object):
    def __init__(self, parent=None, module=None):
        self.vars = {}
        self.parent = parent
        self.module = module if module is not None else (parent.module if parent else None)

    def lookup(self, name):
        e = self
        while e is not None:
            if name in e.vars:
                return e.vars[name]
            e = e.parent
        raise KeyError(name)

    def has(self, name):
        e = self
        while e is not None:
            if name in e.vars:
                return True
            e = e.parent
        return False

    def set(self, name, value):
        self.vars[name] = value


class YieldTrace(object):
    """Ghost trace of a generator: list of segments ('item', value) | ('seq', SymSeq)."""

    def __init__(self):
        self.segs = []

    def add_item(self, v):
        self.segs.append(("item", v))

    def add_seq(self, s):
        self.segs.append(("seq", s))

    def as_symseq(self, interp, default=None):
        segs = self.segs
        offs = []
        total = 0
        for kind, v in segs:
            offs.append(total)
            total = ops.binop(interp, "+", total, 1 if kind == "item" else v.length)
        length = total

        def at(k):
            res = None
            # build nested ite from the last segment backwards
            for idx in range(len(segs) - 1, -1, -1):
                kind, v = segs[idx]
                val = v if kind == "item" else v.at(ops.binop(interp, "-", k, offs[idx]))
                if res is None:
                    res = val
                else:
                    end = ops.binop(interp, "+", offs[idx], 1 if kind == "item" else v.length)
                    res = ops.ite(ops.compare(interp, "<", k, end), val, res)
            if res is None:
                if default is None:
                    raise OutOfSubset("element of empty trace")
                return default()
            return res

        return SymSeq(length, at, "Y")


class Frame(object):
    def __init__(self, qualname, module, node, contract, verifying):
        self.qualname = qualname
        self.module = module
        self.node = node
        self.contract = contract
        self.verifying = verifying      # True for the function being verified (loop specs apply)
        self.loop_ordinals = {}
        self.ytrace = None
        self.entry_env = None
        self.old_snap = None
        if node is not None:
            self._number_loops(node)
            if any(isinstance(n, (ast.Yield, ast.YieldFrom)) for n in self._walk_own(node)):
                self.ytrace = YieldTrace()

    @staticmethod
    def _walk_own(node):
        """Walk the function body without descending into nested function definitions."""
        stack = list(getattr(node, "body", []))
        if isinstance(node, ast.Lambda):
            stack = [node.body]
        while stack:
            n = stack.pop()
            yield n
            for c in ast.iter_child_nodes(n):
                if isinstance(c, (ast.FunctionDef, ast.AsyncFunctionDef, ast.Lambda, ast.ClassDef)):
                    continue
                stack.append(c)

    def _number_loops(self, node):
        loops = [n for n in self._walk_own(node) if isinstance(n, (ast.For, ast.While))]
        loops.sort(key=lambda n: (n.lineno, n.col_offset))
        for k, n in enumerate(loops):
            self.loop_ordinals[id(n)] = k


class GenVal(object):
    """The (lazy) result of calling a generator function under contract."""

    def __init__(self, contract, call_env, seq):
        self.contract = contract
        self.call_env = call_env
        self.seq = seq


SIMPLE_NODES = (ast.Name, ast.Attribute, ast.Constant, ast.Compare, ast.BoolOp, ast.UnaryOp, ast.Subscript,
                ast.Load, ast.And, ast.Or, ast.Not, ast.Eq, ast.NotEq, ast.Lt, ast.LtE, ast.Gt, ast.GtE,
                ast.Is, ast.IsNot, ast.In, ast.NotIn, ast.USub, ast.Tuple, ast.BinOp, ast.Add, ast.Sub, ast.Mult)


def is_simple_expr(node):
    return all(isinstance(n, SIMPLE_NODES) for n in ast.walk(node))


BINOPS = {ast.Add: "+", ast.Sub: "-", ast.Mult: "*", ast.Div: "/", ast.FloorDiv: "//", ast.Mod: "%",
          ast.Pow: "**", ast.LShift: "<<", ast.RShift: ">>", ast.BitOr: "|", ast.BitAnd: "&"}
CMPOPS = {ast.Eq: "==", ast.NotEq: "!=", ast.Lt: "<", ast.LtE: "<=", ast.Gt: ">", ast.GtE: ">="}


class Interp(object):
    def __init__(self, repo, registry, externals=None):
        self.repo = repo
        self.registry = registry
        self.path = None
        self.frames = []
        self.spec_mode = 0
        self.bit_width = 4
        self.externals = externals       # ExternalModels (modelling table)
        self.assumptions_used = set()
        self.dropped = set()
        self._module_cache = {}
        self.old_env = None
        self.call_depth = 0

    # ------------------------------------------------------------------ utilities
    @property
    def frame(self):
        return self.frames[-1] if self.frames else None

    def oblname(self, clause):
        f = self.frame
        return "%s/%s" % (f.qualname if f else "<top>", clause)

    # python exception a failed side condition stands for (the engine models these as obligations, not as
    # catchable exceptions: inside a handler that would catch them the code is outside the subset)
    SIDE_EXC = {"divisor_nonzero": "ZeroDivisionError", "shift_nonneg": "ValueError", "index_in_range": "IndexError",
                "array_index_in_range": "IndexError", "pow_exponent_nonneg": None, "log2_of_power_of_two": None}

    def side_obligation(self, name, cond):
        if self.spec_mode:
            return
        if isinstance(cond, bool):
            if cond:
                return
            cond = z3.BoolVal(False)
        et = self.SIDE_EXC.get(name)
        if et is not None:
            for handlers in getattr(self, "try_stack", ()):
                for h in handlers:
                    if h is None or any(exc_isinstance(et, n) for n in h):
                        raise OutOfSubset("a possible %s (%s) inside a try block whose handler would catch it: "
                                          "such exceptions are modelled as obligations only" % (et, name))
        f = self.frame
        drop = ("qfact",) if (f is not None and getattr(f, "active_hints", None)) else None
        self.path.oblige(self.oblname("side/" + name), cond, kind="side", drop=drop)

    def side_nonzero(self, z):
        if self.spec_mode:
            return
        if z3.is_int_value(z) or z3.is_rational_value(z):
            if z3.simplify(z == 0).eq(z3.BoolVal(True)):
                raise PyRaise("ZeroDivisionError", origin="division by constant zero")
            return
        self.side_obligation("divisor_nonzero", z != 0)

    def assume_fact(self, cond):
        self.path.assume(cond)

    def note_assumption(self, text):
        self.assumptions_used.add(text)

    def note_dropped(self, text):
        self.dropped.add(text)

    # ------------------------------------------------------------------ names
    def lookup(self, name, env):
        if env.has(name):
            v = env.lookup(name)
            if isinstance(v, Poison):
                raise OutOfSubset("read of %s: %s" % (name, v.why))
            return v
        return self.global_lookup(name, env.module)

    def global_lookup(self, name, module):
        if self.frame is not None and self.frame.contract is not None and name in self.frame.contract.globals_:
            return self.frame.contract.globals_[name]
        key = (module.name if module else None, name)
        if key in self._module_cache:
            return self._module_cache[key]
        v = self._global_lookup(name, module)
        self._module_cache[key] = v
        return v

    def _global_lookup(self, name, module):
        if name in RECORD_TYPES:
            return Ext("record:" + name)
        if module is not None:
            if name in module.functions:
                return FuncVal(module.functions[name], Env(module=module), module, module.name + "." + name)
            if name in module.classes:
                return Ext("class:%s.%s" % (module.name, name))
            if name in module.assigns:
                if module_state_is_mutated(module, name):
                    # a module-level variable that some FUNCTION rebinds or mutates: its value at a call depends on the
                    # process's history (a cache, a counter), which no contract on one call can describe
                    raise OutOfSubset("module-level variable %s.%s is modified inside a function: its value depends on earlier calls"
                                      % (module.name, name))
                saved = self.spec_mode
                try:
                    return self.module_value(name, module)
                finally:
                    self.spec_mode = saved
            if name in module.imports:
                return self.resolve_import(module.imports[name])
            # imports inside the current function body
            if self.frame is not None and self.frame.node is not None and self.frame.module is module:
                loc = module.local_imports(self.frame.node)
                if name in loc:
                    return self.resolve_import(loc[name])
        if name in BUILTIN_NAMES:
            return Ext("builtin:" + name)
        raise OutOfSubset("unknown name %s" % name)

    def module_value(self, name, module):
        """Value of a module-level name after the module's own top-level statements that touch it
        (assignments, augmented assignments, in-place method calls such as ``X.update(...)``),
        executed in source order.  ``try`` bodies are taken as succeeding, ``if`` tests must be
        decidable."""
        env = Env(module=module)
        hit = [False]

        def touches(node):
            if isinstance(node, ast.Assign):
                return any(isinstance(t, ast.Name) and t.id == name for t in node.targets)
            if isinstance(node, ast.AugAssign):
                return isinstance(node.target, ast.Name) and node.target.id == name
            if isinstance(node, ast.Expr) and isinstance(node.value, ast.Call):
                f = node.value.func
                return (isinstance(f, ast.Attribute) and isinstance(f.value, ast.Name) and f.value.id == name
                        and f.attr in ("update", "append", "extend", "add"))
            return False

        def run(body):
            for node in body:
                if touches(node):
                    hit[0] = True
                    if isinstance(node, ast.Assign):
                        env.set(name, self.eval(node.value, env))
                    elif isinstance(node, ast.AugAssign):
                        self.x_AugAssign(node, env)
                    else:
                        self.eval(node.value, env)
                elif isinstance(node, ast.If) and any(touches(n) for n in ast.walk(node)):
                    c = ops.truth(self, self.eval(node.test, env))
                    if not isinstance(c, bool):
                        raise OutOfSubset("module-level condition for %s is not decidable" % name)
                    run(node.body if c else node.orelse)
                elif isinstance(node, ast.Try) and any(touches(n) for n in ast.walk(node)):
                    run(node.body)

        run(module.tree.body)
        if not hit[0]:
            return self.eval(module.assigns[name], Env(module=module))
        return env.lookup(name)

    def resolve_import(self, dotted):
        """A dotted import target -> value (FuncVal for repo functions, Ext otherwise)."""
        if self.externals is not None and dotted in self.externals.calls:
            return Ext(dotted)
        if dotted.startswith("toasty"):
            parts = dotted.split(".")
            for k in range(len(parts), 0, -1):
                mname = ".".join(parts[:k])
                try:
                    m = self.repo.module(mname)
                except Exception:
                    continue
                rest = parts[k:]
                if not rest:
                    return Ext("module:" + mname)
                if len(rest) == 1:
                    return self.global_lookup(rest[0], m)
                break
        return Ext(dotted)

    # ------------------------------------------------------------------ expressions
    def eval(self, node, env):
        m = getattr(self, "e_" + type(node).__name__, None)
        if m is None:
            raise OutOfSubset("expression %s" % type(node).__name__)
        return m(node, env)

    def e_Constant(self, node, env):
        v = node.value
        if isinstance(v, float):
            return fractions.Fraction(v)
        if v is Ellipsis:
            return Ext("Ellipsis")
        return v

    def e_Name(self, node, env):
        return self.lookup(node.id, env)

    def e_Tuple(self, node, env):
        out = []
        for e in node.elts:
            if isinstance(e, ast.Starred):
                out.extend(self.iter_concrete(self.eval(e.value, env)))
            else:
                out.append(self.eval(e, env))
        return tuple(out)

    def e_List(self, node, env):
        return PyList(list(self.e_Tuple(node, env)))

    def e_Set(self, node, env):
        return PySet(list(self.e_Tuple(node, env)))

    def e_Dict(self, node, env):
        d = PyDict()
        for k, v in zip(node.keys, node.values):
            if k is None:
                raise OutOfSubset("dict unpacking")
            d.items[self.hashable(self.eval(k, env))] = self.eval(v, env)
        return d

    def hashable(self, k):
        if isinstance(k, (str, int, bool, tuple, EnumVal)) or k is None:
            return k
        if isinstance(k, StrSeq) and k.is_literal():
            return k.literal()
        if isinstance(k, NTuple) and k.is_concrete():
            return k
        raise OutOfSubset("symbolic dictionary key %r" % (k,))

    def e_JoinedStr(self, node, env):
        parts = []
        for v in node.values:
            if isinstance(v, ast.Constant):
                parts.append(v.value)
            else:
                val = self.eval(v.value, env)
                parts.append(self.to_str(val))
        return self.mk_str(parts)

    def mk_str(self, parts):
        s = StrSeq(parts)
        if s.is_literal():
            return s.literal()
        return s

    def to_str(self, v):
        if isinstance(v, (str, StrSeq)):
            return v
        if isinstance(v, bool) or v is None:
            return str(v)
        if isinstance(v, int):
            return str(v)
        if is_z3(v) and z3.is_int(v):
            return StrSeq([Tok("str(%s)" % v, "digits", v)])
        if isinstance(v, Tok):
            return StrSeq([v])
        if isinstance(v, StrId):
            return StrSeq([Tok(str(v.ident), "strid", v.ident)])
        if isinstance(v, Opaque):
            return StrSeq([Tok("str(%s)" % v.name, "any", v)])
        if is_z3(v) or isinstance(v, fractions.Fraction):
            return StrSeq([Tok("str(%s)" % (v,), "number", v)])
        raise OutOfSubset("str() of %r" % (v,))

    def e_UnaryOp(self, node, env):
        v = self.eval(node.operand, env)
        if isinstance(node.op, ast.Not):
            return ops.negate(ops.truth(self, v))
        if isinstance(node.op, ast.USub):
            return ops.neg(v)
        if isinstance(node.op, ast.UAdd):
            return v
        if isinstance(node.op, ast.Invert):
            if self.externals is not None:
                return self.externals.invert(self, v)
        raise OutOfSubset("unary %s" % type(node.op).__name__)

    def e_BinOp(self, node, env):
        a = self.eval(node.left, env)
        b = self.eval(node.right, env)
        return self.binop(BINOPS.get(type(node.op)), a, b, node)

    def binop(self, op, a, b, node=None):
        if op is None:
            raise OutOfSubset("binary operator %s" % type(node.op).__name__)
        # string formatting / concatenation
        if op == "+" and isinstance(a, (str, StrSeq)) and isinstance(b, (str, StrSeq)):
            return self.mk_str([a, b])
        if op == "%" and isinstance(a, str):
            raise OutOfSubset("%-formatting")
        if op == "+" and isinstance(a, tuple) and isinstance(b, tuple):
            return a + b
        if op == "+" and isinstance(a, PyList) and isinstance(b, PyList):
            return PyList(a.items + b.items)
        if op == "*" and isinstance(a, tuple) and isinstance(b, int):
            return a * b
        if self.externals is not None and (self.externals.is_array(a) or self.externals.is_array(b)):
            return self.externals.array_binop(self, op, a, b)
        return ops.binop(self, op, a, b)

    def e_BoolOp(self, node, env):
        is_and = isinstance(node.op, ast.And)
        if self.spec_mode:
            vals = [ops.truth(self, self.eval(v, env)) for v in node.values]
            return ops.conj(vals) if is_and else ops.disj(vals)
        # code mode: python short-circuit semantics
        last = None
        n = len(node.values)
        acc = []
        for k, vn in enumerate(node.values):
            v = self.eval(vn, env)
            last = v
            if k == n - 1:
                break
            boolish = isinstance(v, bool) or (is_z3(v) and z3.is_bool(v))
            rest_simple = all(is_simple_expr(x) for x in node.values[k + 1:])
            if boolish and rest_simple and not isinstance(v, bool):
                # pure boolean remainder: no need to fork
                saved = self.spec_mode
                self.spec_mode += 1
                try:
                    # value semantics: "b and x" IS x (not bool(x)) when b is true, so the merge into a
                    # conjunction is only right when every remaining operand is itself a bool
                    rest = [self.eval(x, env) for x in node.values[k + 1:]]
                except (OutOfSubset, PyRaise):
                    rest = None
                finally:
                    self.spec_mode = saved
                if rest is not None and all(isinstance(r, bool) or (is_z3(r) and z3.is_bool(r)) for r in rest):
                    return (ops.conj if is_and else ops.disj)(acc + [v] + rest) if not acc else (ops.conj if is_and else ops.disj)(acc + [v] + rest)
            t = ops.truth(self, v)
            taken = self.path.choose(z3bool(t) if not isinstance(t, bool) else t)
            if is_and and not taken:
                return v if not boolish else False
            if (not is_and) and taken:
                return v if not boolish else True
        return last

    def e_IfExp(self, node, env):
        c = ops.truth(self, self.eval(node.test, env))
        if isinstance(c, bool):
            return self.eval(node.body if c else node.orelse, env)
        if self.spec_mode or (is_simple_expr(node.body) and is_simple_expr(node.orelse)):
            try:
                saved = self.spec_mode
                self.spec_mode += 1
                try:
                    a = self.eval(node.body, env)
                    b = self.eval(node.orelse, env)
                finally:
                    self.spec_mode = saved
                return ops.ite(c, a, b)
            except OutOfSubset:
                if self.spec_mode:
                    raise
        if self.path.choose(c):
            return self.eval(node.body, env)
        return self.eval(node.orelse, env)

    def e_Compare(self, node, env):
        left = self.eval(node.left, env)
        parts = []
        for op, rn in zip(node.ops, node.comparators):
            right = self.eval(rn, env)
            parts.append(self.compare_op(op, left, right))
            left = right
        return ops.conj(parts)

    def compare_op(self, op, a, b):
        if isinstance(op, (ast.Is, ast.IsNot)):
            r = self.identical(a, b)
            return r if isinstance(op, ast.Is) else ops.negate(r)
        if isinstance(op, (ast.In, ast.NotIn)):
            r = self.contains(b, a)
            return r if isinstance(op, ast.In) else ops.negate(r)
        if self.externals is not None and (self.externals.is_array(a) or self.externals.is_array(b)):
            return self.externals.array_compare(self, CMPOPS[type(op)], a, b)
        return ops.compare(self, CMPOPS[type(op)], a, b)

    def identical(self, a, b):
        if a is None or b is None:
            return ops.equals(self, a, b)
        if isinstance(a, bool) and isinstance(b, bool):
            return a == b
        if a is b:
            return True
        if self.externals is not None:
            r = self.externals.identical(self, a, b)
            if r is not None:
                return r
        if isinstance(a, (Inst, PyList, PyDict, Opaque)) or isinstance(b, (Inst, PyList, PyDict, Opaque)):
            if self.externals is not None:
                r = self.externals.identical(self, a, b)
                if r is not None:
                    return r
            return False
        if isinstance(a, Ext) and isinstance(b, Ext):
            return a == b
        if isinstance(a, EnumVal) and isinstance(b, EnumVal):
            return a == b
        raise OutOfSubset("identity test on %r / %r" % (a, b))

    def contains(self, container, x):
        if isinstance(container, tuple):
            return ops.disj([ops.equals(self, x, c) for c in container])
        if isinstance(container, PyList):
            return ops.disj([ops.equals(self, x, c) for c in container.items])
        if isinstance(container, PySet):
            return container.contains(self, x)
        if isinstance(container, PyDict):
            if isinstance(x, (NTuple,)) and not x.is_concrete():
                return ops.disj([ops.equals(self, x, k) for k in container.items])
            return self.hashable(x) in container.items
        if isinstance(container, str) and isinstance(x, str):
            return x in container
        if self.externals is not None:
            r = self.externals.contains(self, container, x)
            if r is not None:
                return r
        raise OutOfSubset("'in' on %r" % (container,))

    def e_Attribute(self, node, env):
        base = self.eval(node.value, env)
        return self.getattr(base, node.attr)

    def getattr(self, base, attr):
        if isinstance(base, NTuple):
            if attr in base.names:
                return base.get(attr)
            return BoundMethod(base, attr)
        if isinstance(base, Inst):
            if attr in base.fields:
                v = base.fields[attr]
                if isinstance(v, Poison):
                    raise OutOfSubset("read of field %s: %s" % (attr, v.why))
                return v
            return self.class_attr(base, attr)
        if isinstance(base, Ext):
            if base.name.startswith("module:toasty"):
                m = self.repo.module(base.name[len("module:"):])
                return self.global_lookup(attr, m)
            if base.name.startswith("class:"):
                return self.class_static_attr(base, attr)
            full = base.name + "." + attr
            if full in EXT_CONSTANTS:
                return EXT_CONSTANTS[full]
            return Ext(full)
        if isinstance(base, Opaque):
            if attr in base.attrs:
                return base.attrs[attr]
            if self.externals is not None:
                r = self.externals.getattr(self, base, attr)
                if r is not NotImplemented:
                    return r
            return BoundMethod(base, attr)
        if isinstance(base, SliceVal) and attr in ("start", "stop", "step"):
            return getattr(base, attr)
        if isinstance(base, EnumVal) and attr == "value":
            return base.value
        if isinstance(base, EnumVal) and attr == "name":
            return base.name
        if isinstance(base, EnumVal) and base.mod:
            m = self.repo.module(base.mod)
            cls = m.classes.get(base.cls)
            if cls is not None:
                for node in cls.body:
                    if isinstance(node, ast.FunctionDef) and node.name == attr:
                        bm = BoundMethod(base, attr)
                        bm.func = FuncVal(node, Env(module=m), m, "%s.%s.%s" % (m.name, base.cls, attr))
                        return bm
        if isinstance(base, (PyList, PyDict, PySet, str, StrSeq, tuple, SymSeq, FuncVal, GenVal)):
            return BoundMethod(base, attr)
        if self.externals is not None:
            r = self.externals.getattr(self, base, attr)
            if r is not NotImplemented:
                return r
        raise OutOfSubset("attribute %s of %r" % (attr, base))

    def find_class(self, inst):
        if inst.module is None:
            raise OutOfSubset("attribute lookup on the plain record %s beyond its fields %s" % (inst.cls, sorted(inst.fields)))
        m = self.repo.module(inst.module)
        return m, m.classes[inst.cls]

    def class_attr(self, inst, attr):
        """Attribute not set on the instance: method, property or class-level default."""
        if inst.module is None:
            raise OutOfSubset("attribute %s of the plain record %s (fields %s)" % (attr, inst.cls, sorted(inst.fields)))
        m, cls = self.find_class(inst)
        while True:
            for node in cls.body:
                if isinstance(node, ast.FunctionDef) and node.name == attr:
                    decos = [d.id for d in node.decorator_list if isinstance(d, ast.Name)]
                    qn = "%s.%s.%s" % (m.name, cls.name, attr)
                    fv = FuncVal(node, Env(module=m), m, qn)
                    if "property" in decos:
                        return self.call_function(fv, [inst], {})
                    if "staticmethod" in decos:
                        return fv                 # a static method reached through an instance: the plain function
                    if "classmethod" in decos:
                        raise OutOfSubset("classmethod access via instance")
                    bm = BoundMethod(inst, attr)
                    bm.func = fv
                    return bm
                if isinstance(node, ast.Assign):
                    for t in node.targets:
                        if isinstance(t, ast.Name) and t.id == attr:
                            if not getattr(inst, "constructed", False) and self.repo.attr_is_assigned(attr):
                                # an object that was not built on this path (the receiver or an argument of the function
                                # under verification) and a data attribute that SOME code assigns: its value depends on
                                # the object's history, which only a field declared by the contract can describe
                                raise OutOfSubset("field %s of a %s is not declared by the contract and is assigned somewhere "
                                                  "in the code: its value depends on the object's history" % (attr, inst.cls))
                            return self.eval(node.value, Env(module=m))
            base = None
            for b in cls.bases:
                if isinstance(b, ast.Name) and b.id in m.classes:
                    base = m.classes[b.id]
            if base is None:
                break
            cls = base
        raise PyRaise("AttributeError", (attr,), origin="%s has no attribute %s" % (inst.cls, attr))

    def class_static_attr(self, ext, attr):
        dotted = ext.name[len("class:"):]
        mname, cname = dotted.rsplit(".", 1)
        m = self.repo.module(mname)
        cls = m.classes[cname]
        is_enum = any(isinstance(b, ast.Name) and b.id == "Enum" for b in cls.bases)
        for node in cls.body:
            if isinstance(node, ast.Assign):
                for t in node.targets:
                    if isinstance(t, ast.Name) and t.id == attr:
                        v = self.eval(node.value, Env(module=m))
                        if is_enum:
                            return EnumVal(cname, attr, v)
                        return v
            if isinstance(node, ast.FunctionDef) and node.name == attr:
                fv = FuncVal(node, Env(module=m), m, "%s.%s.%s" % (mname, cname, attr))
                decos = [d.id for d in node.decorator_list if isinstance(d, ast.Name)]
                if "classmethod" in decos:
                    bm = BoundMethod(ext, attr)
                    bm.func = fv
                    return bm
                return fv
        raise OutOfSubset("class attribute %s.%s" % (cname, attr))

    def e_Subscript(self, node, env):
        base = self.eval(node.value, env)
        idx = self.eval_index(node.slice, env)
        return self.getitem(base, idx)

    def eval_index(self, node, env):
        if isinstance(node, ast.Slice):
            return SliceVal(
                self.eval(node.lower, env) if node.lower is not None else None,
                self.eval(node.upper, env) if node.upper is not None else None,
                self.eval(node.step, env) if node.step is not None else None,
            )
        if isinstance(node, ast.Tuple):
            return tuple(self.eval_index(e, env) for e in node.elts)
        return self.eval(node, env)

    def getitem(self, base, idx):
        if isinstance(base, NTuple):
            base = base.vals
        if isinstance(base, (tuple, PyList)):
            items = base if isinstance(base, tuple) else base.items
            if isinstance(idx, SliceVal):
                if all(v is None or isinstance(v, int) for v in (idx.start, idx.stop, idx.step)):
                    r = items[slice(idx.start, idx.stop, idx.step)]
                    return tuple(r) if isinstance(base, tuple) else PyList(r)
                raise OutOfSubset("symbolic slice of python sequence")
            idx = simp(idx) if is_z3(idx) else idx
            if isinstance(idx, int) and not isinstance(idx, bool):
                if -len(items) <= idx < len(items):
                    return items[idx]
                raise PyRaise("IndexError", origin="index %d out of range" % idx)
            if is_z3(idx) and z3.is_int(idx):
                n = len(items)
                self.side_obligation("index_in_range", z3.And(idx >= -n, idx < n))
                if n == 0:
                    raise PathEnd()
                try:
                    res = items[n - 1]
                    for k in range(n - 2, -1, -1):
                        res = ops.ite(z3.Or(idx == k, idx == k - n), items[k], res)
                    return res
                except OutOfSubset:
                    if self.spec_mode:
                        raise
                    # elements that cannot be merged into one term: branch on the index value
                    for k in range(n - 1):
                        if self.path.choose(z3.Or(idx == k, idx == k - n)):
                            return items[k]
                    return items[n - 1]
            raise OutOfSubset("index %r into python sequence" % (idx,))
        if isinstance(base, PyDict):
            if isinstance(idx, NTuple) and not idx.is_concrete():
                raise OutOfSubset("symbolic key lookup in concrete dict")
            k = self.hashable(idx)
            if k in base.items:
                return base.items[k]
            raise PyRaise("KeyError", (k,), origin="missing key %r" % (k,))
        if isinstance(base, SymSeq):
            if isinstance(idx, SliceVal):
                raise OutOfSubset("slice of symbolic sequence")
            i = z3num(idx)
            eff = z3.If(i < 0, i + base.length, i)
            self.side_obligation("index_in_range", z3.And(eff >= 0, eff < base.length))
            return base.at(simp(eff))
        if isinstance(base, str) and isinstance(idx, (int, SliceVal)):
            if isinstance(idx, int):
                return base[idx]
            return base[slice(idx.start, idx.stop, idx.step)]
        if self.externals is not None:
            r = self.externals.getitem(self, base, idx)
            if r is not NotImplemented:
                return r
        raise OutOfSubset("subscript of %r" % (base,))

    def e_Lambda(self, node, env):
        f = self.frame
        return FuncVal(node, env, env.module, (f.qualname if f else "") + ".<lambda>")

    def e_Call(self, node, env):
        from .calls import eval_call
        return eval_call(self, node, env)

    def e_Yield(self, node, env):
        v = self.eval(node.value, env) if node.value is not None else None
        self.do_yield(v)
        return None

    def e_YieldFrom(self, node, env):
        """``yield from g`` as a statement = ``for item in g: yield item`` (the value of the expression, the
        sub-generator's return value, is None for the generators of this code base)"""
        it = self.eval(node.value, env)
        if hasattr(it, "freeze"):
            it = it.freeze()
        if isinstance(it, GenVal):
            if getattr(self.frame, "loop_ytrace", None) is not None or self.frame.ytrace is None:
                raise OutOfSubset("yield from inside a cut loop")
            self.frame.ytrace.add_seq(it.seq)
            self.path.event("yield_seq", it.seq)
            return None
        for v in self.iter_concrete(it):
            self.do_yield(v)
        return None

    def do_yield(self, v):
        f = self.frame
        if f.ytrace is None:
            raise OutOfSubset("yield outside generator frame")
        c = f.contract
        if c is not None and f.verifying and not getattr(f, "suppress_yield_checks", False):
            extra = {"item": v}
            for k_, v_ in getattr(f, "loop_index", {}).items():
                extra["_it%d" % k_] = v_
            for name, expr in c.yields_each_:
                self.path.oblige(self.oblname("yields_each/" + name), self.spec(expr, f.entry_env, extra=extra), kind="yield")
        lt = getattr(f, "loop_ytrace", None)
        if lt is not None:
            # inside a cut loop with a yield ghost: the item extends the ghost sequence of the loop
            trace, gname, genv, dflt = lt
            trace.add_item(v)
            genv.set(gname, trace.as_symseq(self, default=dflt))
        else:
            f.ytrace.add_item(v)
        self.path.event("yield", v)
        if f.verifying and f.node is not None and any(
                isinstance(d, ast.Name) and d.id == "contextmanager" for d in f.node.decorator_list):
            # verifying a @contextmanager generator: the with-body may raise, the exception is thrown in here
            if self.path.nondet("with_body_raises"):
                self.path.event("with_body_raised")
                raise PyRaise("BodyError", origin="the body of the with statement raised")

    def _comp_concrete(self, node, gens, env, emit):
        """Comprehension over iterables of statically known length; filters fork the path."""
        if not gens:
            emit(env)
            return
        g = gens[0]
        if g.is_async:
            raise OutOfSubset("async comprehension")
        it = self.eval(g.iter, env)
        for item in self.iter_concrete(it):
            e2 = Env(parent=env)
            self.assign(g.target, item, e2)
            keep = True
            for cond in g.ifs:
                c = ops.truth(self, self.eval(cond, e2))
                if not self.path.choose(c):
                    keep = False
                    break
            if keep:
                self._comp_concrete(node, gens[1:], e2, emit)

    def e_ListComp(self, node, env):
        if len(node.generators) != 1 or node.generators[0].ifs:
            out = []
            self._comp_concrete(node, node.generators, env, lambda e2: out.append(self.eval(node.elt, e2)))
            return PyList(out)
        g = node.generators[0]
        it = self.eval(g.iter, env)
        seq = it.seq if isinstance(it, GenVal) else it
        if hasattr(seq, "freeze"):
            seq = seq.freeze()
        if isinstance(seq, SymSeq):
            # element-wise map over a sequence of symbolic length (the element expression must be pure)
            def at(k, seq=seq, g=g, node=node, env=env):
                e2 = Env(parent=env)
                self.assign(g.target, seq.at(k), e2)
                self.spec_mode += 1
                try:
                    return self.eval(node.elt, e2)
                finally:
                    self.spec_mode -= 1
            return SymSeq(seq.length, at, "map")
        out = []
        for item in self.iter_concrete(it):
            e2 = Env(parent=env)
            self.assign(g.target, item, e2)
            out.append(self.eval(node.elt, e2))
        return PyList(out)

    def e_DictComp(self, node, env):
        out = PyDict({})

        def emit(e2):
            k = self.eval(node.key, e2)
            out.items[self.hashable(k)] = self.eval(node.value, e2)
        self._comp_concrete(node, node.generators, env, emit)
        return out

    def e_SetComp(self, node, env):
        out = []
        self._comp_concrete(node, node.generators, env, lambda e2: out.append(self.eval(node.elt, e2)))
        return PySet(out)

    def e_GeneratorExp(self, node, env):
        return self.e_ListComp(node, env)

    def e_Starred(self, node, env):
        raise OutOfSubset("starred expression")

    # ------------------------------------------------------------------ iteration helpers
    def iter_concrete(self, it):
        """Items of an iterable whose length is statically known."""
        if isinstance(it, tuple):
            return list(it)
        if isinstance(it, NTuple):
            return list(it.vals)
        if isinstance(it, PyList):
            return list(it.items)
        if isinstance(it, PySet):
            return list(it.items)
        if isinstance(it, PyDict):
            return list(it.items.keys())
        if isinstance(it, RangeVal):
            if all(isinstance(v, int) for v in (it.start, it.stop, it.step)):
                return list(range(it.start, it.stop, it.step))
        if isinstance(it, str):
            return list(it)
        if self.externals is not None:
            r = self.externals.iter_concrete(self, it)
            if r is not None:
                return r
        raise OutOfSubset("iteration over %r needs a loop contract" % (it,))

    # ------------------------------------------------------------------ specs
    def spec(self, expr, env, extra=None):
        """Evaluate a contract clause (string) to a python bool / z3 Bool."""
        tree = parse_expr(expr)
        e = Env(parent=env)
        if extra:
            e.vars.update(extra)
        self.spec_mode += 1
        try:
            v = self.eval(tree, e)
        finally:
            self.spec_mode -= 1
        if isinstance(v, bool) or (is_z3(v) and z3.is_bool(v)):
            return v
        return ops.truth(self, v)

    def spec_value(self, expr, env, extra=None):
        tree = parse_expr(expr)
        e = Env(parent=env)
        if extra:
            e.vars.update(extra)
        self.spec_mode += 1
        try:
            return self.eval(tree, e)
        finally:
            self.spec_mode -= 1


import math as _math

EXT_CONSTANTS = {
    "numpy.pi": fractions.Fraction(_math.pi),
    "math.pi": fractions.Fraction(_math.pi),
    "numpy.newaxis": None,
    "os.path.sep": "/",
    "os.sep": "/",
}

_parse_cache = {}


def parse_expr(expr):
    if expr not in _parse_cache:
        _parse_cache[expr] = ast.parse(expr.strip(), mode="eval").body
    return _parse_cache[expr]


_MUTATORS = {"append", "extend", "insert", "pop", "popitem", "remove", "clear", "update", "setdefault", "add", "discard",
             "move_to_end", "appendleft", "popleft", "sort", "reverse", "__setitem__", "__delitem__"}
_MUT_CACHE = {}


def module_state_is_mutated(module, name):
    """Is the module-level variable ``name`` rebound (``global name``) or mutated in place (subscript / attribute store,
    augmented assignment, mutating method call) inside any function of that module?"""
    key = (module.name, name)
    if key in _MUT_CACHE:
        return _MUT_CACHE[key]
    tree = getattr(module, "tree", None)
    found = False
    if tree is not None:
        for fn in ast.walk(tree):
            if not isinstance(fn, (ast.FunctionDef, ast.AsyncFunctionDef, ast.Lambda)):
                continue
            # a local of the same name shadows the global unless declared global
            declared_global = any(isinstance(n, ast.Global) and name in n.names for n in ast.walk(fn))
            assigned_local = any(isinstance(n, ast.Name) and n.id == name and isinstance(n.ctx, ast.Store) for n in ast.walk(fn))
            params = set()
            if not isinstance(fn, ast.Lambda) or True:
                a = fn.args
                params = {x.arg for x in a.posonlyargs + a.args + a.kwonlyargs} | ({a.vararg.arg} if a.vararg else set()) | ({a.kwarg.arg} if a.kwarg else set())
            if name in params or (assigned_local and not declared_global):
                continue
            if declared_global and assigned_local:
                found = True
                break
            for n in ast.walk(fn):
                if isinstance(n, (ast.Subscript, ast.Attribute)) and isinstance(n.ctx, (ast.Store, ast.Del)):
                    b = n.value
                    while isinstance(b, (ast.Subscript, ast.Attribute)):
                        b = b.value
                    if isinstance(b, ast.Name) and b.id == name:
                        found = True
                elif isinstance(n, ast.AugAssign):
                    b = n.target
                    while isinstance(b, (ast.Subscript, ast.Attribute)):
                        b = b.value
                    if isinstance(b, ast.Name) and b.id == name and not isinstance(n.target, ast.Name):
                        found = True
                elif (isinstance(n, ast.Call) and isinstance(n.func, ast.Attribute) and n.func.attr in _MUTATORS
                      and isinstance(n.func.value, ast.Name) and n.func.value.id == name):
                    found = True
                if found:
                    break
            if found:
                break
    _MUT_CACHE[key] = found
    return found


class RangeVal(object):
    def __init__(self, start, stop, step=1):
        self.start, self.stop, self.step = start, stop, step

    def __repr__(self):
        return "range(%s, %s, %s)" % (self.start, self.stop, self.step)


class PySet(object):
    """A python set with statically known membership *structure*: a list of element values
    (possibly symbolic); ``x in s`` is the disjunction of equalities."""

    def __init__(self, items=()):
        self.items = list(items)

    def contains(self, interp, x):
        return ops.disj([ops.equals(interp, x, c) for c in self.items])

    def __repr__(self):
        return "PySet(%r)" % (self.items,)


BUILTIN_NAMES = {
    "max", "min", "int", "float", "len", "range", "isinstance", "abs", "str", "list", "tuple", "enumerate", "zip",
    "hasattr", "print", "bool", "set", "dict", "sum", "map", "type", "open", "Exception", "ValueError", "KeyError",
    "IndexError", "TypeError", "AttributeError", "StopIteration", "NotImplementedError", "OSError", "IOError",
    "FileNotFoundError", "AssertionError", "ZeroDivisionError", "RuntimeError", "slice", "next", "iter", "sorted",
    "reversed", "any", "all", "repr", "format", "object", "getattr", "round", "divmod", "super",
}
