"""Dictionaries / sets keyed by tile positions with symbolic content (``readiness``, ghost
sets Released / Done):  presence and value are z3 arrays indexed by (n, x, y)."""
import z3

from . import ops
from .core import OutOfSubset, PyRaise, is_z3, z3num, fresh_name
from .values import NTuple, BoundMethod
from .ops import simp

I = z3.IntSort()


def _key(k):
    if isinstance(k, NTuple) and k.tname == "Pos":
        return [z3num(v) for v in k.vals]
    if isinstance(k, tuple) and len(k) == 3:
        return [z3num(v) for v in k]
    raise OutOfSubset("map key %r is not a position" % (k,))


class SymMap(object):
    """dict[Pos -> int]"""

    def __init__(self, label="map", present=None, val=None):
        self.label = label
        self.present = present if present is not None else z3.K(I, z3.K(I, z3.K(I, z3.BoolVal(False))))
        self.val = val if val is not None else z3.K(I, z3.K(I, z3.K(I, z3.IntVal(0))))

    # nested arrays n -> x -> y -> value (multi-index arrays are not supported by every back end)
    @staticmethod
    def sel(arr, k):
        return z3.Select(z3.Select(z3.Select(arr, k[0]), k[1]), k[2])

    @staticmethod
    def sto(arr, k, v):
        a1 = z3.Select(arr, k[0])
        a2 = z3.Select(a1, k[1])
        return z3.Store(arr, k[0], z3.Store(a1, k[1], z3.Store(a2, k[2], v)))

    def has(self, k):
        return self.sel(self.present, _key(k))

    def value(self, k):
        return self.sel(self.val, _key(k))

    def snapshot(self, memo):
        return SymMap(self.label, self.present, self.val)

    def __repr__(self):
        return "<SymMap %s>" % self.label


class SymSet(object):
    """set[Pos] (used for ghost state)"""

    def __init__(self, label="set", member=None):
        self.label = label
        self.member = member if member is not None else z3.K(I, z3.K(I, z3.K(I, z3.BoolVal(False))))

    def has(self, k):
        return SymMap.sel(self.member, _key(k))

    def add(self, k):
        self.member = SymMap.sto(self.member, _key(k), z3.BoolVal(True))

    def snapshot(self, memo):
        return SymSet(self.label, self.member)

    def __repr__(self):
        return "<SymSet %s>" % self.label


def fresh_bool_cube(name):
    return z3.Const(fresh_name(name), z3.ArraySort(I, z3.ArraySort(I, z3.ArraySort(I, z3.BoolSort()))))


def fresh_int_cube(name):
    return z3.Const(fresh_name(name), z3.ArraySort(I, z3.ArraySort(I, z3.ArraySort(I, I))))


class SymMapPlugin(object):
    def is_mutable_model(self, obj):
        return isinstance(obj, (SymMap, SymSet))

    def havoc(self, interp, obj, expr):
        if isinstance(obj, SymMap):
            obj.present = fresh_bool_cube(obj.label + ".present")
            obj.val = fresh_int_cube(obj.label + ".val")
            return True
        if isinstance(obj, SymSet):
            obj.member = fresh_bool_cube(obj.label)
            return True
        return False

    def getattr(self, interp, base, attr):
        if isinstance(base, (SymMap, SymSet)):
            return BoundMethod(base, attr)
        return NotImplemented

    def getitem(self, interp, base, idx):
        if isinstance(base, SymMap):
            p = base.has(idx)
            if not interp.spec_mode:
                if not interp.path.choose(p):
                    raise PyRaise("KeyError", origin="missing key in %s" % base.label)
            return base.value(idx)
        return NotImplemented

    def setitem(self, interp, base, idx, v):
        if isinstance(base, SymMap):
            k = _key(idx)
            base.present = SymMap.sto(base.present, k, z3.BoolVal(True))
            base.val = SymMap.sto(base.val, k, z3num(v))
            return True
        return False

    def contains(self, interp, container, x):
        if isinstance(container, (SymMap, SymSet)):
            return container.has(x)
        return None

    def method(self, interp, recv, name, args, kwargs):
        if isinstance(recv, SymMap):
            if name == "get":
                d = args[1] if len(args) > 1 else None
                if d is None:
                    raise OutOfSubset("dict.get without an integer default")
                return simp(z3.If(recv.has(args[0]), recv.value(args[0]), z3num(d)))
            if name == "pop":
                k = _key(args[0])
                p = SymMap.sel(recv.present, k)
                if len(args) > 1:
                    v = simp(z3.If(p, SymMap.sel(recv.val, k), z3num(args[1])))
                else:
                    if not interp.path.choose(p):
                        raise PyRaise("KeyError", origin="dict.pop of a missing key in %s" % recv.label)
                    v = SymMap.sel(recv.val, k)
                recv.present = SymMap.sto(recv.present, k, z3.BoolVal(False))
                return v
            raise OutOfSubset("dict method %s on a symbolic map" % name)
        if isinstance(recv, SymSet):
            if name == "add":
                recv.add(args[0])
                return None
            raise OutOfSubset("set method %s on a symbolic set" % name)
        return NotImplemented

    def length(self, interp, x):
        if isinstance(x, SymMap):
            return z3.Int(fresh_name("len_" + x.label))
        return NotImplemented


def install(X):
    X.plugins.append(SymMapPlugin())
