"""Statement execution (mixin for the Machine)."""
import ast

import z3

from . import ops
from .core import (OutOfSubset, PathEnd, ReturnEx, BreakEx, ContinueEx, PyRaise, exc_isinstance,
                   is_z3, z3num, z3bool, fresh_name)
from .interp import Env, GenVal, RangeVal, PySet, parse_expr
from .values import (NTuple, EnumVal, SliceVal, FuncVal, BoundMethod, Ext, Opaque, Poison, Inst, PyList, PyDict,
                     SymSeq, StrSeq)
from .ops import simp

UNROLL_LIMIT = 64

MUTATING_METHODS = {"append", "pop", "add", "update", "extend", "fill", "clear", "remove", "setdefault", "sort",
                    "reverse", "insert", "discard", "popitem"}


class StmtMixin(object):
    # ------------------------------------------------------------------ blocks
    def exec_block(self, stmts, env):
        for s in stmts:
            self.exec_stmt(s, env)
            f = self.frame
            if f is not None and getattr(f, "active_hints", None):
                self.flush_hints(env)

    def flush_hints(self, env):
        """Instantiate the remembered quantified facts at every hint term that has become
        evaluable (each hint once per path)."""
        f = self.frame
        done = f.__dict__.setdefault("hints_done", set())
        todo = [h for h in f.active_hints if h not in done]
        if not todo:
            return
        terms = []
        for h in todo:
            try:
                v = self.spec_value(h, env)
            except (OutOfSubset, KeyError, PyRaise):
                continue
            done.add(h)
            if isinstance(v, NTuple):
                terms.append(tuple(v.vals))
        if terms:
            self.instantiate_qfacts(terms)

    def exec_stmt(self, node, env):
        m = getattr(self, "x_" + type(node).__name__, None)
        if m is None:
            raise OutOfSubset("statement %s" % type(node).__name__)
        return m(node, env)

    def x_Pass(self, node, env):
        pass

    def x_Expr(self, node, env):
        if isinstance(node.value, ast.Constant):
            return  # docstring
        self.eval(node.value, env)

    def x_Import(self, node, env):
        self._bind_imports(node, env)

    def x_ImportFrom(self, node, env):
        self._bind_imports(node, env)

    def _bind_imports(self, node, env):
        """Function-level imports bind local names (so that closures defined afterwards see them)."""
        mod = env.module
        if mod is None:
            return
        saved = mod.imports
        mod.imports = {}
        try:
            mod._index_import(node)
            table = mod.imports
        finally:
            mod.imports = saved
        for name, dotted in table.items():
            try:
                env.set(name, self.resolve_import(dotted))
            except OutOfSubset:
                pass

    def x_FunctionDef(self, node, env):
        f = self.frame
        qn = (f.qualname if f else "") + ".<locals>." + node.name
        env.set(node.name, FuncVal(node, env, env.module, qn))

    def x_Return(self, node, env):
        raise ReturnEx(self.eval(node.value, env) if node.value is not None else None)

    def x_Break(self, node, env):
        raise BreakEx()

    def x_Continue(self, node, env):
        raise ContinueEx()

    def x_Global(self, node, env):
        raise OutOfSubset("global statement")

    def x_Nonlocal(self, node, env):
        raise OutOfSubset("nonlocal statement")

    # ------------------------------------------------------------------ assignment
    def x_Assign(self, node, env):
        v = self.eval(node.value, env)
        f = self.frame
        if (f is not None and f.verifying and f.contract is not None and f.contract.locals_
                and len(node.targets) == 1 and isinstance(node.targets[0], ast.Name)
                and node.targets[0].id in f.contract.locals_):
            v = self.typed_local(node.targets[0].id, v, f.contract.locals_[node.targets[0].id])
        for t in node.targets:
            self.assign(t, v, env)

    def typed_local(self, name, v, decl):
        """Replace the value the code just built by the declared symbolic model of it, after
        checking that the code really built that kind of object."""
        from .types import fresh_of_type
        kind, _, tdecl = decl.partition("=>")
        kind, tdecl = kind.strip(), tdecl.strip()
        ok = False
        if kind == "emptydict":
            ok = isinstance(v, PyDict) and not v.items
        elif kind == "emptylist":
            ok = isinstance(v, PyList) and not v.items
        elif kind == "emptyset":
            ok = isinstance(v, PySet) and not v.items
        elif kind.startswith("opaque:"):
            ok = isinstance(v, Opaque) and v.kind == kind[7:]
        if not ok:
            raise OutOfSubset("local %s is declared %s but the code assigns %r" % (name, kind, v))
        nv = fresh_of_type(self, tdecl, name)
        if isinstance(v, Opaque) and isinstance(nv, Opaque):
            for k_, x_ in v.attrs.items():
                nv.attrs.setdefault(k_, x_)
        return nv

    def x_AnnAssign(self, node, env):
        if node.value is not None:
            self.assign(node.target, self.eval(node.value, env), env)

    def x_AugAssign(self, node, env):
        from .interp import BINOPS
        t = node.target
        op = BINOPS.get(type(node.op))
        if isinstance(t, ast.Name):
            cur = self.lookup(t.id, env)
            val = self.eval(node.value, env)
            self.assign(t, self.inplace(op, cur, val, node), env)
        elif isinstance(t, ast.Attribute):
            base = self.eval(t.value, env)
            cur = self.getattr(base, t.attr)
            val = self.eval(node.value, env)
            self.setattr(base, t.attr, self.inplace(op, cur, val, node))
        elif isinstance(t, ast.Subscript):
            base = self.eval(t.value, env)
            idx = self.eval_index(t.slice, env)
            cur = self.getitem(base, idx)
            val = self.eval(node.value, env)
            self.setitem(base, idx, self.inplace(op, cur, val, node))
        else:
            raise OutOfSubset("augmented assignment target")

    def inplace(self, op, cur, val, node):
        if op == "+" and isinstance(cur, PyList):
            if isinstance(val, PyList):
                cur.items.extend(val.items)
                return cur
            raise OutOfSubset("list += non-list")
        if self.externals is not None:
            r = self.externals.inplace(self, op, cur, val)
            if r is not NotImplemented:
                return r
        return self.binop(op, cur, val, node)

    def assign(self, target, v, env):
        if isinstance(target, ast.Name):
            env.set(target.id, v)
        elif isinstance(target, (ast.Tuple, ast.List)):
            items = self.unpack(v, len(target.elts))
            for t, x in zip(target.elts, items):
                self.assign(t, x, env)
        elif isinstance(target, ast.Attribute):
            base = self.eval(target.value, env)
            self.setattr(base, target.attr, v)
        elif isinstance(target, ast.Subscript):
            base = self.eval(target.value, env)
            idx = self.eval_index(target.slice, env)
            self.setitem(base, idx, v)
        else:
            raise OutOfSubset("assignment target %s" % type(target).__name__)

    def unpack(self, v, n):
        if isinstance(v, NTuple):
            items = list(v.vals)
        elif isinstance(v, tuple):
            items = list(v)
        elif isinstance(v, PyList):
            items = list(v.items)
        else:
            if self.externals is not None:
                items = self.externals.unpack(self, v, n)
                if items is not None:
                    return items
            raise OutOfSubset("unpacking of %r" % (v,))
        if len(items) != n:
            raise PyRaise("ValueError", origin="unpack length mismatch")
        return items

    def setattr(self, base, attr, v):
        if isinstance(base, Inst):
            base.fields[attr] = v
        elif isinstance(base, Opaque):
            base.attrs[attr] = v
        elif self.externals is not None and self.externals.setattr(self, base, attr, v):
            pass
        else:
            raise OutOfSubset("attribute store on %r" % (base,))

    def setitem(self, base, idx, v):
        if isinstance(base, PyList):
            idx = simp(idx) if is_z3(idx) else idx
            if isinstance(idx, int):
                if -len(base.items) <= idx < len(base.items):
                    base.items[idx] = v
                    return
                raise PyRaise("IndexError", origin="list assignment index out of range")
            if is_z3(idx) and z3.is_int(idx):
                n = len(base.items)
                self.side_obligation("index_in_range", z3.And(idx >= -n, idx < n))
                for k in range(n):
                    base.items[k] = ops.ite(z3.Or(idx == k, idx == k - n), v, base.items[k])
                return
            raise OutOfSubset("list store index %r" % (idx,))
        if isinstance(base, PyDict):
            if isinstance(idx, NTuple) and not idx.is_concrete():
                raise OutOfSubset("symbolic key store in concrete dict")
            base.items[self.hashable(idx)] = v
            return
        if self.externals is not None and self.externals.setitem(self, base, idx, v):
            return
        raise OutOfSubset("subscript store on %r" % (base,))

    def x_Delete(self, node, env):
        for t in node.targets:
            if isinstance(t, ast.Subscript):
                base = self.eval(t.value, env)
                idx = self.eval_index(t.slice, env)
                if isinstance(base, PyDict):
                    k = self.hashable(idx)
                    if k not in base.items:
                        raise PyRaise("KeyError", (k,), origin="del of missing key")
                    del base.items[k]
                    continue
                if self.externals is not None and self.externals.delitem(self, base, idx):
                    continue
            raise OutOfSubset("del target")

    # ------------------------------------------------------------------ control
    def x_If(self, node, env):
        c = ops.truth(self, self.eval(node.test, env))
        # "if c: name = <pure expr>" / "if c: name op= <pure expr>" without else: merged into an if-then-else
        # value instead of forking the path (side obligations of the right-hand side are required unconditionally)
        if (not isinstance(c, bool) and not node.orelse and len(node.body) == 1
                and isinstance(node.body[0], (ast.Assign, ast.AugAssign))):
            st = node.body[0]
            tgt = st.targets[0] if isinstance(st, ast.Assign) and len(st.targets) == 1 else (st.target if isinstance(st, ast.AugAssign) else None)
            from .interp import is_simple_expr
            if isinstance(tgt, ast.Name) and env.has(tgt.id) and is_simple_expr(st.value):
                old = env.lookup(tgt.id)
                if ops.is_num(old) or isinstance(old, bool) or (is_z3(old) and z3.is_bool(old)):
                    e2 = Env(parent=env)
                    try:
                        self.exec_stmt(st, e2)
                        new = e2.vars.get(tgt.id)
                        merged = ops.ite(c, new, old)
                        env.set(tgt.id, merged)
                        return
                    except OutOfSubset:
                        pass
        if self.path.choose(c):
            self.exec_block(node.body, env)
        else:
            self.exec_block(node.orelse, env)

    def x_Assert(self, node, env):
        c = ops.truth(self, self.eval(node.test, env))
        f = self.frame
        k = f.assert_ordinal(node) if f is not None else 0
        self.path.oblige(self.oblname("assert#%d" % k), c if not isinstance(c, bool) else z3.BoolVal(c), kind="assert")
        if isinstance(c, bool) and not c:
            raise PathEnd()

    def x_Raise(self, node, env):
        if node.exc is None:
            if not self.exc_stack:
                raise OutOfSubset("bare raise outside handler")
            raise self.exc_stack[-1]
        e = node.exc
        etype, args = None, ()
        if isinstance(e, ast.Call):
            fn = e.func
            etype = fn.id if isinstance(fn, ast.Name) else (fn.attr if isinstance(fn, ast.Attribute) else None)
            # arguments are evaluated leniently: messages do not matter
            args = ()
        elif isinstance(e, ast.Name):
            v = env.lookup(e.id) if env.has(e.id) else None
            if isinstance(v, PyRaise):
                raise v
            etype = e.id
        if etype is None:
            raise OutOfSubset("raise of computed exception")
        raise PyRaise(etype, args, origin="raise at line %d" % node.lineno)

    def x_Try(self, node, env):
        pending = None
        if not hasattr(self, "try_stack"):
            self.try_stack = []
        try:
            try:
                self.try_stack.append([self.handler_names(h) for h in node.handlers])
                try:
                    self.exec_block(node.body, env)
                finally:
                    self.try_stack.pop()
            except PyRaise as ex:
                handled = False
                for h in node.handlers:
                    if self.handler_matches(h, ex, env):
                        handled = True
                        if h.name:
                            env.set(h.name, ExcObj(ex))
                        self.exc_stack.append(ex)
                        try:
                            self.exec_block(h.body, env)
                        finally:
                            self.exc_stack.pop()
                        break
                if not handled:
                    raise
            else:
                self.exec_block(node.orelse, env)
        except (PyRaise, ReturnEx, BreakEx, ContinueEx) as ex:
            pending = ex
        if node.finalbody:
            self.exec_block(node.finalbody, env)
        if pending is not None:
            raise pending

    def handler_names(self, h):
        """Exception class names a handler catches; None for a bare ``except:``."""
        if h.type is None:
            return None
        t = h.type
        elts = t.elts if isinstance(t, ast.Tuple) else [t]
        return [e.id if isinstance(e, ast.Name) else (e.attr if isinstance(e, ast.Attribute) else "BaseException") for e in elts]

    def handler_matches(self, h, ex, env):
        if h.type is None:
            return True
        names = []
        t = h.type
        elts = t.elts if isinstance(t, ast.Tuple) else [t]
        for e in elts:
            if isinstance(e, ast.Name):
                names.append(e.id)
            elif isinstance(e, ast.Attribute):
                names.append(e.attr)
            else:
                raise OutOfSubset("computed exception class in handler")
        if any(exc_isinstance(ex.etype, n) for n in names):
            return True
        if ex.etype == "CallbackError":
            # a user callback may raise an instance of ANY exception class: whatever class a handler names,
            # some callback exception is caught by it and some is not
            return self.path.nondet("callback_exception_caught_by_" + "_".join(names))
        return False

    def x_With(self, node, env):
        self.with_items(list(node.items), node.body, env)

    def with_items(self, items, body, env):
        if not items:
            self.exec_block(body, env)
            return
        item = items[0]
        cm = self.eval(item.context_expr, env)

        def run_body(value):
            if item.optional_vars is not None:
                self.assign(item.optional_vars, value, env)
            self.with_items(items[1:], body, env)

        self.enter_context(cm, run_body)

    def enter_context(self, cm, run_body):
        from .calls import CMCall
        if isinstance(cm, CMCall):
            cm.run(self, run_body)
            return
        if self.externals is not None and self.externals.enter_context(self, cm, run_body):
            return
        raise OutOfSubset("context manager %r" % (cm,))

    # ------------------------------------------------------------------ loops
    def loop_spec(self, node):
        f = self.frame
        if f is None or f.contract is None:
            return None
        k = f.loop_ordinals.get(id(node))
        spec = f.contract.loops.get(k)
        if spec is not None and spec.only_cases is not None and f.verifying and not spec.only_cases(getattr(self, "_case", None) or {}):
            return None
        return spec

    def assigned_names(self, stmts):
        names = []
        for s in stmts:
            for n in ast.walk(s):
                if isinstance(n, ast.Name) and isinstance(n.ctx, (ast.Store, ast.Del)):
                    if n.id not in names:
                        names.append(n.id)
                elif isinstance(n, (ast.FunctionDef, ast.Lambda)):
                    pass
        return names

    def mutated_bases(self, stmts):
        """Names of objects that the statements mutate in place (subscript/attribute stores,
        mutating method calls)."""
        out = []

        def base_name(e):
            while isinstance(e, (ast.Attribute, ast.Subscript)):
                e = e.value
            return e.id if isinstance(e, ast.Name) else None

        for s in stmts:
            for n in ast.walk(s):
                tgt = []
                if isinstance(n, ast.Assign):
                    tgt = n.targets
                elif isinstance(n, (ast.AugAssign, ast.AnnAssign)):
                    tgt = [n.target]
                elif isinstance(n, ast.Delete):
                    tgt = n.targets
                for t in tgt:
                    for tt in (t.elts if isinstance(t, (ast.Tuple, ast.List)) else [t]):
                        if isinstance(tt, (ast.Attribute, ast.Subscript)):
                            expr = ast.unparse(tt.value)
                            if expr not in out:
                                out.append(expr)
                        elif isinstance(n, ast.AugAssign) and isinstance(tt, ast.Name):
                            pass
                if isinstance(n, ast.Call) and isinstance(n.func, ast.Attribute) and n.func.attr in MUTATING_METHODS:
                    expr = ast.unparse(n.func.value)
                    if expr not in out:
                        out.append(expr)
        return out

    def fresh_like(self, name, cur, tdecl=None):
        from .types import fresh_of_type
        if tdecl is not None:
            return fresh_of_type(self, tdecl, name)
        if isinstance(cur, bool) or (is_z3(cur) and z3.is_bool(cur)):
            return z3.Bool(fresh_name(name))
        if ops.is_int(cur):
            return z3.Int(fresh_name(name))
        if ops.is_real(cur):
            return z3.Real(fresh_name(name))
        if isinstance(cur, NTuple):
            return NTuple(cur.tname, cur.names, [self.fresh_like("%s.%s" % (name, n), v) for n, v in zip(cur.names, cur.vals)])
        if isinstance(cur, tuple):
            return tuple(self.fresh_like("%s.%d" % (name, k), v) for k, v in enumerate(cur))
        return Poison("%s is modified in a loop; declare its type in the loop contract" % name)

    def havoc_loop(self, spec, body_stmts, env, extra_names=()):
        names = self.assigned_names(body_stmts) + list(extra_names)
        for n in names:
            if env.has(n):
                cur = env.lookup(n)
                # assign in the scope that owns it (closures are not mutated by loops here)
                env.set(n, self.fresh_like(n, cur, spec.types.get(n)))
            elif n in spec.types:
                env.set(n, self.fresh_like(n, None, spec.types[n]))
        declared = set(spec.havoc)
        for expr in self.mutated_bases(body_stmts):
            try:
                self.spec_mode += 1
                try:
                    obj = self.eval(parse_expr(expr), env)
                finally:
                    self.spec_mode -= 1
            except (OutOfSubset, KeyError, PyRaise):
                continue
            if isinstance(obj, (Opaque, Ext)):
                continue
            if expr in declared:
                continue
            if isinstance(obj, (PyList, PyDict, Inst, PySet)) or (self.externals is not None and self.externals.is_mutable_model(obj)):
                raise OutOfSubset("loop mutates %s in place: declare it in the loop contract (havoc=[...])" % expr)
        for expr in spec.havoc:
            obj = self.eval(parse_expr(expr), env)
            self.havoc_object(expr, obj, spec)

    def havoc_object(self, expr, obj, spec):
        if self.externals is not None and self.externals.havoc(self, obj, expr):
            return
        if isinstance(obj, Inst):
            for fld in list(obj.fields):
                key = "%s.%s" % (expr, fld)
                if key in spec.types:
                    obj.fields[fld] = self.fresh_like(key, obj.fields[fld], spec.types[key])
            return
        raise OutOfSubset("cannot havoc %s (%r)" % (expr, obj))

    def check_invariants(self, spec, env, phase, extra=None):
        k = spec.ordinal
        for name, expr in spec.invariants:
            self.oblige_spec(self.oblname("loop%d/%s/%s" % (k, name, phase)), expr, env, extra=extra,
                             hints=spec.hints, kind="invariant", sk_hints=spec.sk_hints)

    def assume_invariants(self, spec, env, extra=None):
        for name, expr in spec.invariants:
            self.assume_spec(expr, env, extra=extra)

    # ---- quantified facts with manual instantiation -------------------------------------
    @staticmethod
    def forall_lambda(expr):
        t = parse_expr(expr)
        if (isinstance(t, ast.Call) and isinstance(t.func, ast.Name) and t.func.id == "forall" and t.args
                and isinstance(t.args[0], ast.Lambda)):
            return t.args[0]
        return None

    def assume_spec(self, expr, env, extra=None):
        """Assume a clause; a top-level ``forall(lambda ...)`` is also remembered (with a snapshot of
        the state it speaks about) so that later goals can instantiate it at chosen terms."""
        from .verify import snapshot
        lam = self.forall_lambda(expr)
        fact = self.spec(expr, env, extra=extra)
        if lam is None:
            self.path.assume(fact)
            return
        self.path.assume(fact, tag="qfact")
        senv = Env(module=env.module)
        memo = {}
        e, chain = env, []
        while e is not None:
            chain.append(e)
            e = e.parent
        for e in reversed(chain):
            for k_, v_ in e.vars.items():
                senv.vars[k_] = snapshot(v_, memo)
        if extra:
            senv.vars.update(extra)
        if not hasattr(self.frame, "qfacts"):
            self.frame.qfacts = []
        # template: the body evaluated once over placeholder constants; instances are z3 substitutions
        names = [a.arg for a in lam.args.args]
        ph = [z3.Int(fresh_name("ph_" + n_)) for n_ in names]
        e2 = Env(parent=senv)
        for n_, t_ in zip(names, ph):
            e2.set(n_, t_)
        self.spec_mode += 1
        try:
            templ = ops.truth(self, self.eval(lam.body, e2))
        finally:
            self.spec_mode -= 1
        self.frame.qfacts.append((names, ph, templ))

    def instantiate_qfacts(self, terms_list):
        """Assume every remembered quantified fact at each of the given argument tuples."""
        for names, ph, templ in getattr(self.frame, "qfacts", []):
            if isinstance(templ, bool):
                continue
            for terms in terms_list:
                if len(terms) != len(names):
                    continue
                inst = z3.substitute(templ, *[(p_, z3num(t_)) for p_, t_ in zip(ph, terms)])
                self.path.assume(inst)

    def hint_terms(self, hints, env):
        out = []
        for h in hints or []:
            try:
                v = self.spec_value(h, env)
            except (OutOfSubset, KeyError, PyRaise):
                continue
            if isinstance(v, NTuple):
                out.append(tuple(v.vals))
            elif isinstance(v, tuple):
                out.append(tuple(v))
            else:
                out.append((v,))
        return out

    def oblige_spec(self, name, expr, env, extra=None, hints=None, kind="assert", assume_after=True, sk_hints=None):
        lam = self.forall_lambda(expr)
        qf = getattr(self.frame, "qfacts", [])
        if lam is None or not qf:
            if qf and hints:
                self.instantiate_qfacts(self.hint_terms(hints, env))
            self.path.oblige(name, self.spec(expr, env, extra=extra), kind=kind, assume_after=assume_after)
            return
        names = [a.arg for a in lam.args.args]
        sk = tuple(z3.Int(fresh_name("sk_" + n_)) for n_ in names)
        e2 = Env(parent=env)
        if extra:
            e2.vars.update(extra)
        for n_, t_ in zip(names, sk):
            e2.set(n_, t_)
        sk_terms = self.hint_terms(sk_hints, e2)
        self.spec_mode += 1
        try:
            goal = ops.truth(self, self.eval(lam.body, e2))
        finally:
            self.spec_mode -= 1
        saved = list(self.path.pc)
        self.instantiate_qfacts([sk] + sk_terms + self.hint_terms(hints, env))
        self.path.oblige(name, goal, kind=kind, assume_after=False, drop=("qfact",))
        self.path.pc[:] = saved
        if assume_after:
            self.path.assume(self.spec(expr, env, extra=extra), tag="qfact")

    def poison_assigned(self, stmts, env, why):
        for n in self.assigned_names(stmts):
            env.set(n, Poison(why))

    def x_While(self, node, env):
        spec = self.loop_spec(node)
        if spec is None or not self.frame.verifying:
            for _ in range(UNROLL_LIMIT):
                c = ops.truth(self, self.eval(node.test, env))
                if not isinstance(c, bool):
                    raise OutOfSubset("while loop (line %d) needs a loop contract" % node.lineno)
                if not c:
                    self.exec_block(node.orelse, env)
                    return
                try:
                    self.exec_block(node.body, env)
                except BreakEx:
                    return
                except ContinueEx:
                    continue
            raise OutOfSubset("while loop exceeds unroll limit")
        yg = spec.yield_ghost
        if yg is not None:
            from .interp import YieldTrace
            from .types import fresh_seq, fresh_of_type
            gname, gtype = yg
            dflt = (lambda: fresh_of_type(self, gtype, "nil"))
            env.set(gname, YieldTrace().as_symseq(self, default=dflt))
        le = Env(parent=env.parent, module=env.module)
        le.vars = dict(env.vars)           # bindings at the first arrival (immutable values; objects are shared)
        self.frame.loop_entry_env = le
        self.check_invariants(spec, env, "establish")
        if self.path.nondet("loop%d" % spec.ordinal):
            self.havoc_loop(spec, node.body, env)
            if yg is not None:
                sofar = fresh_seq(self, gtype, gname)
                lt = YieldTrace()
                lt.add_seq(sofar)
                env.set(gname, sofar)
                self.frame.loop_ytrace = (lt, gname, env, dflt)
            self.assume_invariants(spec, env)
            c = ops.truth(self, self.eval(node.test, env))
            self.path.assume(c)
            m0 = self.spec_value(spec.decreases, env) if spec.decreases else None
            self.path.event("loop_iter", spec.ordinal, None, None)
            self.frame.active_hints = list(spec.hints)
            self.frame.hints_done = set()
            try:
                try:
                    self.exec_block(node.body, env)
                finally:
                    if yg is not None:
                        self.frame.loop_ytrace = None
            except ContinueEx:
                pass
            except BreakEx:
                self.path.event("loop_break", spec.ordinal)
                if yg is not None:
                    self.frame.ytrace.add_seq(lt.as_symseq(self, default=dflt))
                return
            self.path.event("loop_iter_end", spec.ordinal, None)
            self.check_invariants(spec, env, "preserve")
            if m0 is not None:
                m1 = self.spec_value(spec.decreases, env)
                self.path.oblige(self.oblname("loop%d/decreases" % spec.ordinal),
                                 z3.And(z3num(m0) >= 0, z3num(m1) < z3num(m0)), kind="decreases")
            raise PathEnd()
        self.havoc_loop(spec, node.body, env)
        if yg is not None:
            final = fresh_seq(self, gtype, gname)
            env.set(gname, final)
            self.frame.ytrace.add_seq(final)
        self.assume_invariants(spec, env)
        c = ops.truth(self, self.eval(node.test, env))
        self.path.assume(ops.negate(c))
        self.path.event("loop_exit", spec.ordinal)
        self.exec_block(node.orelse, env)

    def x_For(self, node, env):
        spec = self.loop_spec(node) if (self.frame is not None and self.frame.verifying) else None
        it = self.eval(node.iter, env)
        if hasattr(it, "freeze"):
            it = it.freeze()
        # re-yield of a callee generator's trace:  for item in g(...): yield item
        if isinstance(it, GenVal) and self.is_reyield(node):
            self.frame.ytrace.add_seq(it.seq)
            self.path.event("yield_seq", it.seq)
            self.poison_assigned([node], env, "loop variable of a re-yield loop")
            return
        forced = getattr(self.frame, "forced_iter", None) if self.frame is not None else None
        if forced is not None:
            k = self.frame.loop_ordinals.get(id(node))
            if k in forced:
                val = forced[k]
                if isinstance(it, RangeVal):
                    self.frame.forced_conds.append(z3.And(z3num(it.start) <= z3num(val), z3num(val) < z3num(it.stop)))
                else:
                    raise OutOfSubset("forced iteration over %r" % (it,))
                self.assign(node.target, val, env)
                try:
                    self.exec_block(node.body, env)
                except ContinueEx:
                    pass
                return
        if spec is not None and spec.abstract is not None:
            return self.loop_abstract(node, env, spec)
        if spec is not None and spec.summarise == "map":
            return self.for_map(node, env, it, spec)
        if spec is not None and spec.summarise == "stateless":
            return self.for_stateless(node, env, it, spec)
        if spec is not None and spec.invariants:
            return self.for_cut(node, env, it, spec)
        # unroll
        try:
            items = self.iter_concrete(it)
        except OutOfSubset:
            raise OutOfSubset("for loop (line %d) over %r needs a loop contract" % (node.lineno, it))
        if len(items) > UNROLL_LIMIT:
            raise OutOfSubset("for loop too long to unroll")
        broke = False
        for x in items:
            self.assign(node.target, x, env)
            try:
                self.exec_block(node.body, env)
            except BreakEx:
                broke = True
                break
            except ContinueEx:
                continue
        if not broke:
            self.exec_block(node.orelse, env)

    def loop_abstract(self, node, env, spec):
        """The loop is NOT verified here: it is replaced by an assumed summary (havoc of what it
        modifies + assumed facts).  Every use is listed among the unchecked assumptions."""
        self.poison_assigned(node.body + [ast.Assign(targets=[node.target], value=ast.Constant(0))] if isinstance(node, ast.For) else node.body,
                             env, "assigned in an abstracted loop")
        self.havoc_loop(spec, [], env)
        for name, expr in spec.abstract.get("assume", []):
            self.assume_spec(expr, env)
        self.note_assumption("ASSUMED loop summary in %s loop %d (%s): %s" % (
            self.frame.qualname, spec.ordinal, spec.abstract.get("why", ""), "; ".join(n for n, _ in spec.abstract.get("assume", []))))
        self.path.event("loop_abstract", spec.ordinal)

    def for_cut_opaque(self, node, env, it, spec):
        """Cut loop over an iterator whose items come from an assumed protocol (length unknown): the
        iteration branch takes an arbitrary next item allowed by the protocol; the exit branch assumes
        the invariant plus the protocol's exhaustion fact."""
        self.check_invariants(spec, env, "establish")
        if self.path.nondet("loop%d" % spec.ordinal):
            self.havoc_loop(spec, node.body, env)
            self.assume_invariants(spec, env)
            item, cond, k = self.externals.arbitrary_item(self, it, "it%d" % spec.ordinal)
            self.path.assume(cond)
            self.assign(node.target, item, env)
            if not hasattr(self.frame, "last_loop_item"):
                self.frame.last_loop_item = {}
            self.frame.last_loop_item[spec.ordinal] = item
            self.path.event("loop_iter", spec.ordinal, k, it)
            self.frame.active_hints = list(spec.hints)
            self.frame.hints_done = set()
            self.flush_hints(env)
            try:
                self.exec_block(node.body, env)
            except ContinueEx:
                pass
            except BreakEx:
                return
            self.path.event("loop_iter_end", spec.ordinal, k)
            self.check_invariants(spec, env, "preserve")
            raise PathEnd()
        self.havoc_loop(spec, node.body, env)
        self.assume_invariants(spec, env)
        fact = None
        for plug in self.externals.plugins:
            fn = getattr(plug, "exhausted_fact", None)
            if fn is not None:
                fact = fn(self, it)
                if fact is not None:
                    break
        if fact is not None:
            self.assume_spec_fact(fact)
        for name, expr in spec.exit_assume:
            self.assume_spec(expr, env)
            self.note_assumption("assumed at exhaustion of the iterator loop %d of %s: %s" % (spec.ordinal, self.frame.qualname, name))
        self.frame.active_hints = list(spec.hints)
        self.frame.hints_done = set()
        self.poison_assigned([ast.Assign(targets=[node.target], value=ast.Constant(0))], env, "loop variable after an iterator loop")
        self.exec_block(node.orelse, env)

    def assume_spec_fact(self, fact):
        self.path.assume(fact)

    def is_reyield(self, node):
        if len(node.body) != 1 or node.orelse:
            return False
        s = node.body[0]
        return (isinstance(s, ast.Expr) and isinstance(s.value, ast.Yield) and isinstance(s.value.value, ast.Name)
                and isinstance(node.target, ast.Name) and s.value.value.id == node.target.id)

    def arbitrary_item(self, it, label):
        """An arbitrary element of a symbolic iterable + the constraint placing it in range."""
        if isinstance(it, RangeVal):
            if it.step != 1:
                raise OutOfSubset("range step")
            i = z3.Int(fresh_name(label))
            return i, z3.And(z3num(it.start) <= i, i < z3num(it.stop)), i
        seq = it.seq if isinstance(it, GenVal) else it
        if isinstance(seq, SymSeq):
            k = z3.Int(fresh_name(label + "_k"))
            return seq.at(k), z3.And(k >= 0, k < seq.length), k
        if isinstance(it, (tuple, PyList)):
            items = it if isinstance(it, tuple) else it.items
            k = z3.Int(fresh_name(label + "_k"))
            cond = z3.And(k >= 0, k < len(items))
            if not items:
                return None, False, k
            return self.getitem(it, k), cond, k
        if self.externals is not None:
            r = self.externals.arbitrary_item(self, it, label)
            if r is not None:
                return r
        raise OutOfSubset("arbitrary element of %r" % (it,))

    def for_stateless(self, node, env, it, spec):
        """Body executed once for an arbitrary element; the body may not carry state from one
        iteration to the next (every name it assigns is poisoned first, so a read-before-write
        is out of subset), and may not break."""
        if self.path.nondet("loop%d" % spec.ordinal):
            item, cond, k = self.arbitrary_item(it, "it%d" % spec.ordinal)
            self.path.assume(cond)
            self.poison_assigned(node.body, env, "assigned in a stateless-summarised loop body")
            self.havoc_loop(spec, [], env)
            self.assume_invariants(spec, env)
            self.assign(node.target, item, env)
            if not hasattr(self.frame, "last_loop_item"):
                self.frame.last_loop_item = {}
            self.frame.last_loop_item[spec.ordinal] = item
            self.frame.loop_index = getattr(self.frame, "loop_index", {})
            self.frame.loop_index[spec.ordinal] = k
            self.path.event("loop_iter", spec.ordinal, k, it)
            try:
                self.exec_block(node.body, env)
            except ContinueEx:
                pass
            except BreakEx:
                raise OutOfSubset("break inside a stateless-summarised loop")
            self.check_invariants(spec, env, "preserve")
            self.path.event("loop_iter_end", spec.ordinal, k)
            raise PathEnd()
        self.poison_assigned([node], env, "assigned in a summarised loop")
        self.havoc_loop(spec, [], env)
        self.assume_invariants(spec, env)
        self.path.event("loop_summary", spec.ordinal, it)
        self.exec_block(node.orelse, env)

    def for_map(self, node, env, it, spec):
        """``for v in <sequence>: <straight-line assignments>; yield f(v)``: the loop yields the image of the
        sequence under f, element by element.  One branch executes the body for an ARBITRARY element (side
        obligations and per-item clauses are checked there); the other appends the mapped sequence."""
        seq = it.seq if isinstance(it, GenVal) else it
        if not isinstance(seq, SymSeq):
            raise OutOfSubset("map-summarised loop over %r" % (it,))
        body = node.body
        ok = (not node.orelse and len(body) >= 1 and isinstance(body[-1], ast.Expr) and isinstance(body[-1].value, ast.Yield)
              and all(isinstance(st, ast.Assign) and all(isinstance(t, ast.Name) for t in st.targets) for st in body[:-1])
              and not any(isinstance(x, (ast.Yield, ast.YieldFrom)) for st in body[:-1] for x in ast.walk(st)))
        if not ok:
            raise OutOfSubset("map-summarised loop body must be straight-line assignments followed by one yield")
        if self.path.nondet("loop%d" % spec.ordinal):
            item, cond, k = self.arbitrary_item(it, "it%d" % spec.ordinal)
            self.path.assume(cond)
            self.poison_assigned(node.body, env, "assigned in a map-summarised loop body")
            self.assign(node.target, item, env)
            self.path.event("loop_iter", spec.ordinal, k, it)
            self.exec_block(node.body, env)
            self.path.event("loop_iter_end", spec.ordinal, k)
            raise PathEnd()
        snap_env = Env(module=env.module)       # values as they are now (the mapped sequence is evaluated lazily)
        chain, e_ = [], env
        while e_ is not None:
            chain.append(e_)
            e_ = e_.parent
        for e_ in reversed(chain):
            snap_env.vars.update(e_.vars)

        def at(k, seq=seq, node=node, snap_env=snap_env):
            e2 = Env(parent=snap_env)
            self.spec_mode += 1
            try:
                self.assign(node.target, seq.at(k), e2)
                for st in node.body[:-1]:
                    v = self.eval(st.value, e2)
                    for t in st.targets:
                        e2.set(t.id, v)
                yv = node.body[-1].value.value
                return self.eval(yv, e2) if yv is not None else None
            finally:
                self.spec_mode -= 1
        mapped = SymSeq(seq.length, at, "map")
        mapped.source = seq
        self.frame.ytrace.add_seq(mapped)
        self.path.event("yield_seq", mapped)
        self.poison_assigned([node], env, "assigned in a map-summarised loop")

    def for_cut(self, node, env, it, spec):
        """Cut a for loop at an inductive invariant.  The ghost name ``spec.ghost`` (default
        ``_k``) is the number of completed iterations; for ``range`` loops the loop variable
        itself denotes the next value."""
        ghost = spec.ghost or "_k"
        if isinstance(it, RangeVal):
            if it.step != 1:
                raise OutOfSubset("range step")
            start, stop = z3num(it.start), z3num(it.stop)
            length = z3.If(stop > start, stop - start, 0)

            def elem(k):
                return simp(start + k)
        else:
            seq = it.seq if isinstance(it, GenVal) else it
            if isinstance(seq, (tuple, PyList)):
                items = list(seq if isinstance(seq, tuple) else seq.items)
                length = z3.IntVal(len(items))

                def elem(k, _it=seq):
                    return self.getitem(_it, k)
            elif isinstance(seq, SymSeq):
                length = z3num(seq.length)

                def elem(k, _s=seq):
                    return _s.at(k)
            elif isinstance(seq, Opaque) and self.externals is not None and self.externals.arbitrary_item(self, seq, "probe") is not None:
                return self.for_cut_opaque(node, env, seq, spec)
            else:
                raise OutOfSubset("for loop with invariant over %r" % (it,))
        env.set(ghost, 0)
        self.check_invariants(spec, env, "establish")
        k = z3.Int(fresh_name(ghost))
        if self.path.nondet("loop%d" % spec.ordinal):
            self.havoc_loop(spec, node.body, env)
            env.set(ghost, k)
            self.path.assume(z3.And(k >= 0, k < length))
            self.assume_invariants(spec, env)
            self.assign(node.target, elem(k), env)
            try:
                self.exec_block(node.body, env)
            except ContinueEx:
                pass
            except BreakEx:
                return
            env.set(ghost, simp(k + 1))
            self.check_invariants(spec, env, "preserve")
            raise PathEnd()
        self.havoc_loop(spec, node.body, env)
        env.set(ghost, k)
        self.path.assume(k == length)
        self.assume_invariants(spec, env)
        # python leaves the loop variable at the last element (unbound if there was none)
        if self.path.choose(simp(length >= 1)):
            self.assign(node.target, elem(simp(length - 1)), env)
        else:
            self.poison_assigned([ast.Assign(targets=[node.target], value=ast.Constant(0))], env, "loop variable of an empty loop")
        self.exec_block(node.orelse, env)


class ExcObj(object):
    """The object bound by ``except E as e``; only ``e.errno`` is modelled (symbolic int)."""

    def __init__(self, ex):
        self.ex = ex
        self.errno = z3.Int(fresh_name("errno"))
