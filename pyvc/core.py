"""Path exploration by re-execution, path conditions and obligations.

The symbolic interpreter is a plain recursive evaluator.  Whenever it needs to
branch on a symbolic condition it calls ``Path.choose``; the explorer re-runs
the whole function once per decision script (depth-first), so no state copying
is needed and a branch may occur anywhere (statement or expression).
"""
import fractions
import itertools

import z3


class OutOfSubset(Exception):
    """The code uses a construct the encoding does not cover: undecided, never a verdict."""


class PathEnd(Exception):
    """The current path ends here (e.g. after an arbitrary loop iteration was checked)."""


class ReturnEx(Exception):
    def __init__(self, value):
        self.value = value


class BreakEx(Exception):
    pass


class ContinueEx(Exception):
    pass


class PyRaise(Exception):
    """A Python exception raised by the code under analysis."""

    def __init__(self, etype, args=(), origin=None):
        Exception.__init__(self, etype)
        self.etype = etype      # class name as a string, e.g. 'ValueError'
        self.eargs = args
        self.origin = origin    # description of where it was raised


EXC_PARENTS = {
    "ValueError": "Exception",
    "KeyError": "LookupError",
    "IndexError": "LookupError",
    "LookupError": "Exception",
    "TypeError": "Exception",
    "AttributeError": "Exception",
    "AssertionError": "Exception",
    "StopIteration": "Exception",
    "NotImplementedError": "RuntimeError",
    "RuntimeError": "Exception",
    "ZeroDivisionError": "ArithmeticError",
    "ArithmeticError": "Exception",
    "FileNotFoundError": "OSError",
    "IOError": "OSError",       # alias in Python 3
    "OSError": "Exception",
    "Empty": "Exception",
    "CallbackError": "Exception",
    "Full": "Exception",
    "BodyError": "Exception",
    "Timeout": "OSError",
    "WorkerFailedError": "Exception",
    "Exception": "BaseException",
    "KeyboardInterrupt": "BaseException",
}


def exc_isinstance(etype, handler):
    if handler == "IOError":
        handler = "OSError"
    if etype == "IOError":
        etype = "OSError"
    t = etype
    while t is not None:
        if t == handler:
            return True
        t = EXC_PARENTS.get(t)
    return False


class Obligation(object):
    __slots__ = ("name", "hyps", "goal", "info", "kind")

    def __init__(self, name, hyps, goal, info=None, kind="assert"):
        self.name = name
        self.hyps = list(hyps)
        self.goal = goal
        self.info = info or {}
        self.kind = kind


_fresh_counter = itertools.count()


def fresh_name(prefix):
    return "%s!%d" % (prefix, next(_fresh_counter))


def is_z3(v):
    return isinstance(v, z3.ExprRef)


def is_bool_like(v):
    return isinstance(v, bool) or (is_z3(v) and z3.is_bool(v))


def to_frac(f):
    return fractions.Fraction(f)


def z3num(v):
    """Python number / z3 arith -> z3 arith."""
    if is_z3(v):
        return v
    if isinstance(v, bool):
        return z3.IntVal(1 if v else 0)
    if isinstance(v, int):
        return z3.IntVal(v)
    if isinstance(v, float):
        fr = fractions.Fraction(v)
        return z3.RealVal(str(fr.numerator)) / z3.RealVal(str(fr.denominator)) if fr.denominator != 1 else z3.RealVal(str(fr.numerator))
    if isinstance(v, fractions.Fraction):
        if v.denominator == 1:
            return z3.RealVal(str(v.numerator))
        return z3.RealVal(str(v.numerator)) / z3.RealVal(str(v.denominator))
    raise OutOfSubset("not a number: %r" % (v,))


def z3bool(v):
    if is_z3(v):
        if z3.is_bool(v):
            return v
        raise OutOfSubset("not a boolean term: %s" % v)
    if isinstance(v, bool):
        return z3.BoolVal(v)
    raise OutOfSubset("not a boolean: %r" % (v,))


_HQ_CACHE = {}


FEASIBILITY_RLIMIT = 3000000


def _has_quantifier(e):
    k = e.get_id()
    if k in _HQ_CACHE:
        return _HQ_CACHE[k]
    r = _has_quantifier_uncached(e)
    if len(_HQ_CACHE) > 200000:
        _HQ_CACHE.clear()
    _HQ_CACHE[k] = r
    return r


def _has_quantifier_uncached(e):
    stack, seen = [e], set()
    while stack:
        t = stack.pop()
        if t.get_id() in seen:
            continue
        seen.add(t.get_id())
        if z3.is_quantifier(t):
            return True
        if z3.is_app(t):
            stack.extend(t.children())
    return False


class Path(object):
    """State of one execution path."""

    def __init__(self, script, prune=True):
        self.script = list(script)
        self.decisions = []
        self.branch_points = []   # indexes (>= len(script)) whose alternative is unexplored
        self.pc = []
        self.obligations = []
        self.events = []          # ghost event trace
        self.prune = prune
        self.notes = []
        self.tags = {}            # z3 ast id of a hypothesis -> tag ("clause name" of a callee contract)
        self._solver = None

    # -- path condition -------------------------------------------------
    def assume(self, cond, tag=None):
        if isinstance(cond, bool):
            if not cond:
                raise PathEnd()
            return
        self.pc.append(cond)
        if tag is not None:
            self.tags[cond.get_id()] = tag

    def _feasible(self, extra):
        s = z3.Solver()
        # a RESOURCE limit, not a time-out: the answer (and with it the set of explored paths) is the same on an
        # idle and on a busy machine, in every worker process
        s.set("rlimit", FEASIBILITY_RLIMIT)
        # quantified hypotheses are left out: pruning only needs an over-approximation, and
        # the ground part answers in milliseconds
        for h in self.pc:
            if not _has_quantifier(h):
                s.add(h)
        s.add(extra)
        return s.check() != z3.unsat

    def choose(self, cond, label=None):
        """Branch on ``cond`` (python bool or z3 Bool); returns the python bool taken."""
        if isinstance(cond, bool):
            return cond
        cond = z3.simplify(cond)
        if z3.is_true(cond):
            return True
        if z3.is_false(cond):
            return False
        idx = len(self.decisions)
        if idx < len(self.script):
            d = self.script[idx]
            self.decisions.append(d)
            self.pc.append(cond if d else z3.Not(cond))
            return d
        if self.prune:
            t_ok = self._feasible(cond)
            f_ok = self._feasible(z3.Not(cond))
            if t_ok and not f_ok:
                self.decisions.append(True)      # forced: recorded so that replays stay aligned
                self.pc.append(cond)
                return True
            if f_ok and not t_ok:
                self.decisions.append(False)
                self.pc.append(z3.Not(cond))
                return False
            if not t_ok and not f_ok:
                raise PathEnd()
        self.decisions.append(True)
        self.branch_points.append(idx)
        self.pc.append(cond)
        return True

    def nondet(self, label=None):
        """Unconditional binary choice (both explored)."""
        idx = len(self.decisions)
        if idx < len(self.script):
            d = self.script[idx]
            self.decisions.append(d)
            return d
        self.decisions.append(True)
        self.branch_points.append(idx)
        return True

    # -- obligations ----------------------------------------------------
    def oblige(self, name, goal, info=None, kind="assert", assume_after=True, uses=None, drop=None):
        if isinstance(goal, bool):
            goal = z3.BoolVal(goal)
        hyps = self.pc
        if uses is not None:
            hyps = [h for h in self.pc if self.tags.get(h.get_id()) is None or self.tags[h.get_id()] in uses]
        if drop:
            hyps = [h for h in hyps if self.tags.get(h.get_id()) not in drop]
        self.obligations.append(Obligation(name, hyps, goal, info, kind))
        if assume_after:
            self.pc.append(goal)

    def event(self, *ev):
        self.events.append(ev)


def explore(run, max_paths=4000, prune=True, shard=None):
    """Run ``run(path)`` for every decision script.  Returns the list of finished paths.

    Splitting one function's exploration over processes (``shard``):
      ("frontier", n)   breadth-first until at least n subtrees are pending (or none is left); returns the paths run so
                        far and leaves the pending decision prefixes in ``explore.pending`` for the caller to deal out;
      ("subtrees", [prefix, ...])   explore exactly the subtrees below the given decision prefixes.
    The frontier is computed ONCE (by one process) and the prefixes are handed over explicitly, so the union over the
    workers is the unsharded exploration whatever the timing of the feasibility checks in the different processes."""
    done = []
    explore.pending = []

    def run_one(script):
        p = Path(script, prune=prune)
        try:
            run(p)
        except PathEnd:
            pass
        return p

    if shard is not None and shard[0] == "frontier":
        n = shard[1]
        stack = [[]]
        while stack and len(stack) < n:
            script = stack.pop(0)
            p = run_one(script)
            done.append(p)
            for idx in reversed(p.branch_points):
                stack.append(p.decisions[:idx] + [False])
        explore.pending = stack
        return done
    stack = [list(x) for x in shard[1]] if (shard is not None and shard[0] == "subtrees") else [[]]
    while stack:
        script = stack.pop()
        p = run_one(script)
        done.append(p)
        for idx in reversed(p.branch_points):
            stack.append(p.decisions[:idx] + [False])
        if len(done) > max_paths:
            raise OutOfSubset("path explosion (> %d paths)" % max_paths)
    return done
