"""Generators whose trace is a *family* F(i, j, ...) over (nested) stateless loops.

``family_items`` re-executes the loop nest of the function under verification with the loop
variables forced to given (symbolic) values and returns what one such iteration yields,
together with the condition that the indices lie in the loops' ranges.  Cover / uniqueness /
length clauses are stated over that family."""
import ast

import z3

from . import ops
from .core import OutOfSubset, PathEnd, z3num, fresh_name, z3bool
from .interp import Env, Frame, RangeVal


def loop_nodes(fr):
    nodes = [n for n in Frame._walk_own(fr.node) if isinstance(n, (ast.For, ast.While))]
    nodes.sort(key=lambda n: (n.lineno, n.col_offset))
    return nodes


def family_items(m, fr, env, forced):
    """forced: {loop ordinal: value}.  Returns (in_range condition, [items yielded])."""
    loops = loop_nodes(fr)
    top = loops[min(forced)]
    e2 = Env(parent=env)
    fr.forced_iter = dict(forced)
    fr.forced_conds = []
    before = len(fr.ytrace.segs)
    saved_c = fr.suppress_yield_checks = True
    try:
        m.exec_stmt(top, e2)
    finally:
        fr.forced_iter = None
        fr.suppress_yield_checks = False
    items = [v for k, v in fr.ytrace.segs[before:] if k == "item"]
    del fr.ytrace.segs[before:]
    return ops.conj(fr.forced_conds), items


def range_of(m, fr, env, ordinal):
    node = loop_nodes(fr)[ordinal]
    it = m.eval(node.iter, env)
    if not isinstance(it, RangeVal) or it.step != 1:
        raise OutOfSubset("family loop %d is not a unit-step range" % ordinal)
    return it


def yields_cover(forall_vars, forall, witness, holds, unique=True, name="cover"):
    """Post hook factory.  ``forall_vars``: names of fresh Int variables; ``forall``: clause
    restricting them; ``witness``: {loop ordinal: expression giving the index}; ``holds``:
    clause over ``item`` saying the item covers the point."""

    def hook(m, path, fr, env, outcome, value, exc):
        if outcome != "return":
            return
        spec_env = Env(parent=fr.entry_env)
        pts = {}
        for v in forall_vars:
            pts[v] = z3.Int(fresh_name(v))
        saved_pc = list(path.pc)
        path.assume(m.spec(forall, spec_env, extra=pts))
        # work in the function's final environment (pre-loop locals are intact there)
        wenv = Env(parent=env)
        wenv.vars.update(pts)
        forced = {k: m.spec_value(expr, wenv) for k, expr in witness.items()}
        in_range, items = family_items(m, fr, env, forced)
        if len(items) != 1:
            raise OutOfSubset("family iteration yields %d items" % len(items))
        ex = dict(pts)
        ex["item"] = items[0]
        path.oblige(m.oblname("yields_cover/%s/witness_in_range" % name), in_range, kind="ensures", assume_after=False)
        path.oblige(m.oblname("yields_cover/%s/witness_covers" % name), m.spec(holds, spec_env, extra=ex), kind="ensures", assume_after=False)
        if unique:
            other = {k: z3.Int(fresh_name("other%d" % k)) for k in witness}
            in_range2, items2 = family_items(m, fr, env, other)
            ex2 = dict(pts)
            ex2["item"] = items2[0]
            h = ops.conj([in_range2, m.spec(holds, spec_env, extra=ex2)])
            same = ops.conj([ops.equals(m, other[k], forced[k]) for k in witness])
            path.oblige(m.oblname("yields_cover/%s/unique" % name), ops.implies(h, same), kind="ensures", assume_after=False)
        path.pc[:] = saved_pc

    return hook


def yields_count(expr, ordinals, name="count"):
    """Post hook: the number of items (product of the nested range lengths, one yield per
    innermost iteration) equals ``expr`` (a clause-language expression)."""

    def hook(m, path, fr, env, outcome, value, exc):
        if outcome != "return":
            return
        total = 1
        for k in ordinals:
            r = range_of(m, fr, env, k)
            ln = ops.binop(m, "-", r.stop, r.start)
            ln = ops.ite(ops.compare(m, ">", ln, 0), ln, 0)
            total = ops.binop(m, "*", total, ln)
        # exactly one yield per innermost iteration
        forced = {k: z3.Int(fresh_name("cnt%d" % k)) for k in ordinals}
        _, items = family_items(m, fr, env, forced)
        path.oblige(m.oblname("yields_count/%s/one_item_per_iteration" % name), z3.BoolVal(len(items) == 1), kind="ensures", assume_after=False)
        spec_env = Env(parent=fr.entry_env)
        want = m.spec_value(expr, spec_env)
        path.oblige(m.oblname("yields_count/%s/equals" % name), ops.equals(m, total, want), kind="ensures", assume_after=False)

    return hook
