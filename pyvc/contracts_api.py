"""Sidecar contract language.

Contracts live in /verif/contracts/*.py and are keyed by the *qualified name* of the real
function in /repo (and by loop ordinal inside it); nothing under /repo is edited.  Clauses
are python expression strings: they are parsed with ``ast`` and evaluated by the same
symbolic evaluator that executes the function body (D-tier), and by ``eval`` on concrete
values in the R-tier / replay.
"""


class LoopSpec(object):
    def __init__(self, ordinal, invariants=(), decreases=None, summarise=None, types=None,
                 havoc=(), unroll=None, item_type=None, note=None, ghost=None, frame=None, abstract=None, hints=(), sk_hints=(), exit_assume=(), yield_ghost=None, only_cases=None):
        self.ordinal = ordinal
        self.invariants = list(invariants)   # [(name, expr)]
        self.decreases = decreases
        self.summarise = summarise           # None | 'stateless'
        self.types = dict(types or {})       # var -> type string for havocked variables
        self.havoc = list(havoc)             # extra object names to havoc
        self.unroll = unroll
        self.item_type = item_type
        self.note = note
        self.ghost = ghost
        self.frame = frame
        self.exit_assume = list(exit_assume)   # [(name, expr)] protocol facts ASSUMED when an iterator loop is exhausted
        self.sk_hints = list(sk_hints)    # same, relative to the bound variables of the goal being proved
        self.hints = list(hints)          # expressions (positions) at which quantified facts are instantiated
        self.yield_ghost = yield_ghost    # (name, elem type): ghost sequence of the items yielded by the loop so far (cut loops)
        self.only_cases = only_cases      # predicate over the contract case: the loop contract applies to these cases only (others: plain execution)
        self.abstract = abstract          # {"assume": [(name, expr)], "why": text}: loop replaced by an ASSUMED summary


class Contract(object):
    def __init__(self, qualname):
        self.qualname = qualname
        self.arg_types = {}
        self.self_fields = None      # field name -> type (for methods)
        self.self_class = None
        self.requires_ = []          # [(name, expr)]
        self.ensures_ = []           # [(name, expr, opts)]
        self.raises_ = []            # [(etype, when-expr)]  "raises etype iff when"
        self.may_raise_ = []         # [(etype, note)] exceptions that may propagate from callees/externals (frame)
        self.returns_ = None         # type string
        self.decreases_ = None
        self.loops = {}
        self.cases_ = None           # list of dicts: arg -> python value or type string
        self.inline_ = False
        self.yields_each_ = []       # [(name, expr)]
        self.yields_type_ = None
        self.yields_seq_ = []        # [(name, expr over Y)]
        self.hints_ = []
        self.modifies_ = []
        self.notes = []
        self.trusted_ = False        # external / assumed contract (not verified against a body)
        self.pure_ = True
        self.replay_ = None
        self.env_ = {}               # extra names visible to the clauses (spec functions)
        self.result_names_ = None
        self.event_clauses_ = []     # [(name, python callable(trace_events, ctx) -> z3 Bool)]
        self.path_hooks_ = []        # python callables run for EVERY path (also paths ended inside loops)
        self.post_hooks_ = []        # python callables(run_ctx) adding obligations at exit
        self.setup_ = None           # python callable(interp, path) -> dict of arg values (custom symbolic inputs)
        self.assumes_ = []           # [(name, expr)] assumptions (listed in evidence, never silently)
        self.globals_ = {}           # module-global overrides for this function (name -> python value)
        self.locals_ = {}            # local name -> "<kind> => <type>" (typed model of a local object)
        self.uses_ = {}              # clause name -> callee clause names whose facts may be used
        self.model_ = None           # python callable(interp, call_env) -> result: programmable ASSUMED behaviour of a callee
        self.init_fields_ = None     # for __init__ contracts: field -> type of the constructed object
        self.native_checks = []
        self.shards_ = 1             # path exploration of this function is split over this many worker processes

    # ---- declaration helpers (fluent) ----
    def args(self, **types):
        self.arg_types.update(types)
        return self

    def self_type(self, cls, **fields):
        self.self_class = cls
        self.self_fields = dict(fields)
        return self

    def init_fields(self, **fields):
        self.init_fields_ = dict(fields)
        return self

    def native(self, fn):
        self.native_checks.append(fn)
        return self

    def requires(self, expr, name=None):
        self.requires_.append((name or "requires%d" % len(self.requires_), expr))
        return self

    def ensures(self, expr, name=None, **opts):
        self.ensures_.append((name or "ensures%d" % len(self.ensures_), expr, opts))
        return self

    def raises(self, etype, when):
        self.raises_.append((etype, when))
        return self

    def may_raise(self, etype, note=""):
        self.may_raise_.append((etype, note))
        return self

    def returns(self, t):
        self.returns_ = t
        return self

    def decreases(self, expr):
        self.decreases_ = expr
        return self

    def loop(self, ordinal, **kw):
        invs = kw.pop("invariant", None) or []
        if isinstance(invs, str):
            invs = [invs]
        named = []
        for k, iv in enumerate(invs):
            if isinstance(iv, tuple):
                named.append(iv)
            else:
                named.append(("inv%d" % k, iv))
        self.loops[ordinal] = LoopSpec(ordinal, invariants=named, **kw)
        return self

    def cases(self, *cases):
        self.cases_ = list(cases)
        return self

    def shards(self, n):
        self.shards_ = n
        return self

    def inline(self):
        self.inline_ = True
        return self

    def yields(self, t):
        self.yields_type_ = t
        return self

    def yields_each(self, expr, name=None):
        self.yields_each_.append((name or "yields_each%d" % len(self.yields_each_), expr))
        return self

    def yields_seq(self, expr, name=None, uses=None):
        name = name or "yields_seq%d" % len(self.yields_seq_)
        self.yields_seq_.append((name, expr))
        if uses is not None:
            self.uses_[name] = list(uses)
        return self

    def trusted(self, note=""):
        self.trusted_ = True
        if note:
            self.notes.append(note)
        return self

    def assume(self, expr, name=None):
        self.assumes_.append((name or "assume%d" % len(self.assumes_), expr))
        return self

    def note(self, text):
        self.notes.append(text)
        return self

    def names(self, **kw):
        self.env_.update(kw)
        return self

    def replay(self, fn):
        self.replay_ = fn
        return self

    def setup(self, fn):
        self.setup_ = fn
        return self

    def post(self, fn):
        self.post_hooks_.append(fn)
        return self

    def local(self, **decls):
        self.locals_.update(decls)
        return self

    def model(self, fn):
        self.model_ = fn
        return self

    def on_path(self, fn):
        self.path_hooks_.append(fn)
        return self

    def module_globals(self, **kw):
        self.globals_.update(kw)
        return self


class Registry(object):
    def __init__(self):
        self.contracts = {}
        self.lemmas = {}        # name -> Lemma
        self.spec_funcs = {}    # name -> python callable on symbolic values

    def contract(self, qualname):
        def deco(fn):
            c = self.contracts.get(qualname)
            if c is None:
                c = Contract(qualname)
                self.contracts[qualname] = c
            fn(c)
            return c
        return deco

    def get(self, qualname):
        return self.contracts.get(qualname)

    def spec(self, fn):
        self.spec_funcs[fn.__name__] = fn
        return fn

    def lemma(self, name, **kw):
        def deco(fn):
            self.lemmas[name] = Lemma(name, fn, **kw)
            return fn
        return deco


class Lemma(object):
    """A mathematical lemma checked by the solver each run, independent of the code.
    ``fn(L)`` receives a LemmaCtx: declares variables, adds hypotheses, states goals."""

    def __init__(self, name, fn, uses=()):
        self.name = name
        self.fn = fn
        self.uses = uses


REGISTRY = Registry()
contract = REGISTRY.contract
spec = REGISTRY.spec
lemma = REGISTRY.lemma
