"""Opaque spec predicates with lemma-backed axioms.

A theory is an uninterpreted symbol plus quantified axioms (with explicit triggers) that are
added to a query only when the symbol occurs in it.  Every axiom must be *proved* by a lemma
(pyvc.lemmas) against the symbol's arithmetic definition; the lemma names are recorded so the
check can insist that they were discharged in the same run."""

THEORIES = {}


def register_theory(symbol, axioms_fn, lemmas=()):
    THEORIES[symbol] = (axioms_fn, tuple(lemmas))


def axioms_for(smt2_text):
    out, used, seen = [], [], set()
    for sym, (fn, lemmas) in THEORIES.items():
        if "(declare-fun %s " % sym in smt2_text:
            if id(fn) not in seen:
                seen.add(id(fn))
                out.extend(fn())
            used.append(sym)
    return out, used
