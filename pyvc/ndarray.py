"""numpy arrays as *functional* arrays: the content of an array is a python closure from an
index tuple (Int terms) to an element value, so reads at a symbolic index just evaluate the
closure and writes replace it by an if-then-else closure — no quantifiers, no z3 arrays.

Assumed numpy contracts (DESIGN §3.1; each is conformance-tested at run time by rt/conf_numpy):
basic slicing follows ``slice.indices`` (negative bounds, None, step ±1); a basic-slice view
aliases its base; ``a.fill(v)``; slice assignment broadcasts a scalar or copies an equal-shape
array (ValueError on shape mismatch); ``np.putmask(dst, mask, src)`` with equal shapes;
elementwise comparison / ``~`` / ``&`` / ``|`` / ``np.isnan``; ``np.any/np.all`` along the
last axis or overall; ``np.broadcast_to(v[..., None], shape)``; ``reshape((h,2,w,2)+rest)``
maps [R,a,C,b] to [2R+a, 2C+b]; ``np.nanmean(axis=(1,3))`` = mean of the non-NaN of the four
(NaN iff all are NaN); ``astype`` of an in-range value is the C cast.

Element values: ints are Int terms, bools Bool terms, floats are ``FPix(nan, val)``.
"""
import fractions

import z3

from . import ops
from .core import OutOfSubset, PyRaise, is_z3, z3num, z3bool, fresh_name
from .values import (NTuple, SliceVal, BoundMethod, Ext, Opaque, PyList, EnumVal)
from .ops import simp

FLOAT_DTYPES = ("f16", "f32", "f64", "real")
INT_RANGES = {"u8": (0, 255), "i16": (-32768, 32767), "i32": (-2 ** 31, 2 ** 31 - 1)}
DTYPE_NAMES = {"numpy.uint8": "u8", "numpy.int16": "i16", "numpy.int32": "i32", "numpy.float16": "f16",
               "numpy.float32": "f32", "numpy.float64": "f64", "builtin:int": "int", "builtin:float": "f64",
               "builtin:bool": "bool"}
DTYPE_INFO = {"u8": ("u", 1), "i16": ("i", 2), "i32": ("i", 4), "f16": ("f", 2), "f32": ("f", 4), "f64": ("f", 8),
              "bool": ("b", 1), "int": ("i", 8)}


class FPix(object):
    """A floating-point element: NaN flag, infinity flag, real value (meaningful when neither flag is set).

    ``inf`` says that the element is +inf or -inf: a DEFINED value for toasty (only NaN is "undefined"), which
    ``np.isfinite`` nevertheless rejects.  Arithmetic and ordering on infinite elements are not modelled (the result's
    flag is left open); masks, copies and equality are."""

    __slots__ = ("nan", "val", "inf")

    def __init__(self, nan, val, inf=False):
        self.nan, self.val, self.inf = nan, val, inf

    def __repr__(self):
        return "FPix(nan=%s, inf=%s, %s)" % (self.nan, self.inf, self.val)


NAN = FPix(True, z3.RealVal(0))


def is_nan(v):
    if isinstance(v, FPix):
        return v.nan
    return False


def same_elem(a, b):
    """Element equality as 'same stored value' (NaN equals NaN)."""
    if isinstance(a, FPix) or isinstance(b, FPix):
        a, b = to_fpix(a), to_fpix(b)
        same_inf = ops.disj([ops.conj([a.inf, b.inf]), ops.conj([ops.negate(a.inf), ops.negate(b.inf)])])
        return ops.disj([ops.conj([a.nan, b.nan]),
                         ops.conj([ops.negate(a.nan), ops.negate(b.nan), same_inf, simp(z3num(a.val) == z3num(b.val))])])
    if isinstance(a, bool) or isinstance(b, bool) or (is_z3(a) and z3.is_bool(a)):
        return simp(z3bool(a) == z3bool(b))
    return simp(z3num(a) == z3num(b))


def to_fpix(v):
    if isinstance(v, FPix):
        return v
    z = z3num(v)
    return FPix(False, z3.ToReal(z) if z3.is_int(z) else z)


def elem_ite(c, a, b):
    if isinstance(c, bool):
        return a if c else b
    if isinstance(a, FPix) or isinstance(b, FPix):
        a, b = to_fpix(a), to_fpix(b)
        return FPix(ops.ite(c, a.nan, b.nan), ops.ite(c, a.val, b.val), ops.ite(c, a.inf, b.inf))
    return ops.ite(c, a, b)


class Dtype(object):
    _pyvc_eq = True

    def __init__(self, name):
        self.name = name

    @property
    def kind(self):
        return DTYPE_INFO[self.name][0]

    @property
    def itemsize(self):
        return DTYPE_INFO[self.name][1]

    def __eq__(self, other):
        return isinstance(other, Dtype) and other.name == self.name

    def __hash__(self):
        return hash(self.name)

    def __repr__(self):
        return "dtype(%s)" % self.name


class NdArr(object):
    def __init__(self, shape, dtype, fn, label="arr", writeable=True):
        self.shape = tuple(shape)
        self.dtype = dtype
        self.fn = fn
        self.label = label
        self.writeable = writeable
        self.base = None          # (base NdArr, to_base(idx) -> base idx)  for views

    # -- content ---------------------------------------------------------
    def at(self, idx):
        idx = tuple(idx)
        if self.base is not None:
            b, to_base = self.base
            return b.at(to_base(idx))
        return self.fn(idx)

    def in_bounds(self, idx):
        return ops.conj([ops.conj([ops.compare(None, ">=", i, 0), ops.compare(None, "<", i, n)]) for i, n in zip(idx, self.shape)])

    def write(self, pred_and_value):
        """pred_and_value(idx) -> (cond, value): element idx becomes value where cond holds."""
        if self.base is not None:
            b, to_base = self.base
            inv = self.from_base
            shape = self.shape

            def pv(bidx, inv=inv, f=pred_and_value):
                inside, vidx = inv(bidx)
                cond, val = f(vidx)
                return ops.conj([inside, cond]), val

            b.write(pv)
            return
        old = self.fn

        def new(idx, old=old, f=pred_and_value):
            cond, val = f(idx)
            if cond is False:
                return old(idx)
            if cond is True:
                return val
            return elem_ite(cond, val, old(idx))

        self.fn = new

    def snapshot(self, memo):
        if self.base is not None:
            b = self.base[0]
            nb = memo.get(id(b)) or b.snapshot(memo)
            memo[id(b)] = nb
            v = NdArr(self.shape, self.dtype, None, self.label, self.writeable)
            v.base = (nb, self.base[1])
            v.from_base = self.from_base
            return v
        return NdArr(self.shape, self.dtype, self.fn, self.label, self.writeable)

    @property
    def ndim(self):
        return len(self.shape)

    def __repr__(self):
        return "<NdArr %s %s %s>" % (self.label, self.dtype, self.shape)


def fresh_array(shape, dtype, label, interp=None):
    """An array with arbitrary (uninterpreted) content of the given dtype; integer dtypes get the
    range of the machine type as a fact per read (type invariant of a valid numpy array)."""
    nd = len(shape)
    name = fresh_name(label)
    if dtype in FLOAT_DTYPES:
        fv = z3.Function(name + ".val", *([z3.IntSort()] * nd + [z3.RealSort()]))
        fn_ = z3.Function(name + ".nan", *([z3.IntSort()] * nd + [z3.BoolSort()]))
        fi_ = z3.Function(name + ".inf", *([z3.IntSort()] * nd + [z3.BoolSort()]))

        def elem(idx):
            ii = [z3num(i) for i in idx]
            # an element is NaN, infinite, or finite: never NaN and infinite at once
            return FPix(fn_(*ii), fv(*ii), z3.And(fi_(*ii), z3.Not(fn_(*ii))))
        return NdArr(shape, dtype, elem, label)
    if dtype == "bool":
        f = z3.Function(name, *([z3.IntSort()] * nd + [z3.BoolSort()]))
        return NdArr(shape, dtype, lambda idx: f(*[z3num(i) for i in idx]), label)
    f = z3.Function(name, *([z3.IntSort()] * nd + [z3.IntSort()]))
    arr = NdArr(shape, dtype, lambda idx: f(*[z3num(i) for i in idx]), label)
    arr.int_fn = f
    return arr


def elem_range_fact(arr, v):
    """Type invariant of an integer element."""
    if arr.dtype in INT_RANGES and is_z3(v):
        lo, hi = INT_RANGES[arr.dtype]
        return z3.And(v >= lo, v <= hi)
    return None


# ---------------------------------------------------------------------------
# slices

def norm_slice(sl, n):
    """python slice semantics (slice.indices) -> (start, step, length) with symbolic bounds."""
    step = 1 if sl.step is None else sl.step
    if not isinstance(step, int) or step == 0:
        raise OutOfSubset("slice step %r" % (step,))
    n = z3num(n)

    def clamp(v, lo, hi):
        return z3.If(v < lo, lo, z3.If(v > hi, hi, v))

    if step > 0:
        start = z3.IntVal(0) if sl.start is None else (lambda s: clamp(z3.If(s < 0, s + n, s), z3.IntVal(0), n))(z3num(sl.start))
        stop = n if sl.stop is None else (lambda s: clamp(z3.If(s < 0, s + n, s), z3.IntVal(0), n))(z3num(sl.stop))
        length = z3.If(stop > start, (stop - start + step - 1) / step, 0)
    else:
        start = n - 1 if sl.start is None else (lambda s: clamp(z3.If(s < 0, s + n, s), z3.IntVal(-1), n - 1))(z3num(sl.start))
        stop = z3.IntVal(-1) if sl.stop is None else (lambda s: clamp(z3.If(s < 0, s + n, s), z3.IntVal(-1), n - 1))(z3num(sl.stop))
        length = z3.If(start > stop, (start - stop + (-step) - 1) / (-step), 0)
    return simp(start), step, simp(length)


def index_view(interp, arr, idx):
    """arr[idx] for basic indexing (ints, slices, Ellipsis, None): returns a view NdArr, or the
    element when every axis is indexed by an integer."""
    if not isinstance(idx, tuple):
        idx = (idx,)
    # expand Ellipsis
    n_real = len([i for i in idx if not (isinstance(i, Ext) and i.name == "Ellipsis") and i is not None])
    out = []
    for i in idx:
        if isinstance(i, Ext) and i.name == "Ellipsis":
            out.extend([SliceVal(None, None, None)] * (arr.ndim - n_real))
        else:
            out.append(i)
    idx = out
    n_real = len([i for i in idx if i is not None])
    if n_real > arr.ndim:
        raise PyRaise("IndexError", origin="too many indices for array")
    idx = idx + [SliceVal(None, None, None)] * (arr.ndim - n_real)
    plan = []     # per base axis: ('int', i) | ('slice', start, step, length)
    new_shape = []
    view_axes = []   # for each view axis: ('base', k) | ('new',)
    ax = 0
    for i in idx:
        if i is None:
            new_shape.append(1)
            view_axes.append(("new",))
            continue
        n = arr.shape[ax]
        if isinstance(i, SliceVal):
            start, step, length = norm_slice(i, n)
            plan.append(("slice", start, step, length))
            view_axes.append(("base", ax))
            new_shape.append(length)
        else:
            i = z3num(i) if not isinstance(i, int) else i
            eff = simp(z3.If(z3num(i) < 0, z3num(i) + z3num(n), z3num(i)))
            interp.side_obligation("array_index_in_range", z3.And(z3num(eff) >= 0, z3num(eff) < z3num(n)))
            plan.append(("int", eff))
        ax += 1
    if not new_shape and all(p[0] == "int" for p in plan):
        return arr.at(tuple(p[1] for p in plan))

    def to_base(vidx, plan=plan, view_axes=view_axes):
        pos = {}
        k = 0
        for va, vi in zip(view_axes, vidx):
            if va[0] == "base":
                pos[va[1]] = vi
        bidx = []
        for a, p in enumerate(plan):
            if p[0] == "int":
                bidx.append(p[1])
            else:
                bidx.append(simp(p[1] + p[2] * z3num(pos[a])))
        return tuple(bidx)

    def from_base(bidx, plan=plan, view_axes=view_axes):
        conds = []
        per_axis = {}
        for a, p in enumerate(plan):
            j = z3num(bidx[a])
            if p[0] == "int":
                conds.append(simp(j == z3num(p[1])))
            else:
                start, step, length = p[1], p[2], p[3]
                d = j - start
                if step == 1:
                    t = d
                elif step == -1:
                    t = -d
                else:
                    conds.append(simp(d % step == 0))
                    t = d / step
                t = simp(t)
                conds.append(simp(z3.And(t >= 0, t < length)))
                per_axis[a] = t
        vidx = []
        for va in view_axes:
            vidx.append(per_axis[va[1]] if va[0] == "base" else 0)
        return ops.conj(conds), tuple(vidx)

    v = NdArr(tuple(new_shape), arr.dtype, None, arr.label + "[...]", arr.writeable)
    v.base = (arr, to_base)
    v.from_base = from_base
    return v


def shapes_equal(a, b):
    if len(a) != len(b):
        return False
    return ops.conj([simp(z3num(x) == z3num(y)) for x, y in zip(a, b)])


def require_same_shape(interp, sa, sb):
    """numpy raises ValueError when two operands cannot be broadcast together."""
    eq = shapes_equal(sa, sb)
    if eq is True:
        return
    if eq is False or not interp.path.choose(eq):
        raise PyRaise("ValueError", origin="operands could not be broadcast together with shapes %s %s" % (sa, sb))


def assign(interp, dst, value):
    """dst[...] = value  (dst is an NdArr or view)."""
    if isinstance(value, NdArr):
        vs, ds = value.shape, dst.shape
        # numpy broadcasting limited to: equal shapes, or value lacking leading/trailing match exactly
        if len(vs) == len(ds):
            eq = shapes_equal(vs, ds)
            if eq is False:
                raise PyRaise("ValueError", origin="could not broadcast input array")
            if eq is not True:
                if not interp.path.choose(eq):
                    raise PyRaise("ValueError", origin="could not broadcast input array from shape %s into %s" % (vs, ds))
            src = value
            # reads happen before writes: capture the current content of the source
            srcfn = snapshot_fn(src)
            dst.write(lambda idx, srcfn=srcfn: (True, coerce(dst.dtype, srcfn(idx))))
            return
        raise OutOfSubset("array assignment with broadcasting %s <- %s" % (ds, vs))
    val = coerce(dst.dtype, value)
    dst.write(lambda idx, val=val: (True, val))


def snapshot_fn(arr):
    if arr.base is None:
        f = arr.fn
        return lambda idx, f=f: f(tuple(idx))
    b, to_base = arr.base
    bf = snapshot_fn(b)
    return lambda idx, bf=bf, to_base=to_base: bf(to_base(tuple(idx)))


def coerce(dtype, v):
    if dtype in FLOAT_DTYPES:
        if isinstance(v, FPix):
            return v
        if isinstance(v, NanConst):
            return NAN
        return to_fpix(v)
    if isinstance(v, FPix):
        raise OutOfSubset("float stored into integer array")
    if isinstance(v, NanConst):
        raise PyRaise("ValueError", origin="cannot convert float NaN to integer")
    return v


class NanConst(object):
    def __repr__(self):
        return "nan"


def forall_idx(arr, pred):
    """Bool term: pred(element) for every index of arr."""
    vs = [z3.Int(fresh_name("ix%d" % k)) for k in range(arr.ndim)]
    inb = z3.And(*[z3.And(v >= 0, v < z3num(n)) for v, n in zip(vs, arr.shape)])
    body = pred(arr.at(tuple(vs)))
    if isinstance(body, bool):
        if body:
            return True
        body = z3.BoolVal(False)
    return z3.ForAll(vs, z3.Implies(inb, body))


def elementwise(shape, dtype, f, label="expr"):
    return NdArr(tuple(shape), dtype, lambda idx, f=f: f(tuple(idx)), label)


def cmp_elem(op, a, b):
    """IEEE-like comparison on elements (NaN compares unequal / false)."""
    if isinstance(a, FPix) or isinstance(b, FPix):
        a, b = to_fpix(a), to_fpix(b)
        ok = ops.conj([ops.negate(a.nan), ops.negate(b.nan)])
        if op == "!=":
            return ops.disj([ops.negate(ok), simp(a.val != b.val)])
        c = {"==": a.val == b.val, "<": a.val < b.val, "<=": a.val <= b.val, ">": a.val > b.val, ">=": a.val >= b.val}[op]
        return ops.conj([ok, simp(c)])
    return ops.compare(None, op, a, b)


class ArrayPlugin(object):
    def is_array(self, v):
        return isinstance(v, NdArr)

    def is_mutable_model(self, obj):
        return isinstance(obj, NdArr)

    # ---- attribute / method access ----
    def getattr(self, interp, base, attr):
        if isinstance(base, NdArr):
            if attr == "shape":
                return tuple(base.shape)
            if attr == "dtype":
                return Dtype(base.dtype)
            if attr == "ndim":
                return base.ndim
            if attr == "itemsize":
                return DTYPE_INFO[base.dtype][1]
            if attr == "flags":
                return ArrFlags(base)
            if attr == "size":
                tot = 1
                for n in base.shape:
                    tot = ops.binop(interp, "*", tot, n)
                return tot
            return BoundMethod(base, attr)
        if isinstance(base, Dtype):
            if attr in ("kind", "itemsize", "name"):
                return getattr(base, attr)
        if isinstance(base, ArrFlags):
            if attr == "writeable":
                return base.arr.writeable
        return NotImplemented

    def setattr(self, interp, base, attr, v):
        if isinstance(base, ArrFlags) and attr == "writeable":
            base.arr.writeable = v
            return True
        return False

    def getitem(self, interp, base, idx):
        if isinstance(base, NdArr):
            return index_view(interp, base, idx)
        return NotImplemented

    def setitem(self, interp, base, idx, v):
        if isinstance(base, NdArr):
            if isinstance(idx, Ext) and idx.name == "Ellipsis":
                target = base
            else:
                target = index_view(interp, base, idx)
            if not isinstance(target, NdArr):
                # all-integer index: single element store
                if not isinstance(idx, tuple):
                    idx = (idx,)
                tgt = tuple(z3num(i) for i in idx)
                val = coerce(base.dtype, v)
                base.write(lambda j, tgt=tgt, val=val: (ops.conj([simp(z3num(a) == b) for a, b in zip(j, tgt)]), val))
                return True
            assign(interp, target, v)
            return True
        return False

    def method(self, interp, recv, name, args, kwargs):
        if not isinstance(recv, NdArr):
            return NotImplemented
        if name == "fill":
            val = coerce(recv.dtype, args[0])
            recv.write(lambda idx, val=val: (True, val))
            return None
        if name == "astype":
            return astype(interp, recv, dtype_of(args[0]))
        if name == "reshape":
            return reshape(interp, recv, args[0] if len(args) == 1 and isinstance(args[0], tuple) else tuple(args))
        if name == "copy":
            f = snapshot_fn(recv)
            return NdArr(recv.shape, recv.dtype, lambda idx, f=f: f(idx), recv.label + ".copy")
        if name == "setflags":
            recv.writeable = kwargs.get("write", recv.writeable)
            return None
        raise OutOfSubset("ndarray method %s" % name)

    def length(self, interp, x):
        if isinstance(x, NdArr):
            return x.shape[0]
        return NotImplemented

    def invert(self, interp, v):
        if isinstance(v, NdArr) and v.dtype == "bool":
            f = snapshot_fn(v)
            return elementwise(v.shape, "bool", lambda idx, f=f: ops.negate(f(idx)), "~")
        return NotImplemented

    def array_compare(self, interp, op, a, b):
        arr = a if isinstance(a, NdArr) else b
        shape = arr.shape
        if isinstance(a, NdArr) and isinstance(b, NdArr):
            require_same_shape(interp, a.shape, b.shape)
        ga = snapshot_fn(a) if isinstance(a, NdArr) else (lambda idx: a)
        gb = snapshot_fn(b) if isinstance(b, NdArr) else (lambda idx: b)
        return elementwise(shape, "bool", lambda idx: cmp_elem(op, ga(idx), gb(idx)), "cmp")

    def array_binop(self, interp, op, a, b):
        arr = a if isinstance(a, NdArr) else b
        if op in ("&", "|") and arr.dtype == "bool":
            if isinstance(a, NdArr) and isinstance(b, NdArr):
                require_same_shape(interp, a.shape, b.shape)
            ga = snapshot_fn(a) if isinstance(a, NdArr) else (lambda idx: a)
            gb = snapshot_fn(b) if isinstance(b, NdArr) else (lambda idx: b)
            f = ops.conj if op == "&" else ops.disj
            return elementwise(arr.shape, "bool", lambda idx: f([ga(idx), gb(idx)]), op)
        if op in ("+", "-", "*", "%", "/") and arr.dtype in FLOAT_DTYPES:
            if isinstance(a, NdArr) and isinstance(b, NdArr):
                require_same_shape(interp, a.shape, b.shape)
            ga = snapshot_fn(a) if isinstance(a, NdArr) else (lambda idx: a)
            gb = snapshot_fn(b) if isinstance(b, NdArr) else (lambda idx: b)
            return elementwise(arr.shape, arr.dtype, lambda idx: arith_elem(interp, op, ga(idx), gb(idx)), op)
        raise OutOfSubset("array arithmetic %s" % op)

    def unpack(self, interp, v, n):
        if isinstance(v, NdArr) and isinstance(v.shape[0], int) and v.shape[0] == n:
            return [index_view(interp, v, k) for k in range(n)]
        return None

    def iter_concrete(self, interp, it):
        if isinstance(it, NdArr) and isinstance(it.shape[0], int) and it.shape[0] <= 16:
            return [index_view(interp, it, k) for k in range(it.shape[0])]
        return None

    # ---- numpy functions ----
    def call(self, interp, name, args, kwargs):
        if name.startswith("numpy."):
            name = "np." + name[6:]
        fn = NP_FUNCS.get(name)
        if fn is None:
            return NotImplemented
        # a keyword the model does not look at may change the result (dtype=, out=, keepdims=, where= ...): refuse it
        known = _modelled_keywords(fn)
        if known is not None:
            for k in kwargs:
                if k not in known:
                    raise OutOfSubset("%s(..., %s=...): this keyword is not modelled" % (name, k))
        return fn(interp, args, kwargs)


_KW_CACHE = {}


def _modelled_keywords(fn):
    """the keyword names a numpy model reads (string literals used with ``kwargs``), from its source; None if unknown"""
    key = getattr(fn, "__code__", None)
    if key in _KW_CACHE:
        return _KW_CACHE[key]
    import inspect
    import re
    names = None
    try:
        src = inspect.getsource(fn)
        # models produced by a factory (closures): take the enclosing factory's source as well
        if fn.__closure__ and "<locals>" in fn.__qualname__:
            outer = globals().get(fn.__qualname__.split(".")[0])
            if outer is not None:
                src += inspect.getsource(outer)
        if "kwargs" in src:
            names = set(re.findall(r"kwargs(?:\.get|\.pop)?\(?\[?\s*[\"']([A-Za-z_]+)[\"']", src))
            names |= set(re.findall(r"[\"']([A-Za-z_]+)[\"']\s+(?:not\s+)?in\s+kwargs", src))
        else:
            names = set()
    except (OSError, TypeError):
        names = None
    _KW_CACHE[key] = names
    return names


class ArrFlags(object):
    def __init__(self, arr):
        self.arr = arr


def dtype_of(x):
    if isinstance(x, Dtype):
        return x.name
    if isinstance(x, Ext) and x.name in DTYPE_NAMES:
        return DTYPE_NAMES[x.name]
    raise OutOfSubset("dtype %r" % (x,))


def astype(interp, arr, dtype):
    if dtype == arr.dtype:
        f = snapshot_fn(arr)
        return NdArr(arr.shape, dtype, lambda idx: f(idx), arr.label + ".astype")
    f = snapshot_fn(arr)
    if dtype in FLOAT_DTYPES:
        return NdArr(arr.shape, dtype, lambda idx: to_fpix(f(idx)), arr.label + ".astype")
    if arr.dtype in FLOAT_DTYPES and dtype in INT_RANGES:
        # C cast of a finite in-range value: truncation toward zero (assumed contract)
        def cast(idx):
            v = f(idx)
            r = v.val
            return simp(z3.If(r >= 0, z3.ToInt(r), -z3.ToInt(-r)))
        out = NdArr(arr.shape, dtype, cast, arr.label + ".astype")
        out.cast_of_float = True
        return out
    raise OutOfSubset("astype %s -> %s" % (arr.dtype, dtype))


def reshape(interp, arr, shape):
    """Only the (H//2, 2, W//2, 2) + rest split used by averaging_merger (and identity)."""
    shape = tuple(shape)
    if len(shape) == arr.ndim and shapes_equal(shape, arr.shape) is True:
        return arr
    if len(shape) == arr.ndim + 2 and shape[1] == 2 and shape[3] == 2:
        h2, w2 = shape[0], shape[2]
        ok = ops.conj([simp(z3num(h2) * 2 == z3num(arr.shape[0])), simp(z3num(w2) * 2 == z3num(arr.shape[1]))] +
                      [simp(z3num(a) == z3num(b)) for a, b in zip(shape[4:], arr.shape[2:])])
        if ok is not True:
            if not interp.path.choose(ok if not isinstance(ok, bool) else ok):
                raise PyRaise("ValueError", origin="cannot reshape array")
        f = snapshot_fn(arr)
        return NdArr(shape, arr.dtype,
                     lambda idx: f((simp(2 * z3num(idx[0]) + z3num(idx[1])), simp(2 * z3num(idx[2]) + z3num(idx[3]))) + tuple(idx[4:])),
                     arr.label + ".reshape")
    raise OutOfSubset("reshape %s -> %s" % (arr.shape, shape))


def _np_empty(interp, args, kwargs):
    shape = args[0] if isinstance(args[0], tuple) else (args[0],)
    dt = dtype_of(kwargs.get("dtype", args[1] if len(args) > 1 else Ext("builtin:float")))
    return fresh_array(shape, dt, "empty", interp)


def _np_const(value):
    """np.zeros / np.ones / np.full: every element is the given constant (np.full takes it as 2nd argument)."""
    def fn(interp, args, kwargs):
        shape = args[0] if isinstance(args[0], tuple) else (args[0],)
        rest = list(args[1:])
        v = value
        if v is None:
            v = kwargs["fill_value"] if "fill_value" in kwargs else rest.pop(0)
        dt = dtype_of(kwargs.get("dtype", rest[0] if rest else Ext("builtin:float")))
        if dt in FLOAT_DTYPES:
            e = NAN if isinstance(v, NanConst) else to_fpix(v)
        elif dt == "bool":
            e = bool(v) if isinstance(v, (int, bool)) else v
        else:
            if isinstance(v, NanConst):
                raise PyRaise("ValueError", origin="cannot convert float NaN to integer")
            e = v
        return NdArr(tuple(shape), dt, lambda idx: e, "const")
    return fn


def _np_const_like(value):
    def fn(interp, args, kwargs):
        a = args[0]
        if not isinstance(a, NdArr):
            raise OutOfSubset("np.*_like of a non-array")
        rest = list(args[1:])
        v = value
        if v is None:
            v = kwargs["fill_value"] if "fill_value" in kwargs else rest.pop(0)
        dt = dtype_of(kwargs["dtype"]) if "dtype" in kwargs else a.dtype
        if v == "empty":
            return fresh_array(a.shape, dt, "empty_like", interp)
        kw = {"dtype": Dtype(dt)}
        return _np_const(v)(interp, [tuple(a.shape)], kw)
    return fn


def _np_isnan(interp, args, kwargs):
    a = args[0]
    if isinstance(a, NdArr):
        return elementwise(a.shape, "bool", lambda idx: is_nan(a.at(idx)) if a.dtype in FLOAT_DTYPES else False, "isnan")
    return is_nan(a)


def _np_isfinite(interp, args, kwargs):
    a = args[0]

    def fin(e):
        if isinstance(e, FPix):
            return ops.conj([ops.negate(e.nan), ops.negate(e.inf)])
        return True
    if isinstance(a, NdArr):
        return elementwise(a.shape, "bool", lambda idx: fin(a.at(idx)) if a.dtype in FLOAT_DTYPES else True, "isfinite")
    return fin(a)


def _np_all_any(kind):
    def fn(interp, args, kwargs):
        a = args[0]
        axis = kwargs.get("axis", args[1] if len(args) > 1 else None)
        if not isinstance(a, NdArr):
            return a
        if axis is None:
            if kind == "all":
                return forall_idx(a, lambda e: e)
            return ops.negate(forall_idx(a, lambda e: ops.negate(e)))
        if axis == a.ndim - 1 and isinstance(a.shape[-1], int):
            n = a.shape[-1]
            comb = ops.conj if kind == "all" else ops.disj
            return elementwise(a.shape[:-1], "bool", lambda idx: comb([a.at(tuple(idx) + (k,)) for k in range(n)]), kind)
        raise OutOfSubset("np.%s over axis %r" % (kind, axis))
    return fn


def _np_broadcast_to(interp, args, kwargs):
    a, shape = args[0], tuple(args[1])
    if isinstance(a, NdArr) and a.ndim == len(shape) and a.shape[-1] == 1:
        return elementwise(shape, a.dtype, lambda idx: a.at(tuple(idx[:-1]) + (0,)), "broadcast")
    raise OutOfSubset("np.broadcast_to %r -> %s" % (a, shape))


def _np_putmask(interp, args, kwargs):
    dst, mask, src = args
    if not (isinstance(dst, NdArr) and isinstance(mask, NdArr)):
        raise OutOfSubset("np.putmask operands")
    require_same_shape(interp, dst.shape, mask.shape)     # numpy: mask and data must be the same size
    if isinstance(src, NdArr):
        eq = shapes_equal(dst.shape, src.shape)
        if eq is not True:
            interp.side_obligation("putmask_values_shape_agrees", eq if not isinstance(eq, bool) else z3.BoolVal(eq))
    mf = snapshot_fn(mask)
    sf = snapshot_fn(src) if isinstance(src, NdArr) else (lambda idx: src)
    dst.write(lambda idx: (mf(idx), coerce(dst.dtype, sf(idx))))
    return None


def _np_maximum(interp, args, kwargs):
    a, b = args[0], args[1]
    out = kwargs.get("out")
    if not (isinstance(a, NdArr) and isinstance(b, NdArr)) or a.dtype in FLOAT_DTYPES:
        raise OutOfSubset("np.maximum operands")
    af, bf = snapshot_fn(a), snapshot_fn(b)
    res = lambda idx: ops.ite(ops.compare(None, ">", bf(idx), af(idx)), bf(idx), af(idx))
    if out is not None:
        out.write(lambda idx: (True, res(idx)))
        return out
    return elementwise(a.shape, a.dtype, res, "maximum")


def _np_nanmean(interp, args, kwargs):
    a = args[0]
    axis = kwargs.get("axis")
    if not (isinstance(a, NdArr) and axis == (1, 3) and a.shape[1] == 2 and a.shape[3] == 2):
        raise OutOfSubset("np.nanmean other than axis=(1,3) over 2x2 blocks")
    f = snapshot_fn(a)
    out_shape = (a.shape[0], a.shape[2]) + tuple(a.shape[4:])

    def mean(idx):
        four = [to_fpix(f((idx[0], p, idx[1], q) + tuple(idx[2:]))) for p in (0, 1) for q in (0, 1)]
        cnt = z3.Sum([z3.If(z3bool(x.nan) if not isinstance(x.nan, bool) else z3.BoolVal(x.nan), 0, 1) for x in four])
        tot = z3.Sum([z3.If(z3bool(x.nan) if not isinstance(x.nan, bool) else z3.BoolVal(x.nan), z3.RealVal(0), x.val) for x in four])
        allnan = ops.conj([x.nan for x in four])
        val = z3.If(cnt == 1, tot, z3.If(cnt == 2, tot / 2, z3.If(cnt == 3, tot / 3, tot / 4)))
        anyinf = ops.disj([x.inf for x in four])
        if anyinf is False:
            return FPix(allnan, val)
        # a mean over infinite values is infinite or NaN: left open (not modelled), exact when no input is infinite
        open_nan, open_inf = z3.Bool(fresh_name("mean_nan")), z3.Bool(fresh_name("mean_inf"))
        return FPix(ops.ite(anyinf, open_nan, allnan), val, ops.ite(anyinf, z3.And(open_inf, z3.Not(open_nan)), False))

    return NdArr(out_shape, "f64", mean, "nanmean")


def _np_asarray(interp, args, kwargs):
    a = args[0]
    if isinstance(a, NdArr):
        return a
    raise OutOfSubset("np.asarray of %r" % (a,))


def _np_atleast_2d(interp, args, kwargs):
    a = args[0]
    if isinstance(a, NdArr) and a.ndim >= 2:
        return a
    raise OutOfSubset("np.atleast_2d of %r" % (a,))


def _np_roll(interp, args, kwargs):
    a, shift = args[0], args[1]
    axis = kwargs.get("axis", args[2] if len(args) > 2 else None)
    if not isinstance(a, NdArr) or axis not in (0, 1) or a.ndim < 2:
        raise OutOfSubset("np.roll form")
    f = snapshot_fn(a)
    n = z3num(a.shape[axis])
    sh = z3num(shift)

    def at(idx):
        idx = list(idx)
        idx[axis] = simp((z3num(idx[axis]) - sh) % n)
        return f(tuple(idx))

    return NdArr(a.shape, a.dtype, at, a.label + ".roll")


def _nested(v):
    """python nested lists/tuples of numbers -> (shape, flat getter)"""
    from .values import PyList
    def items(x):
        if isinstance(x, PyList):
            return x.items
        if isinstance(x, tuple):
            return list(x)
        return None
    shape = []
    cur = v
    while items(cur) is not None:
        shape.append(len(items(cur)))
        cur = items(cur)[0]

    def get(idx):
        x = v
        for i in idx:
            x = items(x)[i]
        return x
    return tuple(shape), get


def concrete_array(v, transform=lambda x: x, dtype="f64", label="const"):
    """A literal (nested list) array: element access by concrete or symbolic index."""
    shape, get = _nested(v)
    import itertools
    table = {idx: transform(get(idx)) for idx in itertools.product(*[range(n) for n in shape])}

    def at(idx):
        idx = tuple(simp(i) if is_z3(i) else i for i in idx)
        if all(isinstance(i, int) for i in idx):
            val = table[idx]
            return to_fpix(val) if dtype in FLOAT_DTYPES else val
        res = None
        for k, val in table.items():
            val = to_fpix(val) if dtype in FLOAT_DTYPES else val
            cond = ops.conj([simp(z3num(i) == kk) for i, kk in zip(idx, k)])
            res = val if res is None else elem_ite(cond, val, res)
        return res

    return NdArr(shape, dtype, at, label)


def _np_radians(interp, args, kwargs):
    import math
    interp.note_assumption("np.radians(x) == x * pi / 180 over the reals")
    k = fractions.Fraction(math.pi) / 180
    return concrete_array(args[0], lambda d: fractions.Fraction(d) * k, "f64", "radians")


def arith_elem(interp, op, a, b):
    a, b = to_fpix(a), to_fpix(b)
    val = ops.binop(interp, op, a.val, b.val)
    anyinf = ops.disj([a.inf, b.inf])
    if anyinf is False:
        return FPix(ops.disj([a.nan, b.nan]), val)
    open_nan, open_inf = z3.Bool(fresh_name("arith_nan")), z3.Bool(fresh_name("arith_inf"))
    return FPix(ops.ite(anyinf, open_nan, ops.disj([a.nan, b.nan])), val, ops.ite(anyinf, z3.And(open_inf, z3.Not(open_nan)), False))


NP_FUNCS = {
    "np.radians": _np_radians,
    "np.roll": _np_roll,
    "np.empty": _np_empty,
    "np.zeros": _np_const(0),
    "np.ones": _np_const(1),
    "np.full": _np_const(None),
    "np.zeros_like": _np_const_like(0),
    "np.ones_like": _np_const_like(1),
    "np.full_like": _np_const_like(None),
    "np.empty_like": _np_const_like("empty"),
    "np.isnan": _np_isnan,
    "np.isfinite": _np_isfinite,
    "np.all": _np_all_any("all"),
    "np.any": _np_all_any("any"),
    "np.broadcast_to": _np_broadcast_to,
    "np.putmask": _np_putmask,
    "np.maximum": _np_maximum,
    "np.nanmean": _np_nanmean,
    "np.asarray": _np_asarray,
    "np.atleast_2d": _np_atleast_2d,
}


def install(X):
    X.plugins.append(ArrayPlugin())
    from .interp import EXT_CONSTANTS
    EXT_CONSTANTS["numpy.nan"] = NanConst()
    for k in ("numpy.uint8", "numpy.int16", "numpy.int32", "numpy.float16", "numpy.float32", "numpy.float64"):
        pass
