"""Symbolic value domain of the interpreter.

Scalars are python numbers/bools/None/str or z3 terms (Int, Real, Bool).
Everything structured is one of the classes below.  Mutable python objects
(lists, dicts, instances, arrays) are ordinary mutable python objects here too:
paths are explored by re-execution, so no copying is ever needed.
"""
import z3

from .core import OutOfSubset, is_z3, fresh_name


class NTuple(object):
    """A namedtuple instance (Pos, Tile, ...) or a plain record with fixed field names."""

    __slots__ = ("tname", "names", "vals")

    def __init__(self, tname, names, vals):
        self.tname = tname
        self.names = tuple(names)
        self.vals = tuple(vals)
        assert len(self.names) == len(self.vals)

    def get(self, name):
        try:
            return self.vals[self.names.index(name)]
        except ValueError:
            raise OutOfSubset("no field %s in %s" % (name, self.tname))

    def is_concrete(self):
        return all(not is_z3(v) and not (isinstance(v, NTuple) and not v.is_concrete()) for v in self.vals)

    def __repr__(self):
        return "%s(%s)" % (self.tname, ", ".join("%s=%s" % (n, v) for n, v in zip(self.names, self.vals)))

    def __eq__(self, other):
        if not isinstance(other, NTuple):
            return NotImplemented
        if not (self.is_concrete() and other.is_concrete()):
            raise OutOfSubset("python-level comparison of symbolic namedtuples")
        return self.vals == other.vals

    def __hash__(self):
        if not self.is_concrete():
            raise OutOfSubset("hash of symbolic namedtuple")
        return hash(self.vals)


RECORD_TYPES = {
    "Pos": ("n", "x", "y"),
    "Tile": ("pos", "corners", "increasing"),
}


ENUM_MODULES = {"ImageMode": "toasty.image", "ToastCoordinateSystem": "toasty.toast", "TilingMethod": "toasty"}


class EnumVal(object):
    __slots__ = ("cls", "name", "value", "mod")

    def __init__(self, cls, name, value=None, mod=None):
        self.cls = cls
        self.name = name
        self.value = value
        self.mod = mod or ENUM_MODULES.get(cls)

    def __eq__(self, other):
        return isinstance(other, EnumVal) and (self.cls, self.name) == (other.cls, other.name)

    def __hash__(self):
        return hash((self.cls, self.name))

    def __repr__(self):
        return "%s.%s" % (self.cls, self.name)


class SliceVal(object):
    __slots__ = ("start", "stop", "step")

    def __init__(self, start, stop, step):
        self.start, self.stop, self.step = start, stop, step

    def __repr__(self):
        return "slice(%s, %s, %s)" % (self.start, self.stop, self.step)


class FuncVal(object):
    """A python function defined in the analysed source (def or lambda) plus its closure."""

    def __init__(self, node, closure, module, qualname):
        self.node = node
        self.closure = closure     # Env
        self.module = module
        self.qualname = qualname

    def __repr__(self):
        return "<function %s>" % self.qualname


class BoundMethod(object):
    def __init__(self, recv, name):
        self.recv = recv
        self.name = name

    def __repr__(self):
        return "<bound %s of %r>" % (self.name, self.recv)


class Ext(object):
    """An external (library) object or callable known to the modelling table by dotted name."""

    def __init__(self, name):
        self.name = name

    def __repr__(self):
        return "<ext %s>" % self.name

    def __eq__(self, other):
        return isinstance(other, Ext) and other.name == self.name

    def __hash__(self):
        return hash(("Ext", self.name))


class Opaque(object):
    """An uninterpreted value of a named kind (a callback, an image source, a file object).
    Equality is identity of the token."""

    def __init__(self, kind, name=None):
        self.kind = kind
        self.name = name or fresh_name(kind)
        self.attrs = {}

    def __repr__(self):
        return "<%s %s>" % (self.kind, self.name)


class Poison(object):
    """A value that must not be read (variable assigned in a summarised loop body)."""

    def __init__(self, why):
        self.why = why

    def __repr__(self):
        return "<poison %s>" % self.why


class Inst(object):
    """An instance of a class of the analysed source: a bag of fields."""

    def __init__(self, cls, fields=None, module=None):
        self.cls = cls            # class name
        self.module = module      # dotted module name
        self.fields = dict(fields or {})

    def __repr__(self):
        return "<%s instance %s>" % (self.cls, sorted(self.fields))


class PyList(object):
    def __init__(self, items):
        self.items = list(items)

    def __repr__(self):
        return "PyList(%r)" % (self.items,)


class PyDict(object):
    def __init__(self, items=None):
        self.items = dict(items or {})

    def __repr__(self):
        return "PyDict(%r)" % (self.items,)


class SymSeq(object):
    """A sequence of symbolic length: ``length`` is an Int term, ``at(k)`` maps an Int term to
    the element value.  Immutable; concatenation builds a new one."""

    def __init__(self, length, at, label="seq"):
        self.length = length
        self.at = at
        self.label = label

    def __repr__(self):
        return "<SymSeq %s len=%s>" % (self.label, self.length)


class StrSeq(object):
    """A string known as a sequence of pieces: python str literals and opaque tokens
    (``Tok``: an unknown string, optionally of a known class such as decimal digits)."""

    __slots__ = ("parts",)

    def __init__(self, parts):
        items = []
        for p in parts:
            if isinstance(p, StrSeq):
                items.extend(p.parts)
            else:
                items.append(p)
        flat = []
        for p in items:
            if isinstance(p, str):
                if p:
                    if flat and isinstance(flat[-1], str):
                        flat[-1] = flat[-1] + p
                    else:
                        flat.append(p)
            else:
                flat.append(p)
        self.parts = tuple(flat)

    def is_literal(self):
        return all(isinstance(p, str) for p in self.parts)

    def literal(self):
        return "".join(self.parts)

    def __eq__(self, other):
        if isinstance(other, str):
            other = StrSeq([other])
        if not isinstance(other, StrSeq):
            return NotImplemented
        if self.parts == other.parts:
            return True
        if self.is_literal() and other.is_literal():
            return self.literal() == other.literal()
        raise OutOfSubset("equality of distinct symbolic strings %r / %r" % (self, other))

    def __hash__(self):
        return hash(self.parts)

    def __repr__(self):
        return "StrSeq(%s)" % (" + ".join(repr(p) for p in self.parts))


class Tok(object):
    """An opaque string token; ``klass`` documents what is known about it ('digits', 'format', ...)."""

    __slots__ = ("name", "klass", "src")

    def __init__(self, name, klass="any", src=None):
        self.name = name
        self.klass = klass
        self.src = src     # value it was derived from, e.g. the Int term for str(int)

    def __eq__(self, other):
        return isinstance(other, Tok) and other.name == self.name

    def __hash__(self):
        return hash(("Tok", self.name))

    def __repr__(self):
        return "<%s:%s>" % (self.klass, self.name)


def truthy_static(v):
    """Truthiness of structured values that is known statically; None if not."""
    if v is None:
        return False
    if isinstance(v, (NTuple, Inst, FuncVal, Ext, Opaque, EnumVal, BoundMethod, SliceVal)):
        return True
    if isinstance(v, (tuple, str)):
        return len(v) > 0
    if isinstance(v, PyList):
        return len(v.items) > 0
    if isinstance(v, PyDict):
        return len(v.items) > 0
    return None


class StrId(object):
    """A string known only up to equality: identified by an Int term (see symlist.py)."""

    def __init__(self, ident):
        self.ident = ident

    def __repr__(self):
        return "<strid %s>" % self.ident
