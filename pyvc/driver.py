"""Parallel driver: VC generation per function in worker processes (SMT-LIB text comes back),
then one pooled discharge."""
import importlib
import os
import time
from concurrent.futures import ProcessPoolExecutor

import z3

from . import smt
from .contracts_api import REGISTRY
from .extract import Repo
from .externals import default_externals
from .verify import Verifier


def _gen_one(job):
    repo_dir, contract_modules, qualname, kind = job[:4]
    case_range = job[4] if len(job) > 4 else None
    shard = job[5] if len(job) > 5 else None
    t0 = time.time()
    for mname in contract_modules:
        importlib.import_module(mname)
    repo = Repo(repo_dir)
    ext = default_externals()
    for mname in contract_modules:
        mod = importlib.import_module(mname)
        if hasattr(mod, "install_externals"):
            mod.install_externals(ext)
    V = Verifier(repo, REGISTRY, ext)
    if kind == "lemma":
        from .lemmas import gen_lemma
        rep = gen_lemma(REGISTRY, qualname)
    else:
        rep = V.gen_function(qualname, case_range, shard)
    vcs = []
    if rep.status == "ok":
        for ob in rep.obligations:
            g = ob.goal
            if isinstance(g, bool):
                g = z3.BoolVal(g)
            if ob.info and ob.info.get("raw_smt2"):
                vcs.append((ob.name, ob.kind, None, ob.info["raw_smt2"]))
            elif z3.is_true(z3.simplify(g)):
                vcs.append((ob.name, ob.kind, ob.info, None))
            else:
                vcs.append((ob.name, ob.kind, ob.info, smt.to_smt2(ob.hyps, g)))
        from .core import _has_quantifier
        reach = [smt.to_smt2([h for h in ob.hyps if not _has_quantifier(h)], ob.goal, want_axioms=False, use_theories=False)
                 for ob in rep.reach[:6]]
    else:
        reach = []
    shape = None
    if kind != "lemma":
        try:
            from .extract import loop_shape
            c_ = REGISTRY.get(qualname)
            lenient = tuple(k for k, ls in (c_.loops.items() if c_ is not None else ()) if ls.summarise in ("stateless", "map"))
            shape = loop_shape(repo.function(qualname)[1], lenient)
        except Exception:
            shape = None
    return {
        "shape": shape,
        "pending": getattr(rep, "pending", []),
        "qualname": qualname, "kind": kind, "status": rep.status, "reason": rep.reason, "paths": rep.paths,
        "exit_paths": rep.exit_paths, "vcs": vcs, "reach": reach, "assumptions": sorted(rep.assumptions),
        "dropped": sorted(rep.dropped), "gen_s": round(time.time() - t0, 3),
        "sources": repo.sources_digest(),
    }


class ClauseOutcome(object):
    def __init__(self, name, kind):
        self.name, self.kind = name, kind
        self.status = None
        self.vcs = 0
        self.backends = set()
        self.secs = 0.0
        self.model = None
        self.info = None
        self.detail = None

    def as_dict(self):
        return {"obligation": self.name, "kind": self.kind, "status": self.status, "vcs": self.vcs,
                "backend": "+".join(sorted(self.backends)), "solver_s": round(self.secs, 3)}


def run(repo_dir, contract_modules, functions, lemmas=(), timeout_ms=20000, slow=(), slow_ms=60000, workers=None,
        use_cvc5=True):
    """Returns (function reports, {clause: ClauseOutcome}, reach {function: bool})."""
    workers = workers or min(16, os.cpu_count() or 4)
    for mname in contract_modules:
        importlib.import_module(mname)
    jobs = []
    sharded = []
    for f in functions:
        c = REGISTRY.get(f)
        n = len(c.cases_) if (c is not None and c.cases_) else 1
        if n >= 2:
            step = max(1, n // 16)
            for a in range(0, n, step):
                jobs.append((repo_dir, list(contract_modules), f, "function", (a, min(n, a + step))))
        elif c is not None and c.shards_ > 1:
            sharded.append((f, c.shards_))
        else:
            jobs.append((repo_dir, list(contract_modules), f, "function"))
    jobs += [(repo_dir, list(contract_modules), l, "lemma") for l in lemmas]
    with ProcessPoolExecutor(max_workers=workers) as ex:
        # heavy functions: ONE process computes the frontier of the decision tree, then the pending subtrees are dealt
        # out explicitly (no reliance on the workers re-deriving the same frontier)
        front = [ex.submit(_gen_one, (repo_dir, list(contract_modules), f, "function", None, ("frontier", n))) for f, n in sharded]
        futs = [ex.submit(_gen_one, j) for j in jobs]
        reports = []
        more = []
        for (f, n), fu in zip(sharded, front):
            rep0 = fu.result()
            reports.append(rep0)
            pend = rep0.pop("pending", [])
            for k in range(n):
                part = pend[k::n]
                if part:
                    more.append(ex.submit(_gen_one, (repo_dir, list(contract_modules), f, "function", None, ("subtrees", part))))
        reports += [fu.result() for fu in futs]
        reports += [fu.result() for fu in more]
    for rep in reports:
        rep.pop("pending", None)
    if os.environ.get("VERIF_TIMING"):
        import sys
        for rep in reports:
            print("TIMING gen", rep["qualname"], rep["gen_s"], rep["paths"], len(rep["vcs"]), file=sys.stderr)
    merged = {}
    for rep in reports:
        k = (rep["qualname"], rep["kind"])
        if k not in merged:
            merged[k] = rep
        else:
            m0 = merged[k]
            m0["paths"] += rep["paths"]
            m0["exit_paths"] += rep["exit_paths"]
            m0["vcs"] += rep["vcs"]
            m0["reach"] = (m0["reach"] + rep["reach"])[:8]
            m0["assumptions"] = sorted(set(m0["assumptions"]) | set(rep["assumptions"]))
            m0["dropped"] = sorted(set(m0["dropped"]) | set(rep["dropped"]))
            m0["gen_s"] = max(m0["gen_s"], rep["gen_s"])
            if rep["status"] != "ok" and m0["status"] == "ok":
                m0["status"], m0["reason"] = rep["status"], rep["reason"]
    reports = list(merged.values())
    sjobs, index = [], []
    for rep in reports:
        for name, kind, info, txt in rep["vcs"]:
            if txt is None:
                index.append((name, kind, info, None))
            else:
                key = len(sjobs)
                if os.environ.get("VERIF_DUMP") and os.environ["VERIF_DUMP"] in name:
                    os.makedirs("/tmp/vcdump", exist_ok=True)
                    with open("/tmp/vcdump/%d.smt2" % key, "w") as f_:
                        f_.write("; %s\n%s" % (name, txt))
                t = slow_ms if any(s in name for s in slow) else timeout_ms
                sjobs.append((key, txt, t, use_cvc5))
                index.append((name, kind, info, key))
    rkeys = []
    for rep in reports:
        for k, txt in enumerate(rep["reach"]):
            key = ("reach", rep["qualname"], k)
            sjobs.append((key, txt, 5000, False))
            rkeys.append((rep["qualname"], key))
    t_d = time.time()
    res = smt.discharge(sjobs, workers=workers)
    if os.environ.get("VERIF_TIMING"):
        import sys
        print("TIMING discharge", len(sjobs), round(time.time() - t_d, 1), file=sys.stderr)
        slowest = sorted(((res[k][2], k) for k in res if not isinstance(k, tuple)), reverse=True)[:8]
        names = {key: name for name, kind, info, key in index if key is not None}
        for sec, k in slowest:
            print("TIMING slow", round(sec, 1), names.get(k), res[k][0], res[k][1], file=sys.stderr)
    clauses = {}
    for name, kind, info, key in index:
        co = clauses.setdefault(name, ClauseOutcome(name, kind))
        co.vcs += 1
        if key is None:
            st, be, sec, mod = "unsat", "simplifier", 0.0, None
        else:
            st, be, sec, mod = res[key]
        co.backends.add(be)
        co.secs += sec
        if st == "sat":
            if co.status != "refuted":
                co.status, co.model, co.info = "refuted", mod, info
        elif st == "unsat":
            if co.status is None:
                co.status = "discharged"
        else:
            if co.status != "refuted":
                co.status, co.detail = "unknown", mod
    reach = {}
    for fn, key in rkeys:
        reach[fn] = reach.get(fn, False) or res[key][0] == "sat"
    for rep in reports:
        rep.pop("vcs")
        rep.pop("reach")
    return reports, clauses, reach
