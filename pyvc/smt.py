"""Discharging verification conditions: one SMT query per (clause, path), 16-process pool,
z3 first, /usr/bin/cvc5 on the exported SMT-LIB for every ``unknown``."""
import os
import subprocess
import tempfile
import time
from concurrent.futures import ProcessPoolExecutor

import z3


CVC5 = "/usr/bin/cvc5"


def _collect_apps(e, fname, out, seen):
    """Ground applications of the function named ``fname`` inside ``e`` (not under binders
    when they mention bound variables)."""
    stack = [e]
    while stack:
        t = stack.pop()
        k = t.get_id()
        if k in seen:
            continue
        seen.add(k)
        if z3.is_quantifier(t):
            stack.append(t.body())
            continue
        if z3.is_app(t):
            if t.decl().name() == fname and t.num_args() == 1:
                out.append(t)
            for c in t.children():
                stack.append(c)


def _has_var(t):
    stack = [t]
    while stack:
        x = stack.pop()
        if z3.is_var(x):
            return True
        if z3.is_app(x):
            stack.extend(x.children())
        elif z3.is_quantifier(x):
            return True
    return False


_SCAN_CACHE = {}


def _scan(e):
    """One traversal per (top-level) formula, memoised: the ground pow2 / ilog2 / Bit applications, the
    divisions by a power of two and the string-literal constants occurring in it."""
    k = e.get_id()
    hit = _SCAN_CACHE.get(k)
    if hit is not None and hit[0].eq(e):
        return hit[1]
    rec = {"pow2": [], "ilog2": [], "Bit": [], "div": [], "strlit": []}
    stack, seen = [e], set()
    while stack:
        t = stack.pop()
        i = t.get_id()
        if i in seen:
            continue
        seen.add(i)
        if z3.is_quantifier(t):
            stack.append(t.body())
            continue
        if not z3.is_app(t):
            continue
        d = t.decl()
        n = t.num_args()
        if n == 0:
            nm = d.name()
            if nm.startswith("strlit!"):
                rec["strlit"].append(t)
            continue
        kind = d.kind()
        if kind == z3.Z3_OP_UNINTERPRETED:
            nm = d.name()
            if n == 1 and nm in ("pow2", "ilog2"):
                if not _has_var(t.arg(0)):
                    rec[nm].append(t)
            elif n == 2 and nm == "Bit":
                if not _has_var(t.arg(0)):
                    rec["Bit"].append(t)
        elif kind == z3.Z3_OP_IDIV:
            a1 = t.arg(1)
            if z3.is_app(a1) and a1.num_args() == 1 and a1.decl().name() == "pow2" and not _has_var(t):
                rec["div"].append(t)
        stack.extend(t.children())
    if len(_SCAN_CACHE) > 50000:
        _SCAN_CACHE.clear()
    _SCAN_CACHE[k] = (e, rec)
    return rec


def _gather(exprs, what):
    out, seen = [], set()
    for e in exprs:
        for t in _scan(e)[what]:
            i = t.get_id()
            if i not in seen:
                seen.add(i)
                out.append(t)
    return out


def pow2_instances(exprs, down=2, up=1, max_terms=60):
    """Quantifier-free instances of the pow2 / ilog2 axioms for every ground pow2 term of the
    query (deterministic, no E-matching): positivity, small constants, doubling to the
    neighbouring exponents, injectivity via ilog2, pairwise monotonicity."""
    from .ops import pow2, ilog2
    apps = _gather(exprs, "pow2")
    args = {}
    for a in apps:
        t = a.arg(0)
        t = z3.simplify(t)
        args.setdefault(str(t), (t, 0))
    # neighbours
    frontier = list(args.values())
    for t, lvl in frontier:
        for d in range(1, down + 1):
            n = z3.simplify(t - d)
            args.setdefault(str(n), (n, 1))
        for d in range(1, up + 1):
            n = z3.simplify(t + d)
            args.setdefault(str(n), (n, 1))
        if len(args) > max_terms:
            break
    terms = [t for t, _ in args.values()]
    facts = []
    for t in terms:
        facts.append(z3.Implies(t >= 0, pow2(t) >= 1))
        facts.append(z3.Implies(t >= 1, pow2(t) == 2 * pow2(t - 1)))
        facts.append(z3.Implies(t >= 0, ilog2(pow2(t)) == t))
        for cst in range(0, 11):
            facts.append(z3.Implies(t == cst, pow2(t) == 2 ** cst))
            facts.append(z3.Implies(z3.And(t >= 0, t <= cst), pow2(t) <= 2 ** cst))
            facts.append(z3.Implies(t >= cst, pow2(t) >= 2 ** cst))
    for t in terms:
        facts.append(z3.Implies(z3.And(t >= 0, t % 2 == 0), pow2(t) % 3 == 1))
        facts.append(z3.Implies(z3.And(t >= 0, t % 2 == 1), pow2(t) % 3 == 2))
    for t, lvl in list(args.values()):
        if lvl != 0:
            continue
        for cst in (8,):
            u = z3.simplify(t - cst)
            facts.append(z3.Implies(t >= cst, pow2(t) == 2 ** cst * pow2(u)))
            facts.append(z3.Implies(u >= 0, pow2(u) >= 1))
            facts.append(z3.Implies(u >= 0, ilog2(pow2(u)) == u))
    lapps = _gather(exprs, "ilog2")
    ldone = set()
    for a in lapps:
        v = a.arg(0)
        if str(v) in ldone:
            continue
        ldone.add(str(v))
        for cst in range(0, 41):
            facts.append(z3.Implies(v == 2 ** cst, ilog2(v) == cst))
    # integer division by powers of two (shifts): (a div 2^t) div 2 == a div 2^(t+1)   [lemma nested_div_by_two]
    divs = [(t.arg(0), t.arg(1).arg(0)) for t in _gather(exprs, "div")]
    for i, (a1, t1) in enumerate(divs):
        facts.append(z3.Implies(z3.And(t1 >= 0, a1 >= 0), a1 / pow2(t1) >= 0))
        for (a2, t2) in divs[i + 1:]:
            if a1.eq(a2):
                facts.append(z3.Implies(z3.And(t2 == t1 + 1, t1 >= 0), (a1 / pow2(t1)) / 2 == a2 / pow2(t2)))
                facts.append(z3.Implies(z3.And(t1 == t2 + 1, t2 >= 0), (a2 / pow2(t2)) / 2 == a1 / pow2(t1)))
    base = [t for t, lvl in args.values() if lvl == 0]
    for i, s_ in enumerate(base):
        for t in base[i + 1:]:
            facts.append(z3.Implies(z3.And(s_ >= 0, s_ <= t), pow2(s_) <= pow2(t)))
            facts.append(z3.Implies(z3.And(t >= 0, t <= s_), pow2(t) <= pow2(s_)))
            facts.append(z3.Implies(z3.And(s_ >= 0, s_ < t), 2 * pow2(s_) <= pow2(t)))
            facts.append(z3.Implies(z3.And(t >= 0, t < s_), 2 * pow2(t) <= pow2(s_)))
    return facts


def _strlits(exprs):
    out = {}
    for t in _gather(exprs, "strlit"):
        out[t.decl().name()] = t
    return list(out.values())


def _term_facts(t):
    from .ops import pow2, ilog2
    f = [z3.Implies(t >= 0, pow2(t) >= 1),
         z3.Implies(t >= 1, pow2(t) == 2 * pow2(t - 1)),
         z3.Implies(t >= 0, pow2(t + 1) == 2 * pow2(t)),
         z3.Implies(t >= 2, pow2(t) == 4 * pow2(t - 2)),
         z3.Implies(t == 0, pow2(t) == 1)]
    return f


def quantified_pow2_facts(hyps):
    """For every universally quantified hypothesis whose body mentions pow2(t[k]) with the bound
    variables k, add the (universally valid) pow2 facts about t[k] under the same binder and
    the same patterns, so that they are instantiated together with the hypothesis."""
    out = []
    for h in hyps:
        if not (z3.is_quantifier(h) and h.is_forall()):
            continue
        n = h.num_vars()
        consts = [z3.Const("qv!%d!%s" % (i, h.var_name(i)), h.var_sort(i)) for i in range(n)]
        rev = list(reversed(consts))
        body = z3.substitute_vars(h.body(), *rev)
        apps, seen = [], set()
        _collect_apps(body, "pow2", apps, seen)
        if not apps:
            continue
        facts, done = [], set()
        for a in apps:
            t = z3.simplify(a.arg(0))
            if str(t) in done:
                continue
            done.add(str(t))
            facts.extend(_term_facts(t))
        pats = []
        for i in range(h.num_patterns()):
            pt = z3.substitute_vars(h.pattern(i), *rev)
            pats.append(pt)
        try:
            if pats:
                mp = []
                for pt in pats:
                    ch = pt.children() if z3.is_app(pt) and pt.decl().kind() == z3.Z3_OP_PATTERN else [pt]
                    mp.append(z3.MultiPattern(*ch) if len(ch) > 1 else ch[0])
                out.append(z3.ForAll(consts, z3.And(*facts), patterns=mp))
            else:
                out.append(z3.ForAll(consts, z3.And(*facts)))
        except z3.Z3Exception:
            out.append(z3.ForAll(consts, z3.And(*facts)))
    return out


def bit_facts(exprs, width=4):
    from .ops import Bit
    apps = _gather(exprs, "Bit")
    vals = {}
    for a in apps:
        v = a.arg(0)
        vals.setdefault(v.get_id(), v)
    facts = []
    for v in vals.values():
        total = z3.Sum([z3.If(Bit(v, i), 2 ** i, 0) for i in range(width)])
        facts.append(z3.Implies(z3.And(v >= 0, v < 2 ** width), v == total))
    return facts


def to_smt2(hyps, goal, want_axioms=None, extra=(), use_theories=True):
    s = z3.Solver()
    exprs = list(hyps) + [goal]
    if want_axioms is None:
        want_axioms = True
    if want_axioms:
        for f in pow2_instances(exprs):
            s.add(f)
        for f in quantified_pow2_facts(hyps):
            s.add(f)
        for f in bit_facts(exprs):
            s.add(f)
    for h in hyps:
        s.add(h)
    for h in extra:
        s.add(h)
    goal_index = len(s.assertions())
    s.add(z3.Not(goal))
    lits = _strlits(exprs)
    if len(lits) > 1:
        s.add(z3.Distinct(*lits))
    txt = s.to_smt2()
    if use_theories:
        from .theories import axioms_for
        ax, used = axioms_for(txt)
        if ax:
            for a in ax:
                s.add(a)
            for f in pow2_instances(ax):
                pass
            txt = s.to_smt2()
    return txt + "\n; goal-index=%d\n" % goal_index


def _model_dict(m):
    out = {}
    for d in m.decls():
        if d.arity() == 0:
            out[d.name()] = str(m[d])
        else:
            try:
                out[d.name()] = str(m[d])[:400]
            except Exception:
                pass
    return out


def _symbols(e):
    """names of the uninterpreted constants and functions occurring in a formula"""
    out, stack, seen = set(), [e], set()
    while stack:
        t = stack.pop()
        i = t.get_id()
        if i in seen:
            continue
        seen.add(i)
        if z3.is_quantifier(t):
            stack.append(t.body())
            for k in range(t.num_patterns()):
                stack.append(t.pattern(k))
            continue
        if not z3.is_app(t):
            continue
        if t.decl().kind() == z3.Z3_OP_UNINTERPRETED:
            out.add(t.decl().name())
        stack.extend(t.children())
    return out


def _components(assertions):
    """Partition the assertions into groups that share no uninterpreted symbol.  The conjunction is unsatisfiable
    iff one group is (independent groups have independent models), so hypotheses that cannot matter for the goal
    (e.g. real arithmetic on a variable the goal never mentions) need not burden the quantifier instantiation."""
    parent = {}

    def find(x):
        while parent.setdefault(x, x) != x:
            parent[x] = parent[parent[x]]
            x = parent[x]
        return x
    syms = []
    for k, a in enumerate(assertions):
        sy = _symbols(a)
        syms.append(sy)
        root = find(("a", k))
        for nm in sy:
            r2 = find(("s", nm))
            if r2 != root:
                parent[r2] = root
    groups = {}
    for k, a in enumerate(assertions):
        groups.setdefault(find(("a", k)), []).append(a)
    return list(groups.values())


def solve_one(job):
    """job = (key, smt2 text, z3 timeout ms, try_cvc5, expect_sat)"""
    key, txt, timeout_ms, use_cvc5 = job
    t0 = time.time()
    if txt.startswith("; solver=cvc5-strings"):
        # string-theory lemma: z3's sequence solver is unstable on these; cvc5 --strings-exp decides them
        with tempfile.NamedTemporaryFile("w", suffix=".smt2", delete=False) as f:
            f.write(txt)
            fn = f.name
        try:
            out = subprocess.run([CVC5, "--lang", "smt2", "--strings-exp", "--tlimit=%d" % int(timeout_ms), fn],
                                 capture_output=True, text=True, timeout=timeout_ms / 1000.0 + 10)
            ans = out.stdout.strip().split("\n")[0] if out.stdout.strip() else ""
        except subprocess.TimeoutExpired:
            ans = "timeout"
        finally:
            os.unlink(fn)
        if ans == "unsat":
            return key, "unsat", "cvc5", time.time() - t0, None
        if ans == "sat":
            return key, "sat", "cvc5", time.time() - t0, {"note": "cvc5 reports sat (no model extracted)"}
        return key, "unknown", "cvc5", time.time() - t0, {"cvc5": ans}
    s = z3.Solver()
    s.set("timeout", int(timeout_ms))
    try:
        s.from_string(txt)
        r = s.check() if timeout_ms <= 5000 else None
        if r is None:
            # a quick attempt on the whole formula, then on its independent parts, then the full budget
            s.set("timeout", 1000)
            r = s.check()
            if r == z3.unknown:
                asserts = list(s.assertions())
                groups = _components(asserts)
                if len(groups) > 1:
                    gi = None
                    mark = txt.rfind("; goal-index=")
                    if mark >= 0:
                        try:
                            gi = int(txt[mark + 13:].split()[0])
                        except ValueError:
                            gi = None
                    goal_a = asserts[gi] if gi is not None and gi < len(asserts) else None
                    goal_sat = None
                    all_sat, merged = True, {}
                    # the part holding the negated goal first
                    groups.sort(key=lambda g: (0 if (goal_a is not None and any(a.eq(goal_a) for a in g)) else 1, len(g)))
                    for n_g, g in enumerate(groups):
                        sg = z3.Solver()
                        sg.set("timeout", max(3000, int(timeout_ms) // 3))
                        sg.add(*g)
                        rg = sg.check()
                        if rg == z3.unsat:
                            return key, "unsat", "z3", time.time() - t0, None
                        if rg == z3.sat:
                            md = _model_dict(sg.model())
                            merged.update(md or {})
                            if n_g == 0 and goal_a is not None:
                                goal_sat = md
                        else:
                            all_sat = False
                    if all_sat:
                        return key, "sat", "z3", time.time() - t0, merged
                    if goal_sat is not None:
                        # the negated goal is satisfiable together with every hypothesis it shares a symbol with, and no
                        # independent part of the hypotheses is contradictory within the budget: undecided only because
                        # some independent (quantified) part has no model the solver can construct
                        return key, "unknown", "z3", time.time() - t0, {
                            "z3_reason": "negated goal satisfiable with the hypotheses it depends on; an independent quantified part of the path condition is undecided",
                            "relaxed_model": goal_sat}
                s.set("timeout", int(timeout_ms))
                r = s.check()
    except z3.Z3Exception as e:
        return key, "error", "z3", time.time() - t0, {"error": str(e)[:300]}
    if r == z3.unsat:
        return key, "unsat", "z3", time.time() - t0, None
    if r == z3.sat:
        return key, "sat", "z3", time.time() - t0, _model_dict(s.model())
    reason = s.reason_unknown()
    # a time-out on a busy machine is not evidence of anything: one retry with three times the budget
    try:
        busy = os.getloadavg()[0] > 0.75 * (os.cpu_count() or 4)
    except OSError:
        busy = False
    if busy and ("timeout" in reason or "canceled" in reason):
        s_r = z3.Solver()
        s_r.set("timeout", int(timeout_ms) * 3)
        try:
            s_r.from_string(txt)
            r2 = s_r.check()
            if r2 == z3.unsat:
                return key, "unsat", "z3", time.time() - t0, None
            if r2 == z3.sat:
                return key, "sat", "z3", time.time() - t0, _model_dict(s_r.model())
        except z3.Z3Exception:
            pass
    relaxed = None
    try:
        from .core import _has_quantifier
        s2 = z3.Solver()
        s2.set("timeout", 5000)
        for a in s.assertions():
            if not _has_quantifier(a):
                s2.add(a)
        if s2.check() == z3.sat:
            relaxed = _model_dict(s2.model())
    except z3.Z3Exception:
        relaxed = None
    if use_cvc5 and os.path.exists(CVC5):
        t1 = time.time()
        with tempfile.NamedTemporaryFile("w", suffix=".smt2", delete=False) as f:
            f.write("(set-logic ALL)\n" + txt)
            fn = f.name
        try:
            out = subprocess.run([CVC5, "--lang", "smt2", "--tlimit=%d" % int(timeout_ms), fn],
                                 capture_output=True, text=True, timeout=timeout_ms / 1000.0 + 10)
            ans = out.stdout.strip().split("\n")[0] if out.stdout.strip() else ""
        except subprocess.TimeoutExpired:
            ans = "timeout"
        finally:
            os.unlink(fn)
        if ans == "unsat":
            return key, "unsat", "cvc5", time.time() - t0, None
        # a cvc5 'sat' carries no model we replay; keep it undecided unless z3 can confirm
        return key, "unknown", "z3+cvc5", time.time() - t0, {"z3_reason": reason, "cvc5": ans, "cvc5_s": round(time.time() - t1, 2),
                                                               "relaxed_model": relaxed}
    return key, "unknown", "z3", time.time() - t0, {"z3_reason": reason, "relaxed_model": relaxed}


def discharge(jobs, workers=None):
    """jobs: list of (key, smt2, timeout_ms, use_cvc5).  Returns {key: (status, backend, secs, model)}."""
    if not jobs:
        return {}
    workers = workers or min(16, os.cpu_count() or 4)
    results = {}
    if len(jobs) <= 2 or workers == 1:
        for j in jobs:
            k, st, be, sec, mod = solve_one(j)
            results[k] = (st, be, sec, mod)
        return results
    with ProcessPoolExecutor(max_workers=workers) as ex:
        for k, st, be, sec, mod in ex.map(solve_one, jobs, chunksize=max(1, len(jobs) // (workers * 4))):
            results[k] = (st, be, sec, mod)
    return results
