"""Modelling table for library code (the trusted base of DESIGN §3).

Every entry is an *assumed contract* of a dependency; using one records the assumption in
the evidence.  Anything not listed is out of subset (undecided), never guessed.
"""
import fractions
import math

import z3

from . import ops
from .core import OutOfSubset, PyRaise, PathEnd, is_z3, z3num, z3bool, fresh_name
from .values import (NTuple, EnumVal, SliceVal, FuncVal, BoundMethod, Ext, Opaque, Inst, PyList, PyDict, SymSeq,
                     StrSeq, Tok)
from .ops import simp


class NoopCM(object):
    def __init__(self, value=None):
        self.value = value


class EventCM(object):
    """Context manager that emits enter/exit events (exit also on exceptional exit)."""

    def __init__(self, kind, key, value=None):
        self.kind, self.key, self.value = kind, key, value


class ExternalModels(object):
    def __init__(self):
        self.calls = {}         # dotted name -> fn(interp, args, kwargs)
        self.opaque = {}        # (kind, method) -> fn(interp, obj, args, kwargs)
        self.plugins = []       # objects implementing a subset of the hook methods (array model, ...)
        install_defaults(self)

    def register(self, name):
        def deco(fn):
            self.calls[name] = fn
            return fn
        return deco

    def register_opaque(self, kind, method):
        def deco(fn):
            self.opaque[(kind, method)] = fn
            return fn
        return deco

    def _plug(self, hook, *a, default=NotImplemented):
        for p in self.plugins:
            fn = getattr(p, hook, None)
            if fn is not None:
                r = fn(*a)
                if r is NotImplemented:
                    continue
                if default is None and r is None:
                    continue
                if default is False and r is False:
                    continue
                return r
        return default

    # ---- hooks used by the interpreter ----
    def call(self, interp, name, args, kwargs):
        fn = self.calls.get(name)
        if fn is None:
            # numpy alias
            if name.startswith("numpy."):
                fn = self.calls.get("np." + name[6:])
            if fn is None:
                return self._plug("call", interp, name, args, kwargs)
        return fn(interp, args, kwargs)

    def opaque_call(self, interp, obj, method, args, kwargs):
        fn = self.opaque.get((obj.kind, method))
        if fn is None:
            fn = self.opaque.get((obj.kind, "*"))
            if fn is None:
                return NotImplemented
            return fn(interp, obj, method, args, kwargs)
        return fn(interp, obj, args, kwargs)

    def is_array(self, v):
        return any(getattr(p, "is_array", lambda v: False)(v) for p in self.plugins)

    def array_binop(self, interp, op, a, b):
        r = self._plug("array_binop", interp, op, a, b)
        if r is NotImplemented:
            raise OutOfSubset("array arithmetic")
        return r

    def array_compare(self, interp, op, a, b):
        r = self._plug("array_compare", interp, op, a, b)
        if r is NotImplemented:
            raise OutOfSubset("array comparison")
        return r

    def invert(self, interp, v):
        r = self._plug("invert", interp, v)
        if r is NotImplemented:
            raise OutOfSubset("~ on %r" % (v,))
        return r

    def identical(self, interp, a, b):
        return self._plug("identical", interp, a, b, default=None)

    def contains(self, interp, container, x):
        return self._plug("contains", interp, container, x, default=None)

    def getattr(self, interp, base, attr):
        return self._plug("getattr", interp, base, attr)

    def setattr(self, interp, base, attr, v):
        return self._plug("setattr", interp, base, attr, v, default=False)

    def getitem(self, interp, base, idx):
        return self._plug("getitem", interp, base, idx)

    def setitem(self, interp, base, idx, v):
        return self._plug("setitem", interp, base, idx, v, default=False)

    def delitem(self, interp, base, idx):
        return self._plug("delitem", interp, base, idx, default=False)

    def inplace(self, interp, op, cur, val):
        return self._plug("inplace", interp, op, cur, val)

    def unpack(self, interp, v, n):
        return self._plug("unpack", interp, v, n, default=None)

    def iter_concrete(self, interp, it):
        return self._plug("iter_concrete", interp, it, default=None)

    def arbitrary_item(self, interp, it, label):
        return self._plug("arbitrary_item", interp, it, label, default=None)

    def is_mutable_model(self, obj):
        return any(getattr(p, "is_mutable_model", lambda o: False)(obj) for p in self.plugins)

    def havoc(self, interp, obj, expr):
        return self._plug("havoc", interp, obj, expr, default=False)

    def method(self, interp, recv, name, args, kwargs):
        return self._plug("method", interp, recv, name, args, kwargs)

    def str_method(self, interp, s, name, args, kwargs):
        return self._plug("str_method", interp, s, name, args, kwargs)

    def to_int(self, interp, x):
        return self._plug("to_int", interp, x)

    def parse_int(self, interp, s):
        return self._plug("parse_int", interp, s)

    def parse_float(self, interp, s):
        return self._plug("parse_float", interp, s)

    def length(self, interp, x):
        return self._plug("length", interp, x)

    def listify(self, interp, x, kind):
        return self._plug("listify", interp, x, kind)

    def hasattr(self, interp, obj, attr):
        return self._plug("hasattr", interp, obj, attr)

    def isinstance(self, interp, v, n):
        return self._plug("isinstance", interp, v, n)

    def enter_context(self, interp, cm, run_body):
        if isinstance(cm, NoopCM):
            run_body(cm.value)
            return True
        if isinstance(cm, EventCM):
            interp.path.event("enter", cm.kind, cm.key)
            try:
                run_body(cm.value)
            finally:
                interp.path.event("exit", cm.kind, cm.key)
            return True
        r = self._plug("enter_context", interp, cm, run_body, default=False)
        return bool(r)


def _real(v):
    z = z3num(v)
    return z3.ToReal(z) if z3.is_int(z) else z


def install_defaults(X):
    R = X.register

    # ---- constants ----
    @R("np.pi")
    def _(interp, args, kwargs):
        raise OutOfSubset("np.pi is a constant")

    # ---- dropped constructs (no-ops) ----
    @R("toasty.progress.progress_bar")
    def _(interp, args, kwargs):
        interp.note_dropped("progress_bar(...) context manager / progress.update(n)")
        return NoopCM(Opaque("progress"))

    @R("warnings.catch_warnings")
    def _(interp, args, kwargs):
        interp.note_dropped("warnings.* context managers")
        return NoopCM(None)

    @R("warnings.simplefilter")
    def _(interp, args, kwargs):
        return None

    @R("warnings.warn")
    def _(interp, args, kwargs):
        interp.note_dropped("warnings.warn(...)")
        return None

    @R("time.time")
    def _(interp, args, kwargs):
        interp.note_dropped("time.time()")
        return z3.Real(fresh_name("time"))

    @R("sys.stdout.flush")
    def _(interp, args, kwargs):
        return None

    @X.register_opaque("progress", "update")
    def _(interp, obj, args, kwargs):
        return None

    # ---- numpy scalar functions on reals ----
    @R("np.floor")
    def _(interp, args, kwargs):
        x = args[0]
        if X.is_array(x):
            return X._plug("call", interp, "np.floor", args, kwargs)
        if ops.concrete_num(x):
            return fractions.Fraction(math.floor(x))
        if z3.is_int(x):
            return FloatInt(x)
        return FloatInt(z3.ToInt(x))

    @R("np.ceil")
    def _(interp, args, kwargs):
        x = args[0]
        if ops.concrete_num(x):
            return fractions.Fraction(math.ceil(x))
        if z3.is_int(x):
            return FloatInt(x)
        return FloatInt(simp(-z3.ToInt(-x)))

    @R("np.log2")
    def _(interp, args, kwargs):
        x = args[0]
        if isinstance(x, int):
            if x > 0 and x & (x - 1) == 0:
                return fractions.Fraction(x.bit_length() - 1)
            raise OutOfSubset("np.log2 of a non-power-of-two")
        # assumed contract: int(np.log2(2**k)) == k, 0 <= k <= 62 (np.log2 is exact on powers of two)
        interp.note_assumption("np.log2 is exact on powers of two: int(np.log2(2**k)) == k for 0 <= k <= 62")
        x = z3num(x)
        interp.side_obligation("log2_of_power_of_two", z3.And(ops.ilog2(x) >= 0, x == ops.pow2(ops.ilog2(x))))
        return FloatInt(ops.ilog2(x))

    @R("os.path.join")
    def _(interp, args, kwargs):
        parts = []
        for k, a in enumerate(args):
            if k:
                parts.append("/")
            parts.append(interp.to_str(a))
        interp.note_assumption("os.path.join(a, b, ...) == a + '/' + b + ... (relative components, POSIX)")
        return interp.mk_str(parts)


class FloatInt(object):
    """A float known to hold an integer value (result of np.floor / np.ceil / np.log2 on a
    power of two): ``int(v)`` and ``v.astype(int)`` give the Int term back."""

    def __init__(self, term):
        self.term = term

    def __repr__(self):
        return "<float-int %s>" % self.term


class ScalarPlugin(object):
    """np scalars: FloatInt unwrapping."""

    def to_int(self, interp, x):
        if isinstance(x, FloatInt):
            return x.term
        return NotImplemented

    def method(self, interp, recv, name, args, kwargs):
        if isinstance(recv, FloatInt) and name == "astype":
            return recv.term
        if name == "astype" and ops.is_int(recv) and args and isinstance(args[0], Ext) and args[0].name == "builtin:int":
            return recv
        return NotImplemented

    def getattr(self, interp, base, attr):
        if isinstance(base, FloatInt) or ops.is_num(base):
            return BoundMethod(base, attr)
        from .stmts import ExcObj
        if isinstance(base, ExcObj) and attr == "errno":
            return base.errno
        return NotImplemented


def default_externals():
    X = ExternalModels()
    X.plugins.append(ScalarPlugin())
    from . import symlist, symmap, mpmodel, ndarray
    ndarray.install(X)
    symlist.install(X)
    symmap.install(X)
    mpmodel.install(X)
    return X
