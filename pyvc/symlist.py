"""Mutable python lists of symbolic length (``os.listdir`` results, ...) and the assumed
contracts of os / open / shutil used by the pipeline code (DESIGN §3.4)."""
import z3

from . import ops
from .core import OutOfSubset, PyRaise, PathEnd, is_z3, z3num, z3bool, fresh_name
from .values import (NTuple, SliceVal, BoundMethod, Ext, Opaque, PyList, SymSeq, StrSeq, Tok, StrId)
from .externals import EventCM, NoopCM
from .ops import simp


class SymList(object):
    """length: Int term; arr: z3 Array Int -> Int; kind: 'strid' | 'int'."""

    def __init__(self, length, arr, kind, label="list"):
        self.length = length
        self.arr = arr
        self.kind = kind
        self.label = label

    def wrap(self, term):
        return StrId(term) if self.kind == "strid" else term

    def unwrap(self, interp, v):
        if self.kind == "strid":
            t = ops.str_ident(v)
            if t is None:
                raise OutOfSubset("storing %r into a list of strings" % (v,))
            return t
        return z3num(v)

    def freeze(self):
        arr, kind = self.arr, self.kind
        s = SymSeq(self.length, lambda k, arr=arr: (StrId(z3.Select(arr, z3num(k))) if kind == "strid" else z3.Select(arr, z3num(k))),
                   self.label)
        s.arr = arr
        return s

    def snapshot(self, memo):
        return SymList(self.length, self.arr, self.kind, self.label)

    def __repr__(self):
        return "<SymList %s len=%s>" % (self.label, self.length)


class SymListPlugin(object):
    def is_mutable_model(self, obj):
        return isinstance(obj, SymList)

    def getitem(self, interp, base, idx):
        if not isinstance(base, SymList):
            return NotImplemented
        if isinstance(idx, SliceVal):
            raise OutOfSubset("slice of symbolic list")
        i = z3num(idx)
        eff = simp(z3.If(i < 0, i + base.length, i))
        interp.side_obligation("index_in_range", z3.And(eff >= 0, eff < base.length))
        return base.wrap(z3.Select(base.arr, eff))

    def setitem(self, interp, base, idx, v):
        if not isinstance(base, SymList):
            return False
        i = z3num(idx)
        eff = simp(z3.If(i < 0, i + base.length, i))
        interp.side_obligation("index_in_range", z3.And(eff >= 0, eff < base.length))
        base.arr = z3.Store(base.arr, eff, base.unwrap(interp, v))
        return True

    def getattr(self, interp, base, attr):
        if isinstance(base, SymList):
            return BoundMethod(base, attr)
        return NotImplemented

    def length(self, interp, x):
        if isinstance(x, SymList):
            return x.length
        return NotImplemented

    def method(self, interp, recv, name, args, kwargs):
        if not isinstance(recv, SymList):
            return NotImplemented
        if name == "index":
            x = recv.unwrap(interp, args[0])
            j = z3.Int(fresh_name("j"))
            found = z3.Exists([j], z3.And(j >= 0, j < recv.length, z3.Select(recv.arr, j) == x))
            if interp.path.choose(found):
                i = z3.Int(fresh_name("index"))
                interp.path.assume(z3.And(i >= 0, i < recv.length, z3.Select(recv.arr, i) == x))
                interp.path.assume(z3.ForAll([j], z3.Implies(z3.And(j >= 0, j < i), z3.Select(recv.arr, j) != x),
                                             patterns=[z3.Select(recv.arr, j)]))
                return i
            interp.path.assume(z3.ForAll([j], z3.Implies(z3.And(j >= 0, j < recv.length), z3.Select(recv.arr, j) != x),
                                         patterns=[z3.Select(recv.arr, j)]))
            raise PyRaise("ValueError", origin="list.index: not in list")
        if name == "append":
            recv.arr = z3.Store(recv.arr, recv.length, recv.unwrap(interp, args[0]))
            recv.length = simp(recv.length + 1)
            return None
        raise OutOfSubset("method %s of a symbolic list" % name)

    def arbitrary_item(self, interp, it, label):
        if isinstance(it, SymList):
            it = it.freeze()
            k = z3.Int(fresh_name(label + "_k"))
            return it.at(k), z3.And(k >= 0, k < it.length), k
        return None

    def listify(self, interp, x, kind):
        if isinstance(x, SymList):
            return SymList(x.length, x.arr, x.kind, x.label)
        return NotImplemented

    def str_method(self, interp, s, name, args, kwargs):
        if name == "startswith" and isinstance(s, StrSeq):
            pre = args[0]
            pre = pre if isinstance(pre, StrSeq) else StrSeq([pre])
            a, b = list(s.parts), list(pre.parts)
            for k, pb in enumerate(b):
                if k >= len(a):
                    return False
                pa = a[k]
                last = k == len(b) - 1
                if isinstance(pb, str) and isinstance(pa, str):
                    if last:
                        if not pa.startswith(pb):
                            return False if not pb.startswith(pa) or len(a) == k + 1 else _undecided()
                    elif pa != pb:
                        return False
                elif isinstance(pb, Tok) and isinstance(pa, Tok):
                    if pa != pb:
                        return _undecided()
                else:
                    return _undecided()
            return True
        return NotImplemented

    def to_str_hook(self, interp, v):
        if isinstance(v, StrId):
            return StrSeq([Tok(str(v.ident), "strid", v.ident)])
        return NotImplemented


def _undecided():
    raise OutOfSubset("string prefix test on symbolic strings")


def fresh_str_list(interp, label, distinct=True):
    length = z3.Int(fresh_name(label + ".len"))
    arr = z3.Array(fresh_name(label), z3.IntSort(), z3.IntSort())
    interp.path.assume(length >= 0)
    if distinct:
        i, j = z3.Int(fresh_name("i")), z3.Int(fresh_name("j"))
        interp.path.assume(z3.ForAll([i, j], z3.Implies(z3.And(0 <= i, i < j, j < length), z3.Select(arr, i) != z3.Select(arr, j)),
                                     patterns=[z3.MultiPattern(z3.Select(arr, i), z3.Select(arr, j))]))
    return SymList(length, arr, "strid", label)


def install(X):
    X.plugins.append(SymListPlugin())

    @X.register("os.listdir")
    def _(interp, args, kwargs):
        interp.note_assumption("os.listdir returns each directory entry exactly once, in arbitrary order")
        lst = fresh_str_list(interp, "listdir", distinct=True)
        interp.path.event("listdir", args[0], lst.freeze())
        return lst

    @X.register("os.rename")
    def _(interp, args, kwargs):
        interp.note_assumption("os.rename is atomic")
        interp.path.event("rename", args[0], args[1])
        return None

    @X.register("os.makedirs")
    def _(interp, args, kwargs):
        interp.path.event("makedirs", args[0])
        return None

    @X.register("os.unlink")
    def _(interp, args, kwargs):
        interp.path.event("unlink_start", args[0])
        if interp.path.nondet("unlink_fails"):
            raise PyRaise("FileNotFoundError", origin="os.unlink: no such file (assumed contract)")
        interp.path.event("unlink", args[0])
        return None

    @X.register("os.remove")
    def _(interp, args, kwargs):
        interp.path.event("unlink_start", args[0])
        if interp.path.nondet("unlink_fails"):
            raise PyRaise("FileNotFoundError", origin="os.remove: no such file (assumed contract)")
        interp.path.event("unlink", args[0])
        return None

    @X.register("builtin.open")
    def _(interp, args, kwargs):
        mode = args[1] if len(args) > 1 else kwargs.get("mode", "r")
        interp.path.event("open_start", args[0], mode)
        if interp.path.nondet("open_fails"):
            raise PyRaise("OSError", origin="open() failed (assumed contract: may fail)")
        f = Opaque("file")
        f.attrs["path"] = args[0]
        f.attrs["mode"] = mode
        return EventCM("open", args[0], f)

    @X.register("shutil.copyfileobj")
    def _(interp, args, kwargs):
        interp.note_assumption("shutil.copyfileobj may leave the destination partially written if interrupted")
        interp.path.event("copy_start", args[0], args[1])
        if interp.path.nondet("copy_fails"):
            raise PyRaise("OSError", origin="copyfileobj interrupted (assumed contract: may fail)")
        interp.path.event("copy_done", args[0], args[1])
        return None

    @X.register("os.path.split")
    def _(interp, args, kwargs):
        p = args[0]
        return (Opaque("dirname"), Opaque("basename"))

    @X.register("os.path.dirname")
    def _(interp, args, kwargs):
        return Opaque("dirname")

    @X.register("os.path.basename")
    def _(interp, args, kwargs):
        return Opaque("basename")

    @X.register("os.path.exists")
    def _(interp, args, kwargs):
        return z3.Bool(fresh_name("exists"))
