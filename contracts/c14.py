"""C14 — FITS pyramids carry the leaves' true data range up to the root and the WTML."""
PROPERTY = "C14"
LEVEL = "other"
CONTRACT_MODULES = ["contracts.specfuns", "contracts.lemmas_desc", "contracts.pyramid", "contracts.image", "contracts.merge", "contracts.pyramidio", "contracts.collection", "contracts.datarange", "contracts.study", "contracts.paths", "contracts.parallel", "contracts.multitan", "contracts.toastsample", "contracts.builderc", "contracts.walk", "contracts.reducer", "contracts.lemmas_embed", "contracts.generator", "contracts.toastgeom", "contracts.toastgen", "contracts.multiwcs"]
FUNCTIONS = ["toasty.merge.TileMerger._get_min_max_of_children", "toasty.merge.TileMerger.walk_callback",
             "toasty.image.Image.save", "toasty.image.Image.from_array", "toasty.image.ImageLoader.load_path",
             "toasty.builder.Builder.cascade"]
LEMMAS = []
SLOW = ()
TRUSTED_BASE = ["pyvc VC generator; z3/cvc5", "FITS header card round trip to single precision (bounded tier)"]
ASSUMPTIONS = ["induction up the pyramid (DATAMIN(p) = min over the leaves beneath p) follows from the min/max combination proved "
               "here, the forwarding proved on walk_callback/write_image and the children-before-parent order (C01); the "
               "induction itself is not machine-checked"]
EXPLANATION = "min/max combination and its forwarding into the written tile proved; header codec and real cascades bounded"
