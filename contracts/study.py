"""Contracts for toasty/study.py (C08, reused by C09/C17)."""
from pyvc.contracts_api import contract
from . import specfuns  # noqa: F401
from . import pyramid  # noqa: F401

TILING_FIELDS = dict(_width="int", _height="int", _p2n="int", _tile_size="int", _tile_levels="int",
                     _img_gx0="int", _img_gy0="int")

# class invariant of a StudyTiling (top-level or sub-image): geometry inside the square
INV = ("self._width >= 1 and self._height >= 1 and self._img_gx0 >= 0 and self._img_gy0 >= 0 "
       "and self._img_gx0 + self._width <= self._p2n and self._img_gy0 + self._height <= self._p2n "
       "and self._p2n == 256 * self._tile_size and self._tile_size >= 1 "
       "and self._tile_levels >= 0 and pow2(self._tile_levels) == self._tile_size")


@contract("toasty.study.StudyTiling.__init__")
def _(c):
    c.self_type("StudyTiling")
    c.args(width="int", height="int")
    c.raises("ValueError", when="width <= 0 or height <= 0")
    c.ensures("self._width == width and self._height == height", name="size_recorded")
    c.ensures("ispow2(self._p2n) and self._p2n >= 256 and self._p2n >= width and self._p2n >= height",
              name="square_contains_image")
    c.ensures("self._p2n == 256 or 2 * width > self._p2n or 2 * height > self._p2n", name="square_smallest")
    c.ensures("self._tile_size * 256 == self._p2n and self._tile_size >= 1", name="tile_size")
    c.ensures("self._tile_levels >= 0 and pow2(self._tile_levels) == self._tile_size", name="tile_levels")
    c.ensures("self._img_gx0 >= 0 and self._img_gx0 + width <= self._p2n "
              "and 0 <= (self._p2n - width - self._img_gx0) - self._img_gx0 <= 1", name="centred_x_rounded_down")
    c.ensures("self._img_gy0 >= 0 and self._img_gy0 + height <= self._p2n "
              "and 0 <= (self._p2n - height - self._img_gy0) - self._img_gy0 <= 1", name="centred_y_rounded_down")
    c.init_fields(**TILING_FIELDS)


@contract("toasty.study.StudyTiling.count_populated_positions")
def _(c):
    c.self_type("StudyTiling", **TILING_FIELDS)
    c.requires(INV)
    c.returns("int")
    c.ensures("result == ((self._img_gy0 + self._height - 1) // 256 + 1 - self._img_gy0 // 256) "
              "* ((self._img_gx0 + self._width - 1) // 256 + 1 - self._img_gx0 // 256)", name="rows_times_cols")
    c.ensures("result >= 1", name="positive")


from pyvc.families import yields_cover, yields_count  # noqa: E402


@contract("toasty.study.StudyTiling.generate_populated_positions")
def _(c):
    c.self_type("StudyTiling", **TILING_FIELDS)
    c.requires(INV)
    c.yields("tuple[Pos,int,int,int,int,int,int]")
    c.loop(0, summarise="stateless")   # for ity in range(tile_start_ty, tile_end_ty + 1)
    c.loop(1, summarise="stateless")   # for itx in range(tile_start_tx, tile_end_tx + 1)
    c.yields_each("item[0].n == self._tile_levels and 0 <= item[0].x < self._tile_size "
                  "and 0 <= item[0].y < self._tile_size", name="pos_in_deepest_layer")
    c.yields_each("1 <= item[1] <= 256 and 1 <= item[2] <= 256", name="rect_nonempty")
    c.yields_each("0 <= item[5] and item[5] + item[1] <= 256 and 0 <= item[6] and item[6] + item[2] <= 256",
                  name="rect_inside_tile")
    c.yields_each("0 <= item[3] and item[3] + item[1] <= self._width and 0 <= item[4] "
                  "and item[4] + item[2] <= self._height", name="rect_inside_image")
    c.yields_each("item[3] + self._img_gx0 == 256 * item[0].x + item[5] "
                  "and item[4] + self._img_gy0 == 256 * item[0].y + item[6]", name="same_global_pixel")
    # every image pixel lies in the rectangle of exactly one yielded item (disjoint cover)
    c.post(yields_cover(
        ["px", "py"], "0 <= px < self._width and 0 <= py < self._height",
        witness={0: "(py + self._img_gy0) // 256", 1: "(px + self._img_gx0) // 256"},
        holds="item[3] <= px < item[3] + item[1] and item[4] <= py < item[4] + item[2]",
        unique=True, name="pixel_partition"))
    c.post(yields_count("self.count_populated_positions()", [0, 1], name="reported_count"))


# a tiling exactly as StudyTiling.__init__ leaves it (receiver of compute_for_subimage)
TOP = (INV + " and ispow2(self._p2n) and self._p2n >= 256 and self._p2n >= self._width and self._p2n >= self._height "
       "and (self._p2n == 256 or 2 * self._width > self._p2n or 2 * self._height > self._p2n) "
       "and self._img_gx0 == (self._p2n - self._width) // 2 and self._img_gy0 == (self._p2n - self._height) // 2")


@contract("toasty.study.StudyTiling.compute_for_subimage")
def _(c):
    c.self_type("StudyTiling", **TILING_FIELDS)
    c.args(subim_ix="int", subim_iy="int", subim_width="int", subim_height="int")
    c.requires(TOP, name="receiver_is_top_level_tiling")
    c.requires("subim_width >= 1 and subim_height >= 1", name="sizes_at_least_one")
    c.raises("ValueError", when="subim_width > self._width or subim_height > self._height or subim_ix < 0 "
             "or subim_ix + subim_width > self._width or subim_iy < 0 or subim_iy + subim_height > self._height")
    c.returns("StudyTiling")
    c.ensures("result._p2n == self._p2n and result._tile_size == self._tile_size "
              "and result._tile_levels == self._tile_levels", name="shares_parent_geometry")
    c.ensures("result._width == subim_width and result._height == subim_height", name="sub_size")
    c.ensures("result._img_gx0 == self._img_gx0 + subim_ix and result._img_gy0 == self._img_gy0 + subim_iy",
              name="sub_offset_in_global_pixels")
    c.ensures(INV.replace("self.", "result."), name="class_invariant")


@contract("toasty.study.StudyTiling.image_to_tile")
def _(c):
    c.self_type("StudyTiling", **TILING_FIELDS)
    c.args(im_ix="int", im_iy="int")
    c.requires(INV)
    c.returns("tuple[int,int,int,int]")
    c.ensures("256 * result[0] + result[2] == im_ix + self._img_gx0 and 0 <= result[2] < 256", name="x_slot")
    c.ensures("256 * result[1] + result[3] == im_iy + self._img_gy0 and 0 <= result[3] < 256", name="y_slot")

from pyvc.types import register_type, fresh_of_type as _fresh  # noqa: E402
from pyvc.values import Inst as _Inst  # noqa: E402


def _fresh_tiling(interp, name):
    inst = _Inst("StudyTiling", module="toasty.study")
    for f, t in TILING_FIELDS.items():
        inst.fields[f] = _fresh(interp, t, "%s.%s" % (name, f))
    return inst


register_type("StudyTiling", _fresh_tiling)


# ---------------------------------------------------------------------------
# tile_image: every written tile shows, in display orientation, exactly its rectangle of the image

import z3  # noqa: E402
from pyvc import ops  # noqa: E402
from pyvc.core import z3num, fresh_name  # noqa: E402
from pyvc.values import Inst as _I, Opaque as _Opaque  # noqa: E402
from pyvc.ops import simp  # noqa: E402
from . import image as im  # noqa: E402
from . import merge as _merge  # noqa: E402,F401  (PyramidIO event contracts, from_array inline)

for _qn in ("toasty.image.Image.height", "toasty.image.Image.width", "toasty.image.Image.shape",
            "toasty.pyramid.PyramidIO.get_default_vertical_parity_sign", "toasty.image.get_format_vertical_parity_sign"):
    contract(_qn)(lambda c: c.inline())

TILE_CASES = [{"mode": m, "bottom_up": bu} for m in im.MODES for bu in (False, True)]


def tile_image_setup(interp, path):
    case = interp._case
    me = _fresh_tiling(interp, "self")
    image = im.mk_image(interp, "image", case["mode"], me.fields["_height"], me.fields["_width"])
    pio = _I("PyramidIO", module="toasty.pyramid", fields={
        "_base_dir": "base", "_scheme": "{1}/{3}/{3}_{2}", "_default_format": "fits" if case["bottom_up"] else "npy"})
    return {"self": me, "image": image, "pio": pio, "cli_progress": False}


def tile_image_trace(m, path, fr, env, outcome, value, exc):
    case = m._case
    bu = case["bottom_up"]
    ev = path.events
    image = fr.entry_env.lookup("image")
    for si in [i for i, e in enumerate(ev) if e[0] == "loop_iter" and e[1] == 0]:
        seg = ev[si + 1:]
        if not any(e[0] == "loop_iter_end" and e[1] == 0 for e in seg):
            continue
        pos, w, h, ix, iy, tx, ty = fr.last_loop_item[0]
        writes = [e for e in seg if e[0] == "call" and e[1].endswith("PyramidIO.write_image")]
        ok = len(writes) == 1
        path.oblige(m.oblname("one_tile_written_per_populated_position"), z3.BoolVal(ok), kind="trace", assume_after=False)
        if not ok:
            continue
        args = writes[0][2]
        same_pos = ops.equals(m, args["pos"], pos)
        path.oblige(m.oblname("tile_written_at_its_position_in_the_default_format"),
                    ops.conj([same_pos, args.get("format") is None]), kind="trace", assume_after=False)
        B = args["image"]
        R, C = z3.Int(fresh_name("R")), z3.Int(fresh_name("C"))
        saved = list(path.pc)
        path.assume(z3.And(R >= 0, R < 256, C >= 0, C < 256))
        br = simp(255 - R) if bu else R
        inside = z3.And(R >= z3num(ty), R < z3num(ty) + z3num(h), C >= z3num(tx), C < z3num(tx) + z3num(w))
        sr, sc = simp(z3num(iy) + (R - z3num(ty))), simp(z3num(ix) + (C - z3num(tx)))
        path.oblige(m.oblname("displayed_rectangle_shows_the_image_pixels"),
                    ops.implies(inside, im.pix_takes_source(m, B, br, C, image, sr, sc)), kind="trace", assume_after=False)
        path.oblige(m.oblname("everything_outside_the_rectangle_is_undefined"),
                    ops.implies(z3.Not(inside), im.pix_blank(m, B, br, C)), kind="trace", assume_after=False)
        path.pc[:] = saved


@contract("toasty.study.StudyTiling.tile_image")
def _(c):
    c.cases(*TILE_CASES)
    c.setup(tile_image_setup)
    c.requires(INV)
    c.loop(0, summarise="stateless")
    c.on_path(tile_image_trace)
