"""TOAST tile enumeration (C13 TOAST branch, C07 pruning rule, C04 enumeration route): toast._postfix_corner,
generate_tiles, generate_tiles_filtered.

_postfix_corner(tile, depth, filter, bottom_only), by induction on the recursion (callee contract = induction
hypothesis), over the positions of the yielded tiles:
  in_scope            every yielded tile lies at or below `tile`, not deeper than `depth`
  passed_the_filter   every yielded tile deeper than level 1 was accepted by the filter
  bottom_only         with bottom_only only tiles of level `depth` are yielded
  distinct, descendants_first, root_last (when the start tile itself is yielded)
The filter is the opaque deterministic function of the tile's position used for sub-pyramids (contracts/generator.py).
Geometry of the yielded tiles (corners) is C04's business (_div4)."""
import z3

from pyvc.contracts_api import contract
from pyvc.core import fresh_name, z3num
from pyvc.ops import simp
from pyvc.values import NTuple, Opaque, PyList
from pyvc.types import register_seq_type
from . import specfuns  # noqa: F401
from .specfuns import Child
from . import toastgeom as _tg
from . import generator as _gen  # noqa: F401   (UserFilter model of an opaque tile filter)


def _seq_tile(interp, base, k):
    fs = [z3.Function("%s.pos.%s" % (base, f), z3.IntSort(), z3.IntSort()) for f in ("n", "x", "y")]
    inc = z3.Function("%s.increasing" % base, z3.IntSort(), z3.BoolSort())
    pos = NTuple("Pos", ("n", "x", "y"), [f(k) for f in fs])
    corners = tuple(Opaque("point", "%s.c%d[%s]" % (base, j, k)) for j in range(4))
    return NTuple("Tile", ("pos", "corners", "increasing"), [pos, corners, inc(k)])


register_seq_type("TileT", _seq_tile)


def _div4_model_marked(interp, env):
    """call-site view of _div4 (its contract, C04) + the child/parent marker of the Desc theory, which is CHECKED
    here (it is the definitional axiom of the marker applied to the child positions), then used"""
    kids = _tg._div4_model(interp, env)
    t = env.lookup("tile")
    pn, px, py = [z3num(v) for v in t.get("pos").vals]
    for kid in kids.items:
        cn, cx, cy = [z3num(v) for v in kid.get("pos").vals]
        interp.path.oblige(interp.oblname("div4_children_are_children_of_the_tile"), Child(cn, cx, cy, pn, px, py), kind="assert")
    return kids


contract("toasty.toast._div4")(lambda c: c.model(_div4_model_marked))


# recursive specification of HOW MANY tiles the enumeration below a tile yields (completeness: with in_scope and distinct
# it fixes the set): Cnt(t) = 0 if t is deeper than `depth` or rejected by the filter (below level 1), else the sum over
# the four children plus one if t itself is yielded.  Used through its definitional instance at the start tile.
Cnt = z3.Function("TilesYieldedBelow", z3.IntSort(), z3.IntSort(), z3.BoolSort(), z3.IntSort(), z3.IntSort(), z3.IntSort(), z3.IntSort())
_FIDS = {}


def filter_id(flt):
    """identity of a filter object as an integer constant (the recursive count is a function of the filter)"""
    if isinstance(flt, Opaque):
        key = ("opaque", flt.kind, flt.name)
    else:
        key = ("obj", id(flt))
        _FIDS.setdefault(("keep", id(flt)), flt)      # keep the object alive: ids are not reused
    if key not in _FIDS:
        _FIDS[key] = z3.Int("filter_id!%d" % len(_FIDS))
    return _FIDS[key]


def accepts(interp, flt, pos):
    """truth value of ``filter(tile)`` for the tile at ``pos`` (filters are functions of the tile; the corners of a
    TOAST tile are a function of its position)"""
    from pyvc import ops
    tile = NTuple("Tile", ("pos", "corners", "increasing"),
                  [pos, tuple(Opaque("point", "corner%d_of_%s" % (j, pos)) for j in range(4)), z3.Bool(fresh_name("inc"))])
    interp.spec_mode += 1
    try:
        return ops.truth(interp, interp.call_value(flt, [tile], {}))
    finally:
        interp.spec_mode -= 1


def cnt_unfold(interp, flt, depth, bo, pos):
    n, x, y = [z3num(v) for v in pos.vals]
    d = z3num(depth)
    b = z3.BoolVal(bo) if isinstance(bo, bool) else bo
    f = filter_id(flt)
    kids = [(n + 1, 2 * x + (k % 2), 2 * y + (k // 2)) for k in range(4)]
    own = z3.If(z3.Or(n == d, z3.Not(b)), 1, 0)
    acc = accepts(interp, flt, pos)
    acc = z3.BoolVal(acc) if isinstance(acc, bool) else acc
    return Cnt(f, d, b, n, x, y) == z3.If(n > d, 0, z3.If(z3.And(n > 1, z3.Not(acc)), 0,
                                                          z3.Sum([Cnt(f, d, b, *k) for k in kids]) + own))


from pyvc.contracts_api import spec  # noqa: E402


@spec
def tiles_yielded_below(interp, flt, depth, bo, pos):
    b = z3.BoolVal(bo) if isinstance(bo, bool) else bo
    return Cnt(filter_id(flt), z3num(depth), b, *[z3num(v) for v in pos.vals])


@spec
def tiles_yielded_unfold(interp, flt, depth, bo, pos):
    return cnt_unfold(interp, flt, depth, bo, pos)


@spec
def filter_accepts(interp, flt, pos):
    return accepts(interp, flt, pos)


def pc_setup(interp, path):
    case = interp._case
    tile = _tg.fresh_tile(interp, "tile")
    return {"tile": tile, "depth": z3.Int(fresh_name("depth")), "filter": Opaque("tile_filter", "tile_filter"),
            "bottom_only": case["bottom_only"]}


SEQ = [
    ("in_scope", "forall(lambda k: implies(0 <= k and k < len(Y), desc(Y[k].pos, tile.pos) and Y[k].pos.n <= depth), "
                 "trigger=lambda k: Y[k].pos.n)"),
    ("passed_the_filter", "forall(lambda k: implies(0 <= k and k < len(Y) and Y[k].pos.n > 1, filter_accepts(filter, Y[k].pos)), "
                          "trigger=lambda k: Y[k].pos.n)"),
    ("bottom_only_yields_only_the_deepest_level", "implies(bottom_only, forall(lambda k: implies(0 <= k and k < len(Y), Y[k].pos.n == depth), "
                                                  "trigger=lambda k: Y[k].pos.n))"),
    ("distinct", "forall(lambda i, j: implies(0 <= i and i < j and j < len(Y), Y[i].pos != Y[j].pos), "
                 "trigger=lambda i, j: (Y[i].pos.n, Y[j].pos.n))"),
    ("descendants_first", "forall(lambda i, j: implies(0 <= i and i < j and j < len(Y), "
                          "not (desc(Y[j].pos, Y[i].pos) and Y[j].pos != Y[i].pos)), trigger=lambda i, j: (Y[i].pos.n, Y[j].pos.n))"),
    ("start_tile_last_when_yielded", "implies(len(Y) >= 1 and (not bottom_only or tile.pos.n == depth), Y[len(Y) - 1].pos == tile.pos)"),
    ("count_is_the_recursive_count_of_accepted_tiles", "len(Y) == tiles_yielded_below(filter, depth, bottom_only, tile.pos)"),
    ("nothing_below_a_rejected_tile", "implies(tile.pos.n > 1 and not filter_accepts(filter, tile.pos), len(Y) == 0)"),
]


@contract("toasty.toast._postfix_corner")
def _(c):
    c.cases({"bottom_only": False}, {"bottom_only": True})
    c.setup(pc_setup)
    c.requires("tile.pos.n >= 0 and tile.pos.x >= 0 and tile.pos.y >= 0", name="nonnegative_position")
    c.yields("TileT")
    c.assume("tiles_yielded_unfold(filter, depth, bottom_only, tile.pos)", name="definitional instance of the recursive count at the start tile")
    c.decreases("ite(depth + 1 - tile.pos.n > 0, depth + 1 - tile.pos.n, 0)")
    for name, expr in SEQ:
        c.yields_seq(expr, name=name)


# ---- generate_tiles_filtered / generate_tiles ------------------------------------------------------------------
L1 = [(0, 0), (1, 0), (0, 1), (1, 1)]


def gtf_setup(interp, path):
    case = interp._case
    return {"depth": z3.Int(fresh_name("depth")), "filter": Opaque("tile_filter", "tile_filter"),
            "bottom_only": case["bottom_only"], "coordsys": _tg._cs(case)}


def _mark_level1(m, path, fr, env, outcome, value, exc):
    """the four level-1 positions are children of the root: instances of the marker's definitional axiom, CHECKED"""
    for (x, y) in L1:
        path.oblige(m.oblname("level1_positions_are_children_of_the_root"), Child(1, x, y, 0, 0, 0), kind="assert")


@spec
def level1_count(interp, flt, depth, bo):
    from pyvc.core import z3num as _z
    parts = []
    for (x, y) in L1:
        pos = NTuple("Pos", ("n", "x", "y"), [1, x, y])
        a = accepts(interp, flt, pos)
        a = z3.BoolVal(a) if isinstance(a, bool) else a
        b = z3.BoolVal(bo) if isinstance(bo, bool) else bo
        parts.append(z3.If(a, Cnt(filter_id(flt), _z(depth), b, 1, x, y), 0))
    return z3.Sum(parts)


GTF_SEQ = [
    ("count_is_the_sum_over_the_accepted_level1_tiles", "len(Y) == level1_count(filter, depth, bottom_only)"),
    ("levels_between_1_and_depth", "forall(lambda k: implies(0 <= k and k < len(Y), 1 <= Y[k].pos.n and Y[k].pos.n <= depth), "
                                   "trigger=lambda k: Y[k].pos.n)"),
    ("every_yielded_tile_passed_the_filter", "forall(lambda k: implies(0 <= k and k < len(Y), filter_accepts(filter, Y[k].pos)), "
                                             "trigger=lambda k: Y[k].pos.n)"),
    ("bottom_only_yields_only_the_deepest_level", "implies(bottom_only, forall(lambda k: implies(0 <= k and k < len(Y), Y[k].pos.n == depth), "
                                                  "trigger=lambda k: Y[k].pos.n))"),
    ("distinct", "forall(lambda i, j: implies(0 <= i and i < j and j < len(Y), Y[i].pos != Y[j].pos), "
                 "trigger=lambda i, j: (Y[i].pos.n, Y[j].pos.n))"),
    ("descendants_first", "forall(lambda i, j: implies(0 <= i and i < j and j < len(Y), "
                          "not (desc(Y[j].pos, Y[i].pos) and Y[j].pos != Y[i].pos)), trigger=lambda i, j: (Y[i].pos.n, Y[j].pos.n))"),
]


@contract("toasty.toast.generate_tiles_filtered")
def _(c):
    c.cases(*[{"bottom_only": b, "coordsys": cs} for b in (False, True) for cs in ("ASTRONOMICAL", "PLANETARY")])
    c.setup(gtf_setup)
    c.yields("TileT")
    c.on_path(_mark_level1)
    for name, expr in GTF_SEQ:
        c.yields_seq(expr, name=name)


# ---- generate_tiles: the unfiltered enumeration IS the filtered one with a filter that accepts every tile ---------
def gt_setup(interp, path):
    case = interp._case
    return {"depth": z3.Int(fresh_name("depth")), "bottom_only": case["bottom_only"], "coordsys": _tg._cs(case)}


def gt_trace(m, path, fr, env, outcome, value, exc):
    name = m.oblname("forwards_to_the_filtered_enumeration_with_an_all_accepting_filter")
    if outcome != "return":
        return
    calls = [e for e in path.events if e[0] == "call" and e[1].endswith("toast.generate_tiles_filtered")]
    ok = len(calls) == 1
    g = z3.BoolVal(False)
    if ok:
        a = calls[0][2]
        from pyvc.values import EnumVal
        case = m._case
        ok = (a.get("bottom_only") is case["bottom_only"] and isinstance(a.get("coordsys"), EnumVal) and a["coordsys"].name == case["coordsys"])
        pos = NTuple("Pos", ("n", "x", "y"), [z3.Int(fresh_name("q." + f)) for f in "nxy"])
        acc = accepts(m, a.get("filter"), pos)
        acc = z3.BoolVal(acc) if isinstance(acc, bool) else acc
        from pyvc.interp import GenVal
        ok = ok and isinstance(value, GenVal)
        g = z3.And(z3.BoolVal(bool(ok)), acc, z3num(a.get("depth")) == z3num(fr.entry_env.lookup("depth")))
    path.oblige(name, g, kind="trace", assume_after=False)


@contract("toasty.toast.generate_tiles")
def _(c):
    c.inline()       # callers execute it in place (it only forwards); it is verified on its own here
    c.cases(*[{"bottom_only": b, "coordsys": cs} for b in (False, True) for cs in ("ASTRONOMICAL", "PLANETARY")])
    c.setup(gt_setup)
    c.on_path(gt_trace)
