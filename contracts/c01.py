"""C01 — Cascade walk: each live parent exactly once, only after all its live children."""
PROPERTY = "C01"
LEVEL = "other"
CONTRACT_MODULES = ['contracts.specfuns', 'contracts.lemmas_desc', 'contracts.pyramid', 'contracts.parallel', 'contracts.walk', 'contracts.reducer', 'contracts.progressc', 'contracts.image', 'contracts.merge', 'contracts.pyramidio', 'contracts.study', 'contracts.paths', 'contracts.multitan', 'contracts.toastsample', 'contracts.datarange', 'contracts.builderc', 'contracts.lemmas_embed', 'contracts.generator', 'contracts.toastgeom', 'contracts.toastgen', 'contracts.multiwcs']
FUNCTIONS = ['toasty.pyramid.Pyramid.walk', 'toasty.pyramid.Pyramid._walk_serial', 'toasty.pyramid.Pyramid._walk_parallel', 'toasty.pyramid._mp_walk_worker', 'toasty.progress.progress_bar', 'toasty.merge.cascade_images', 'toasty.pyramid.Pyramid._generator', 'toasty.pyramid.Pyramid.subpyramid', 'toasty.pyramid._make_position_filter']
LEMMAS = ["desc_child_step", "desc_child_pair", "desc_siblings_disjoint", "desc_levels", "desc_transitive", "desc_root"]
SLOW = ()
TRUSTED_BASE = [
    "pyvc VC generator (python subset semantics, DESIGN.md 2.2); z3/cvc5",
    "multiprocessing Queue/Event/Process contracts (DESIGN.md 3.4): each put delivered to at most one get; a get may "
    "time out whenever no item is visible; a completion report the dispatcher receives is for a released tile not reported before "
    "(worker guarantee, proved on _mp_walk_worker, composed with the queue contract)",
    "definition of liveness used by the dispatcher invariant: a live tile is in scope; the parent (below the apex) of a live tile is live",
]
ASSUMPTIONS = [
    "no scheduler fairness and no termination ('then returns') is assumed or proved: liveness is outside this technique; "
    "the bounded tier watches real runs under a watchdog",
    "the preparation pass of _walk_parallel is replaced by an ASSUMED summary (seeded tiles, pre-readied bits); it is "
    "checked on real runs by the bounded tier",
]
EXPLANATION = ("Dispatcher invariant (release a parent exactly when all its live children are reported, never twice, exit "
               "only at the apex after it was REPORTED, no KeyError) proved preserved for an arbitrary next report or time-out; the "
               "preparation pass proved to establish it against the reduction-iterator protocol; worker guarantee and serial "
               "callback rule proved; the iterator protocol itself is assumed (bounded tier), termination is not proved.")
