"""Lemmas that back the axioms of the opaque 'Desc' predicate (contracts/specfuns.py): each
axiom, with Desc replaced by its arithmetic definition and Child by the parent/child
arithmetic, is proved here by z3 on every run."""
import z3

from pyvc.contracts_api import lemma
from pyvc import ops
from .specfuns import desc6, child_arith


def _vars():
    return z3.Ints("en ex ey cn cx cy pn px py dn dx dy")


@lemma("desc_child_step")
def _(L):
    en, ex, ey, cn, cx, cy, pn, px, py, dn, dx, dy = _vars()
    L.prove("A1", z3.Implies(z3.And(desc6(en, ex, ey, cn, cx, cy), child_arith(cn, cx, cy, pn, px, py)),
                             desc6(en, ex, ey, pn, px, py)))


@lemma("desc_child_pair")
def _(L):
    en, ex, ey, cn, cx, cy, pn, px, py, dn, dx, dy = _vars()
    ch = child_arith(cn, cx, cy, pn, px, py)
    L.prove("A2_child_self", z3.Implies(ch, desc6(cn, cx, cy, cn, cx, cy)))
    L.prove("A2_parent_self", z3.Implies(ch, desc6(pn, px, py, pn, px, py)))
    L.prove("A2_parent_not_below_child", z3.Implies(ch, z3.Not(desc6(pn, px, py, cn, cx, cy))))
    L.prove("A2_child_below_parent", z3.Implies(ch, desc6(cn, cx, cy, pn, px, py)))


@lemma("desc_siblings_disjoint")
def _(L):
    en, ex, ey, cn, cx, cy, pn, px, py, dn, dx, dy = _vars()
    L.prove("A3", z3.Implies(z3.And(desc6(en, ex, ey, cn, cx, cy), child_arith(cn, cx, cy, pn, px, py),
                                    child_arith(dn, dx, dy, pn, px, py), z3.Or(cx != dx, cy != dy)),
                             z3.Not(desc6(en, ex, ey, dn, dx, dy))))


@lemma("desc_levels")
def _(L):
    en, ex, ey, cn, cx, cy, pn, px, py, dn, dx, dy = _vars()
    L.prove("A4", z3.Implies(desc6(en, ex, ey, pn, px, py),
                             z3.And(en >= pn, z3.Implies(en == pn, z3.And(ex == px, ey == py)))))


@lemma("desc_transitive")
def _(L):
    """Transitivity needs pow2(a+b) = pow2(a)*pow2(b) (non-linear): proved in the product form
    with P = pow2(en-cn), Q = pow2(cn-pn), R = pow2(en-pn) and the side lemma R == P*Q taken from
    lemma pow2_add (induction, below)."""
    en, ex, ey, cn, cx, cy, pn, px, py, dn, dx, dy = _vars()
    P, Q, R = z3.Ints("P Q R")
    d1 = z3.And(en >= cn, cx * P <= ex, ex < (cx + 1) * P, cy * P <= ey, ey < (cy + 1) * P)
    d2 = z3.And(cn >= pn, px * Q <= cx, cx < (px + 1) * Q, py * Q <= cy, cy < (py + 1) * Q)
    d3 = z3.And(en >= pn, px * R <= ex, ex < (px + 1) * R, py * R <= ey, ey < (py + 1) * R)
    L.assume(P >= 1, Q >= 1, R == P * Q)
    L.prove("A5_product_form", z3.Implies(z3.And(d1, d2), d3))


@lemma("pow2_add")
def _(L):
    """pow2(a + b) == pow2(a) * pow2(b) for a, b >= 0, by induction on b (step shown)."""
    a, b = z3.Ints("a b")
    p2 = ops.pow2
    L.prove("base", z3.Implies(a >= 0, p2(a + 0) == p2(a) * 1))
    L.prove("step", z3.Implies(z3.And(a >= 0, b >= 0, p2(a + b) == p2(a) * p2(b),
                                      p2(a + b + 1) == 2 * p2(a + b), p2(b + 1) == 2 * p2(b)),
                               p2(a + (b + 1)) == p2(a) * p2(b + 1)))


@lemma("desc_root")
def _(L):
    en, ex, ey, cn, cx, cy, pn, px, py, dn, dx, dy = _vars()
    z = z3.IntVal(0)
    L.prove("A6", z3.Implies(desc6(en, ex, ey, z, z, z),
                             z3.And(en >= 0, ex >= 0, ey >= 0, ex < ops.pow2(en), ey < ops.pow2(en))))


@lemma("nested_div_by_two")
def _(L):
    """(X div P) div 2 == X div (2P) for P >= 1 (used for shifts: x >> (m+1) == (x >> m) >> 1)."""
    X, P = z3.Ints("X P")
    L.prove("general", z3.Implies(z3.And(P >= 1, X >= 0), (X / P) / 2 == X / (2 * P)))
