"""Contracts for the FITS data-range flow (C14): children's DATAMIN/DATAMAX combined by min/max,
forwarded to the file header, read back on load, copied to the image set."""
import z3

from pyvc.contracts_api import contract, spec
from pyvc.core import OutOfSubset, PyRaise, z3num, fresh_name, is_z3
from pyvc import ops
from pyvc.ops import OptionalVal, simp
from pyvc.values import Inst, Opaque, NTuple, PyList
from . import image as im
from . import merge as _merge  # noqa: F401
from . import pyramidio as _pio  # noqa: F401
from .image import mk_image

MM_CASES = [{"fits": f, "present": pr} for f in (True, False) for pr in range(16)]


def minmax_setup(interp, path):
    case = interp._case
    pio = Inst("PyramidIO", module="toasty.pyramid", fields={"_base_dir": "b", "_scheme": "{1}/{3}/{3}_{2}",
                                                             "_default_format": "fits" if case["fits"] else "npy"})
    me = Inst("TileMerger", module="toasty.merge", fields={"_pio": pio, "_merger": Opaque("merger", "merger"), "_buf": None,
                                                         "_slices": None})
    kids = []
    for k in range(4):
        if case["present"] >> k & 1:
            img = mk_image(interp, "child%d" % k, "F32", 256, 256)
            img.fields["_data_min"] = OptionalVal(z3.Bool(fresh_name("has_min%d" % k)), z3.Real(fresh_name("min%d" % k)))
            img.fields["_data_max"] = OptionalVal(z3.Bool(fresh_name("has_max%d" % k)), z3.Real(fresh_name("max%d" % k)))
            kids.append(img)
        else:
            kids.append(None)
    return {"self": me, "children": PyList(kids)}


def extreme_is(kind, result, cands):
    """result is None iff there is no candidate, else it bounds every candidate and is one of them."""
    pres = [c.present for c in cands]
    none_case = ops.conj([ops.negate(p) for p in pres])
    if result is None:
        return none_case
    r = z3num(result)
    cmp_ = (lambda a, b: a <= b) if kind == "min" else (lambda a, b: a >= b)
    bound = ops.conj([ops.implies(c.present, simp(cmp_(r, c.value))) for c in cands])
    attained = ops.disj([ops.conj([c.present, simp(r == c.value)]) for c in cands])
    return ops.conj([ops.negate(none_case), bound, attained])


def minmax_trace(m, path, fr, env, outcome, value, exc):
    if outcome != "return":
        return
    case = m._case
    kids = [k for k in fr.entry_env.lookup("children").items if k is not None]
    ok_shape = isinstance(value, tuple) and len(value) == 2
    path.oblige(m.oblname("returns_a_min_max_pair"), z3.BoolVal(ok_shape), kind="trace", assume_after=False)
    if not ok_shape:
        return
    if not case["fits"]:
        path.oblige(m.oblname("no_range_for_non_fits_pyramids"), z3.BoolVal(value[0] is None and value[1] is None), kind="trace", assume_after=False)
        return
    path.oblige(m.oblname("min_is_the_smallest_child_datamin"), extreme_is("min", value[0], [k.fields["_data_min"] for k in kids]),
                kind="trace", assume_after=False)
    path.oblige(m.oblname("max_is_the_largest_child_datamax"), extreme_is("max", value[1], [k.fields["_data_max"] for k in kids]),
                kind="trace", assume_after=False)


c0 = contract("toasty.merge.TileMerger._get_min_max_of_children")


@c0
def _(c):
    c.cases(*MM_CASES)
    c.setup(minmax_setup)
    c.on_path(minmax_trace)


# ---------------------------------------------------------------------------
# Image.save (FITS branch): DATAMIN/DATAMAX cards = explicit range, else the array's finite range

from pyvc.values import PyDict, StrSeq, Tok  # noqa: E402
from pyvc.ndarray import NdArr, FPix  # noqa: E402

NanMinV = z3.Function("nanmin_val", z3.IntSort(), z3.RealSort())
NanMinN = z3.Function("nanmin_isnan", z3.IntSort(), z3.BoolSort())
NanMaxV = z3.Function("nanmax_val", z3.IntSort(), z3.RealSort())
NanMaxN = z3.Function("nanmax_isnan", z3.IntSort(), z3.BoolSort())
_arr_ids = {}


def _arr_id(a):
    key = id(a.fn) if a.base is None else id(a)
    if key not in _arr_ids:
        _arr_ids[key] = z3.Int(fresh_name("arrid"))
    return _arr_ids[key]


def install_externals(X):
    @X.register("numpy.nanmin")
    def _(interp, args, kwargs):
        i = _arr_id(args[0])
        interp.note_assumption("np.nanmin/np.nanmax return the finite extreme of the non-NaN elements (NaN iff all are NaN); data reaching Image.save contain no +-inf")
        return FPix(NanMinN(i), NanMinV(i))

    @X.register("numpy.nanmax")
    def _(interp, args, kwargs):
        i = _arr_id(args[0])
        return FPix(NanMaxN(i), NanMaxV(i))

    # np.isfinite is modelled in pyvc/ndarray.py (NaN and infinity flags); the extreme returned by nanmin/nanmax
    # carries no infinity flag: assumed finite or NaN

    @X.register("astropy.io.fits.Header")
    def _(interp, args, kwargs):
        return PyDict()

    @X.register("astropy.io.fits.writeto")
    def _(interp, args, kwargs):
        hdr = kwargs.get("header")
        interp.path.event("fits_writeto", args[0], args[1], PyDict(hdr.items) if isinstance(hdr, PyDict) else hdr, kwargs.get("overwrite"))
        return None


SAVE_CASES = [{"minv": a, "maxv": b} for a in (False, True) for b in (False, True)]


def save_setup(interp, path):
    case = interp._case
    H, W = z3.Int(fresh_name("H")), z3.Int(fresh_name("W"))
    path.assume(z3.And(H >= 1, W >= 1))
    me = mk_image(interp, "image", "F32", H, W)
    me.fields["_default_format"] = "fits"
    # an image loaded from a FITS tile remembers the range of its header; saving must not depend on it
    me.fields["_data_min"] = OptionalVal(z3.Bool(fresh_name("has_min")), z3.Real(fresh_name("old_min")))
    me.fields["_data_max"] = OptionalVal(z3.Bool(fresh_name("has_max")), z3.Real(fresh_name("old_max")))
    return {"self": me, "path_or_stream": StrSeq([Tok("path", "path")]), "format": "fits", "mode": None,
            "min_value": z3.Real(fresh_name("min_value")) if case["minv"] else None,
            "max_value": z3.Real(fresh_name("max_value")) if case["maxv"] else None}


def _card_equals(m, got, given):
    """the header card holds exactly the given (real) value — whatever representation the code computed it in"""
    from pyvc.core import z3num
    if isinstance(got, FPix):
        return ops.conj([ops.negate(got.nan), simp(z3num(got.val) == z3num(given))])
    if isinstance(got, ops.OptionalVal):
        return ops.conj([got.present, _card_equals(m, got.value, given)])
    if got is None:
        return False
    return ops.equals(m, got, given)


def save_trace(m, path, fr, env, outcome, value, exc):
    if outcome != "return":
        path.oblige(m.oblname("returns_normally"), z3.BoolVal(False), kind="trace", assume_after=False)
        return
    ev = path.events
    wr = [e for e in ev if e[0] == "fits_writeto"]
    me = fr.entry_env.lookup("self")
    arr = me.fields["_array"]
    ok = len(wr) == 1 and isinstance(wr[0][3], PyDict) and isinstance(wr[0][2], NdArr) and wr[0][2].fn is arr.fn and wr[0][4] is True
    path.oblige(m.oblname("writes_this_image_once_overwriting"), z3.BoolVal(bool(ok)), kind="trace", assume_after=False)
    if not ok:
        return
    hdr = wr[0][3].items
    i = _arr_id(arr)
    for card, given, N, V in (("DATAMIN", fr.entry_env.lookup("min_value"), NanMinN, NanMinV),
                              ("DATAMAX", fr.entry_env.lookup("max_value"), NanMaxN, NanMaxV)):
        if given is not None:
            g = z3.BoolVal(card in hdr) if card not in hdr else _card_equals(m, hdr[card], given)
            path.oblige(m.oblname("explicit_range_goes_into_%s" % card), g if not isinstance(g, bool) else z3.BoolVal(g), kind="trace", assume_after=False)
        elif card in hdr:
            v = hdr[card]
            g = ops.conj([z3.Not(N(i)), isinstance(v, FPix) and simp(v.val == V(i))])
            path.oblige(m.oblname("%s_defaults_to_the_finite_extreme_of_the_array" % card), g if not isinstance(g, bool) else z3.BoolVal(g), kind="trace", assume_after=False)
        else:
            path.oblige(m.oblname("%s_absent_only_when_no_finite_value" % card), N(i), kind="trace", assume_after=False)


contract("toasty.image.Image.save")(lambda c: (c.cases(*SAVE_CASES), c.setup(save_setup), c.on_path(save_trace)))


# ---- from_array keeps the range only for FITS; load_path forwards the header cards ----

FA_CASES = [{"fmt": f, "minv": a, "maxv": b} for f in ("fits", "npy", None) for a in (False, True) for b in (False, True)]


def from_array_setup(interp, path):
    case = interp._case
    arr = mk_image(interp, "a", "F32", 256, 256).fields["_array"]
    from pyvc.values import Ext
    return {"cls": Ext("class:toasty.image.Image"), "array": arr, "wcs": None, "default_format": case["fmt"],
            "min_value": z3.Real(fresh_name("min_value")) if case["minv"] else None,
            "max_value": z3.Real(fresh_name("max_value")) if case["maxv"] else None}


def from_array_trace(m, path, fr, env, outcome, value, exc):
    case = m._case
    ok = outcome == "return" and isinstance(value, Inst) and value.cls == "Image"
    path.oblige(m.oblname("returns_an_image"), z3.BoolVal(bool(ok)), kind="trace", assume_after=False)
    if not ok:
        return
    for fld, arg, flag in (("_data_min", "min_value", case["minv"]), ("_data_max", "max_value", case["maxv"])):
        got = value.fields.get(fld)
        want = fr.entry_env.lookup(arg) if (case["fmt"] == "fits" and flag) else None
        g = (got is None) if want is None else (got is want or (got is not None and ops.equals(m, got, want) is True))
        path.oblige(m.oblname("%s_kept_for_fits_only" % fld.strip("_")), z3.BoolVal(bool(g)), kind="trace", assume_after=False)
    path.oblige(m.oblname("wraps_the_given_array"), z3.BoolVal(value.fields.get("_array") is fr.entry_env.lookup("array") or
                value.fields["_array"].fn is fr.entry_env.lookup("array").fn), kind="trace", assume_after=False)


contract("toasty.image.Image.from_array")(lambda c: (c.cases(*FA_CASES), c.setup(from_array_setup), c.on_path(from_array_trace)))


# ---- ImageLoader.load_path (FITS branch): the cards of the primary header become the image's range ----

from . import collection as _coll  # noqa: E402
from pyvc.values import BoundMethod  # noqa: E402

HasCard = z3.Function("header_has_card", z3.IntSort(), z3.IntSort(), z3.BoolSort())
CardVal = z3.Function("header_card_value", z3.IntSort(), z3.IntSort(), z3.RealSort())


class HeaderVal(object):
    def __init__(self, hdu):
        self.hdu = hdu


class HeaderPlugin(object):
    def getattr(self, interp, base, attr):
        if isinstance(base, _coll.HDUVal) and attr == "header":
            return HeaderVal(base)
        if isinstance(base, _coll.HDUVal) and attr == "data":
            if "_g_data" not in base.hdul.attrs:
                base.hdul.attrs["_g_data"] = mk_image(interp, "hdu_data", "F32", 256, 256).fields["_array"]
            return base.hdul.attrs["_g_data"]
        return NotImplemented

    def contains(self, interp, container, x):
        if isinstance(container, HeaderVal) and isinstance(x, str):
            return HasCard(container.hdu.hdul.attrs["id"], ops.strlit(x))
        return None

    def getitem(self, interp, base, idx):
        if isinstance(base, HeaderVal) and isinstance(idx, str):
            return CardVal(base.hdu.hdul.attrs["id"], ops.strlit(idx))
        return NotImplemented


_old_install = install_externals


def install_externals(X):   # noqa: F811
    _old_install(X)
    X.plugins.insert(0, HeaderPlugin())
    _coll.install_externals(X)

    @X.register("astropy.wcs.WCS")
    def _(interp, args, kwargs):
        return Opaque("wcs", fresh_name("wcs"))


contract("toasty.image.ImageLoader._get_header_value_or_none")(lambda c: c.inline())


def load_setup(interp, path):
    return {"self": Inst("ImageLoader", module="toasty.image"), "path": "some/dir/3_2.fits"}


def load_trace(m, path, fr, env, outcome, value, exc):
    ok = outcome == "return" and isinstance(value, Inst) and value.cls == "Image"
    path.oblige(m.oblname("fits_tile_loads_as_an_image"), z3.BoolVal(bool(ok)), kind="trace", assume_after=False)
    if not ok:
        return
    opens = [e for e in path.events if e[0] == "enter" and e[1] == "fits_open"]
    if len(opens) != 1:
        path.oblige(m.oblname("opens_the_file_once"), z3.BoolVal(False), kind="trace", assume_after=False)
        return
    hid = opens[0][3].attrs["id"] if len(opens[0]) > 3 else None
    hdul = [e for e in path.events if e[0] == "enter" and e[1] == "fits_open"][0]
    hid = path.fits_ids[0]
    for fld, card in (("_data_min", "DATAMIN"), ("_data_max", "DATAMAX")):
        got = value.fields.get(fld)
        has = HasCard(hid, ops.strlit(card))
        if got is None:
            path.oblige(m.oblname("%s_absent_only_without_a_%s_card" % (fld.strip("_"), card)), z3.Not(has), kind="trace", assume_after=False)
        else:
            path.oblige(m.oblname("%s_is_the_%s_card" % (fld.strip("_"), card)), z3.And(has, z3num(got) == CardVal(hid, ops.strlit(card))),
                        kind="trace", assume_after=False)
    path.oblige(m.oblname("default_format_is_fits"), z3.BoolVal(value.fields.get("_default_format") == "fits"), kind="trace", assume_after=False)


_lp = contract("toasty.image.ImageLoader.load_path")


@_lp
def _(c):
    c.setup(load_setup)
    c.on_path(load_trace)
