"""Contracts for toasty/merge.py (C02, C14): the stock merger and the cascade callback."""
import z3

from pyvc.contracts_api import contract, spec
from pyvc.core import OutOfSubset, PyRaise, z3num, fresh_name, is_z3
from pyvc import ops
from pyvc.values import Inst, EnumVal, SliceVal, NTuple, Opaque, PyList
from pyvc.ndarray import NdArr, FPix, fresh_array, snapshot_fn, to_fpix, same_elem, FLOAT_DTYPES
from pyvc.ops import simp
from . import image as im
from .image import MODES, mk_image, _arr, _mode, chan
from . import pyramid  # noqa: F401

# ---------------------------------------------------------------------------
# averaging_merger: result[R, C, ...] = cast(nanmean of the 2x2 block)

MERGER_CASES = [{"dtype": d, "planes": p} for d, p in (("u8", None), ("u8", 3), ("u8", 4), ("i16", None), ("i32", None),
                                                        ("f32", None), ("f64", None), ("f16", 3))]


def merger_setup(interp, path):
    case = interp._case
    H2, W2 = z3.Int(fresh_name("H2")), z3.Int(fresh_name("W2"))
    path.assume(z3.And(H2 >= 1, W2 >= 1))
    shape = (2 * H2, 2 * W2) + ((case["planes"],) if case["planes"] else ())
    return {"data": fresh_array(shape, case["dtype"], "data", interp)}


@spec
def block_mean_ok(interp, result, data, R, C):
    """Element (R, C[, k]) of the result is the mean of the non-NaN values of its 2x2 block (NaN iff
    all four are NaN) for floating-point data, and the mean of the four stored values truncated
    to the data type for integer / colour data."""
    planes = data.shape[2] if data.ndim == 3 else None
    ks = [None] if planes is None else list(range(planes))
    out = []
    for k in ks:
        def el(a, r, c):
            return a.at((r, c) if k is None else (r, c, k))
        four = [el(data, simp(2 * z3num(R) + a), simp(2 * z3num(C) + b)) for a in (0, 1) for b in (0, 1)]
        res = el(result, R, C)
        if data.dtype in FLOAT_DTYPES:
            four = [to_fpix(x) for x in four]
            res = to_fpix(res)
            allnan = ops.conj([x.nan for x in four])
            cnt = z3.Sum([z3.If(x.nan if is_z3(x.nan) else z3.BoolVal(bool(x.nan)), 0, 1) for x in four])
            tot = z3.Sum([z3.If(x.nan if is_z3(x.nan) else z3.BoolVal(bool(x.nan)), z3.RealVal(0), x.val) for x in four])
            clause = ops.conj([simp(z3.BoolVal(True) if False else (res.nan == allnan if is_z3(res.nan) or is_z3(allnan) else z3.BoolVal(res.nan == allnan))),
                               ops.implies(ops.negate(allnan), ops.conj([ops.negate(res.inf), simp(res.val * z3.ToReal(cnt) == tot)]))])
            # means over +-inf are not modelled (extended-real arithmetic): the clause speaks about blocks of finite / NaN values
            noinf = ops.conj([ops.negate(x.inf) for x in four])
            out.append(ops.implies(noinf, clause))
        else:
            s = z3.Sum([z3num(x) for x in four])
            # truncation toward zero of s/4
            want = z3.If(s >= 0, s / 4, -((-s) / 4))
            out.append(simp(z3num(res) == want))
    return ops.conj(out)


@contract("toasty.merge.averaging_merger")
def _(c):
    c.cases(*MERGER_CASES)
    c.setup(merger_setup)
    c.ensures("forall_pix(result, lambda R, C: block_mean_ok(result, data, R, C))", name="each_pixel_is_its_2x2_block_mean")
    c.ensures("result.shape[0] * 2 == data.shape[0] and result.shape[1] * 2 == data.shape[1] and result.dtype == data.dtype",
              name="half_size_same_dtype")


# ---------------------------------------------------------------------------
# PyramidIO as seen by the cascade (its own contracts: contracts/pyramidio.py)

from pyvc.types import register_type  # noqa: E402

PIO_FIELDS = dict(_base_dir="tok:dir", _scheme="tok:scheme", _default_format="tok:format")


def _tile_or_none(interp, name):
    """What read_image(default='none') returns: None (no file) or the stored 256x256 tile, whose
    mode is the pyramid's mode (the case under verification)."""
    if interp.path.nondet("tile_missing"):
        return None
    return mk_image(interp, name, interp._case["mode"], 256, 256)


register_type("tile_or_none", _tile_or_none)


@contract("toasty.pyramid.PyramidIO.read_image")
def _(c):
    c.trusted("file-system state is ghost: a read returns None or the tile stored at that position (C15 bounded tier checks the codec)")
    c.returns("tile_or_none")


@contract("toasty.pyramid.PyramidIO.write_image")
def _(c):
    c.trusted("event: the image as it is at the time of the call is what gets stored (C15)")


@contract("toasty.pyramid.PyramidIO.get_default_format")
def _(c):
    c.inline()


@contract("toasty.image.Image.from_array")
def _(c):
    c.inline()
    c.module_globals()


@contract("toasty.image._array_to_mode")
def _(c):
    c.inline()


@contract("toasty.image._validate_format")
def _(c):
    c.inline()


@contract("toasty.image.ImageMode.make_maskable_buffer")
def _(c):
    c.inline()


@contract("toasty.image.Image.data_min")
def _(c):
    c.inline()


@contract("toasty.image.Image.data_max")
def _(c):
    c.inline()


@contract("toasty.merge.TileMerger._get_min_max_of_children")
def _(c):
    # verified on its own in contracts/datarange.py (C14); callers use it modularly
    c.returns("tuple[opt[real],opt[real]]")


def _merger_model(X):
    @X.register_opaque("merger", "__call__")
    def _(interp, f, args, kwargs):
        a = args[0]
        if not isinstance(a, NdArr):
            raise OutOfSubset("merger called with %r" % (a,))
        snap = NdArr(a.shape, a.dtype, snapshot_fn(a), "mosaic")
        out_shape = (256, 256) + tuple(a.shape[2:])
        res = fresh_array(out_shape, a.dtype, "merged", interp)
        interp.path.event("merger_call", snap, res)
        return res


def install_externals(X):
    _merger_model(X)


import os  # noqa: E402

# the per-mode pixel rules are proved for all eight modes on update_into_maskable_buffer (C15); the
# callback is proved on one mode per rule family in the quick tier, on all eight in the thorough tier
_WALK_MODES = ("RGBA", "F32", "F64", "U8", "I16", "I32", "F16x3", "RGB") if os.environ.get("VERIF_TIER") == "thorough" \
    else ("RGBA", "F32", "I16", "RGB")
WALK_CASES = [{"mode": m, "bottom_up": bu, "buf": b}
              for m in _WALK_MODES
              for bu in (False, True) for b in ("none", "stale")]


def walk_setup(interp, path):
    case = interp._case
    module = interp.repo.module("toasty.merge")
    slices = interp.global_lookup("SLICES_OPPOSITE_PARITY" if case["bottom_up"] else "SLICES_MATCHING_PARITY", module)
    pio = Inst("PyramidIO", module="toasty.pyramid", fields={
        "_base_dir": "base", "_scheme": "{1}/{3}/{3}_{2}", "_default_format": "fits" if case["bottom_up"] else "npy"})
    buf = None
    if case["buf"] == "stale":
        buf = mk_image(interp, "stale_buffer", None, 512, 512, buffer_for=case["mode"])
    me = Inst("TileMerger", module="toasty.merge", fields={"_pio": pio, "_merger": Opaque("merger", "merger"),
                                                         "_buf": buf, "_slices": slices})
    pos = NTuple("Pos", ("n", "x", "y"), [z3.Int(fresh_name("pos." + f)) for f in "nxy"])
    return {"self": me, "pos": pos}


def _disp_row(bottom_up, r, size):
    return simp(size - 1 - z3num(r)) if bottom_up else r


DROP = ("children_marked",)   # the Child marker (and with it the quantified Desc axioms) is irrelevant to pixel placement


def walk_trace(m, path, fr, env, outcome, value, exc):
    if outcome != "return":
        return
    case = m._case
    bu = case["bottom_up"]
    ev = path.events
    reads = [e for e in ev if e[0] == "call" and e[1].endswith("PyramidIO.read_image")]
    writes = [e for e in ev if e[0] == "call" and e[1].endswith("PyramidIO.write_image")]
    merges = [e for e in ev if e[0] == "merger_call"]
    pos = fr.entry_env.lookup("pos")
    # (1) exactly the four children are read, in the order TL, TR, BL, BR
    ok = len(reads) == 4
    goal = z3.BoolVal(ok)
    if ok:
        parts = []
        for k, e in enumerate(reads):
            p = e[2]["pos"]
            parts.append(ops.conj([simp(z3num(p.get("n")) == z3num(pos.get("n")) + 1),
                                   simp(z3num(p.get("x")) == 2 * z3num(pos.get("x")) + (k % 2)),
                                   simp(z3num(p.get("y")) == 2 * z3num(pos.get("y")) + (k // 2))]))
            parts.append(e[2].get("default") == "none")
        goal = ops.conj(parts)
        goal = goal if not isinstance(goal, bool) else z3.BoolVal(goal)
    path.oblige(m.oblname("reads_exactly_the_four_children"), goal, kind="trace", assume_after=False)
    if not ok:
        return
    imgs = path.read_results
    present = [i is not None for i in imgs]
    # (2) nothing written iff all four are absent; otherwise exactly one merge and one write of this position
    if not any(present):
        path.oblige(m.oblname("no_children_no_parent"), z3.BoolVal(not writes and not merges), kind="trace", assume_after=False)
        return
    shape_ok = len(writes) == 1 and len(merges) == 1
    path.oblige(m.oblname("one_merge_and_one_write_of_the_parent"), z3.BoolVal(shape_ok), kind="trace", assume_after=False)
    if not shape_ok:
        return
    w = writes[0][2]
    same_pos = ops.equals(m, w["pos"], pos)
    merged_arr, out_arr = merges[0][2], _arr(w["image"])
    path.oblige(m.oblname("writes_the_merger_output_at_the_parent_position"),
                ops.conj([same_pos, z3.BoolVal(out_arr.fn is merged_arr.fn or out_arr is merged_arr)]), kind="trace", assume_after=False)
    # (2b) the data range written with the parent is the one computed from the four children, in order (C14)
    mm = [e for e in ev if e[0] == "call" and e[1].endswith("_get_min_max_of_children")]
    ok_mm = len(mm) == 1 and hasattr(path, "minmax_result")
    if ok_mm:
        kids = mm[0][2]["children"].items
        ok_mm = len(kids) == 4 and all((a is None and b is None) or (a is not None and b is not None and _arr(a).fn is _arr(b).fn)
                                       for a, b in zip(kids, imgs))
        rmin, rmax = path.minmax_result
        ok_mm = ok_mm and w.get("min_value") is rmin and w.get("max_value") is rmax
    path.oblige(m.oblname("parent_is_written_with_the_range_of_its_four_children"), z3.BoolVal(bool(ok_mm)), kind="trace", assume_after=False)
    # (3) the mosaic handed to the merger: child (2x+i, 2y+j) in display quadrant (i, j), missing/undefined -> undefined
    M = merges[0][1]
    mode = case["mode"]
    mos = Inst("Image", module="toasty.image", fields={"_array": M, "_mode": im.mode_val({"RGB": "RGBA"}.get(mode, mode))})
    R, C = z3.Int(fresh_name("R")), z3.Int(fresh_name("C"))
    saved = list(path.pc)
    path.assume(z3.And(R >= 0, R < 512, C >= 0, C < 512))
    for k in range(4):
        i, j = k % 2, k // 2
        inq = z3.And(C >= 256 * i, C < 256 * (i + 1), R >= 256 * j, R < 256 * (j + 1))
        r, c_ = simp(R - 256 * j), simp(C - 256 * i)
        mr = _disp_row(bu, R, 512)
        child = imgs[k]
        if child is None:
            g = ops.implies(inq, im.pix_blank(m, mos, mr, C))
            path.oblige(m.oblname("mosaic/missing_child_quadrant_is_undefined"), g, kind="trace", assume_after=False, drop=DROP)
            continue
        cr = _disp_row(bu, r, 256)
        undef = im.pix_undef(m, child, cr, c_)
        g1 = ops.implies(ops.conj([inq, ops.negate(undef)]), im.pix_takes_source(m, mos, mr, C, child, cr, c_))
        g2 = ops.implies(ops.conj([inq, undef]), im.pix_blank(m, mos, mr, C))
        path.oblige(m.oblname("mosaic/defined_child_pixel_in_its_display_quadrant"), g1, kind="trace", assume_after=False, drop=DROP)
        path.oblige(m.oblname("mosaic/undefined_child_pixel_stays_undefined"), g2, kind="trace", assume_after=False, drop=DROP)
    path.pc[:] = saved


@contract("toasty.merge.TileMerger.walk_callback")
def _(c):
    c.cases(*WALK_CASES)
    c.setup(walk_setup)
    c.may_raise("IOError", "an unreadable child tile propagates")
    c.may_raise("ValueError", "propagated from read_image")
    c.on_path(walk_trace)


# ---- cascade_images: the glue between the walk (C01) and the merger callback (C02) -----------------------------------
# One walk over the pyramid of depth `start` — generic when no filter is given, TOAST-filtered with THE CALLER'S filter
# otherwise — whose callback is the walk_callback of a TileMerger built from the caller's pio and merger; nothing at all
# for start < 1.
contract("toasty.pyramid.Pyramid.new_generic")(lambda c: c.inline())
contract("toasty.merge.TileMerger.__init__")(lambda c: c.inline())

CI_CASES = [{"filtered": f, "bottom_up": b} for f in (False, True) for b in (False, True)]


def ci_setup(interp, path):
    case = interp._case
    pio = Inst("PyramidIO", module="toasty.pyramid", fields={"_base_dir": "base", "_scheme": "{1}/{3}/{3}_{2}",
                                                             "_default_format": "fits" if case["bottom_up"] else "png"})
    return {"pio": pio, "start": z3.Int(fresh_name("start")), "merger": Opaque("merger", "merger"),
            "parallel": z3.Int(fresh_name("parallel")), "cli_progress": z3.Bool(fresh_name("cli_progress")),
            "tile_filter": Opaque("tile_filter", "tile_filter") if case["filtered"] else None}


def ci_trace(m, path, fr, env, outcome, value, exc):
    if outcome != "return":
        return
    case = m._case
    E = fr.entry_env
    start = z3num(E.lookup("start"))
    calls = [e for e in path.events if e[0] == "call" and e[1].endswith("Pyramid.walk")]
    name = m.oblname("one_walk_of_the_right_pyramid_with_this_mergers_callback")
    if not calls:
        path.oblige(m.oblname("nothing_to_do_only_below_level_1"), start < 1, kind="trace", assume_after=False)
        return
    path.oblige(m.oblname("nothing_to_do_only_below_level_1"), start >= 1, kind="trace", assume_after=False)
    if len(calls) != 1:
        path.oblige(name, z3.BoolVal(False), kind="trace", assume_after=False)
        return
    a = calls[0][2]
    pyr, cb = a.get("self"), a.get("callback")
    ok = isinstance(pyr, Inst) and pyr.cls == "Pyramid"
    g = z3.BoolVal(False)
    if ok:
        flt, cs, apex = pyr.fields.get("_tile_filter"), pyr.fields.get("_coordsys"), pyr.fields.get("_apex")
        if case["filtered"]:
            ok = isinstance(flt, Opaque) and flt.name == "tile_filter" and cs is not None
        else:
            ok = flt is None and cs is None
        ok = ok and (apex is None or [v for v in apex.vals] == [0, 0, 0])
        # the callback is the bound walk_callback of a TileMerger over the caller's pio and merger
        recv = getattr(cb, "recv", None) if cb is not None else None
        recv = recv if recv is not None else getattr(cb, "obj", None)
        okcb = (getattr(cb, "attr", None) == "walk_callback" or getattr(cb, "name", None) == "walk_callback")
        tm = recv
        okcb = okcb and isinstance(tm, Inst) and tm.cls == "TileMerger" \
            and getattr(tm.fields.get("_pio"), "fields", {}).get("_base_dir") == "base" \
            and isinstance(tm.fields.get("_merger"), Opaque) and tm.fields["_merger"].name == "merger"
        # (how many workers are used and whether progress is shown are not part of the property: not demanded)
        g = z3.And(z3.BoolVal(bool(ok and okcb)), z3num(pyr.fields.get("depth")) == start)
    path.oblige(name, g, kind="trace", assume_after=False)


@contract("toasty.merge.cascade_images")
def _(c):
    c.cases(*CI_CASES)
    c.setup(ci_setup)
    c.may_raise("CallbackError", "serial mode propagates merge errors")
    c.may_raise("WorkerFailedError", "parallel mode reports failed workers")
    c.on_path(ci_trace)
