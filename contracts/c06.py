"""C06 — TOAST sampling writes the sampler's values at each tile's own pixel centres."""
PROPERTY = "C06"
LEVEL = "other"
CONTRACT_MODULES = ['contracts.specfuns', 'contracts.lemmas_desc', 'contracts.pyramid', 'contracts.parallel', 'contracts.walk', 'contracts.reducer', 'contracts.lemmas_embed', 'contracts.generator', 'contracts.image', 'contracts.merge', 'contracts.pyramidio', 'contracts.study', 'contracts.multitan', 'contracts.multiwcs', 'contracts.toastsample', 'contracts.toastgeom', 'contracts.toastgen', 'contracts.paths', 'contracts.datarange', 'contracts.builderc']
FUNCTIONS = ['toasty.toast.toast_tile_get_coords', 'toasty.toast._level0_tile_get_coords', 'toasty.toast.ToastSampler.visit_callback', 'toasty.toast.sample_layer', 'toasty.toast.sample_layer_filtered', 'toasty.pyramid.PyramidIO.write_image', 'toasty.builder.Builder.toast_base']
LEMMAS = []
SLOW = ()
TRUSTED_BASE = ["pyvc VC generator; z3/cvc5", "numpy contracts (pyvc/ndarray.py)", "compiled subsample (C05)",
                "the user sampler is an arbitrary function of the coordinate arrays"]
ASSUMPTIONS = ["that every accepted leaf is visited once with its own Tile is C03/C13; real files are bounded"]
EXPLANATION = "visit_callback proved: sampler evaluated at this tile's grid, rows reversed iff the pyramid is bottom-up, clobber and update modes"
