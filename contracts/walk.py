"""Contract of the walk dispatcher Pyramid._walk_parallel (C01): rely/guarantee invariant of the
dispatch loop, proved for an ARBITRARY next completion report (= every interleaving, with
receive time-outs firing at any time)."""
import z3

from pyvc.contracts_api import contract, spec
from pyvc.core import OutOfSubset, z3num, fresh_name
from pyvc import ops
from pyvc.values import Opaque, NTuple
from pyvc.types import register_type
from pyvc.mpmodel import new_queue
from pyvc.symmap import SymMap, SymSet
from . import specfuns, parallel  # noqa: F401
from .specfuns import Desc
from .parallel import producer_trace, PYRAMID_FIELDS, _same

I = z3.IntSort()
Live = z3.Function("Live", I, I, I, z3.BoolSort())   # the tile has a reachable leaf beneath it (or is an accepted leaf)


def _venv(interp):
    """environment of the function under verification (also when the current frame is an inlined helper)"""
    for f_ in reversed(interp.frames):
        if getattr(f_, "env", None) is not None:
            return f_.env
    from pyvc.interp import Env
    return Env(module=interp.frame.module if interp.frame is not None else None)


def _p(p):
    return [z3num(p.get("n")), z3num(p.get("x")), z3num(p.get("y"))]


@spec
def live(interp, p):
    return Live(*_p(p))


@spec
def was_put(interp, q, p):
    return q.attrs["_g_put"].has(p)


@spec
def was_got(interp, q, p):
    return q.attrs["_g_got"].has(p)


@spec
def rget(interp, m, p):
    return z3.If(m.has(p), m.value(p), 0)


@spec
def rhas(interp, m, p):
    return m.has(p)


@spec
def rval(interp, m, p):
    return m.value(p)


@spec
def bit(interp, v, i):
    return ops.Bit(z3num(v), z3.IntVal(i))


@spec
def child(interp, p, i):
    n, x, y = _p(p)
    return NTuple("Pos", ("n", "x", "y"), [n + 1, 2 * x + (i % 2), 2 * y + (i // 2)])


def _walk_done_rely(interp, q, item):
    """What the dispatcher may assume about a completion report it receives (worker guarantee +
    queue contract): the tile was released, is reported for the first time; plus the ground
    instances of the liveness facts for this tile."""
    env = _venv(interp)
    rq = env.lookup("ready_queue")
    self_ = env.lookup("self")
    A, D = self_.fields["_apex"], self_.fields["depth"]
    n, x, y = _p(item)
    facts = [rq.attrs["_g_put"].has(item), z3.Not(q.attrs["_g_got"].has(item))]
    par = [n - 1, x / 2, y / 2]
    not_apex = z3.Not(z3.And(n == z3num(A.get("n")), x == z3num(A.get("x")), y == z3num(A.get("y"))))
    # liveness facts (definition of "live"): in scope; the parent of a live tile below the apex is live
    facts.append(z3.Implies(Live(n, x, y), z3.And(Desc(n, x, y, *_p(A)), n <= z3num(D))))
    facts.append(z3.Implies(z3.And(Live(n, x, y), not_apex), z3.And(Live(*par), Desc(*par, *_p(A)))))
    return z3.And(*facts)


def _mk_done_queue(interp, name):
    return new_queue(name, item_type="Pos", rely=_walk_done_rely)


def _mk_ready_queue(interp, name):
    q = new_queue(name, item_type="Pos")
    q.attrs["_g_once"] = True
    return q


register_type("walk_done_queue", _mk_done_queue)
register_type("walk_ready_queue", _mk_ready_queue)
register_type("symmap", lambda interp, name: SymMap(name))

ALLP = "forall(lambda n, x, y: %s)"
P = "Pos(n, x, y)"

# invariant of the dispatch loop
I1 = ALLP % ("implies(was_put(ready_queue, {P}), live({P}) and n < self.depth)".format(P=P))
I2 = ALLP % ("implies(was_got(done_queue, {P}), was_put(ready_queue, {P}))".format(P=P))
I3 = ALLP % ("implies(live({P}) and n < self.depth - 1, was_put(ready_queue, {P}) == "
             "all_k(0, 4, lambda i: implies(live(child({P}, i)), was_got(done_queue, child({P}, i)))))".format(P=P))
I4 = ALLP % ("implies(live({P}) and n < self.depth - 1 and not was_put(ready_queue, {P}), "
             "all_k(0, 4, lambda i: bit(rget(readiness, {P}), i) == "
             "(not live(child({P}, i)) or was_got(done_queue, child({P}, i)))))".format(P=P))
I5 = ALLP % ("implies(rhas(readiness, {P}), 0 <= rval(readiness, {P}) and rval(readiness, {P}) < 16)".format(P=P))

# ASSUMED summary of the preparation loop (checked by the bounded tier; its own proof needs the
# reduction-iterator contract)
E1 = ALLP % ("not was_got(done_queue, {P})".format(P=P))
E2 = ALLP % ("was_put(ready_queue, {P}) == (live({P}) and n == self.depth - 1)".format(P=P))
E3 = ALLP % ("implies(live({P}) and n < self.depth - 1, all_k(0, 4, lambda i: bit(rget(readiness, {P}), i) == "
             "(not live(child({P}, i)))) and rget(readiness, {P}) != 15)".format(P=P))
E5 = I5


def dispatch_trace(m, path, fr, env, outcome, value, exc):
    ev = path.events
    # the dispatch loop is left only when the apex has been reported
    for i, e in enumerate(ev):
        if e[0] == "loop_break" and e[1] == 3:
            start = max(n for n, x in enumerate(ev[:i]) if x[0] == "loop_iter" and x[1] == 3)
            gets = [x for x in ev[start:i] if x[0] == "q_get"]
            goal = z3.BoolVal(False)
            if len(gets) == 1:
                goal = ops.equals(m, gets[0][2], env.lookup("self").fields["_apex"])
                goal = goal if not isinstance(goal, bool) else z3.BoolVal(goal)
            path.oblige(m.oblname("dispatch/exits_only_when_the_apex_is_reported"), goal, kind="trace", assume_after=False)
    # a time-out changes nothing: no put, no table update in an iteration whose receive timed out
    for si in [i for i, e in enumerate(ev) if e[0] == "loop_iter" and e[1] == 3]:
        seg = ev[si + 1:]
        if any(e[0] == "q_get_empty" for e in seg):
            path.oblige(m.oblname("dispatch/timeout_releases_nothing"), z3.BoolVal(not any(e[0] == "q_put" for e in seg)),
                        kind="trace", assume_after=False)
            # a dead worker's tile is never reported: every time-out must look at the workers' exit codes
            chk = [e for e in seg if e[0] == "call" and e[1] == "toasty.par_util.ensure_workers_ok"]
            ok = len(chk) == 1 and _same(chk[0][2].get("workers"), env.lookup("workers"))
            path.oblige(m.oblname("dispatch/timeout_checks_that_no_worker_has_failed"), z3.BoolVal(bool(ok)), kind="trace", assume_after=False)
    # the shutdown flag may only be raised once the apex has been reported (the walk worker's exit rule relies on it:
    # "flag set and nothing received" must mean that no tile is outstanding)
    brk = [i for i, e in enumerate(ev) if e[0] == "loop_break" and e[1] == 3]
    for i, e in enumerate(ev):
        if e[0] == "ev_set":
            path.oblige(m.oblname("dispatch/shutdown_flag_raised_only_after_the_apex_was_reported"),
                        z3.BoolVal(bool(brk) and i > brk[0]), kind="trace", assume_after=False)
    # shutdown order after the loop
    if outcome == "return" and any(e[0] == "loop_break" and e[1] == 3 for e in ev):
        after = ev[max(i for i, e in enumerate(ev) if e[0] == "loop_break" and e[1] == 3):]
        from .parallel import _tag
        seq = [_tag(e) for e in after]
        seq = [n for n in seq if n in ("q_close", "q_join_thread", "ev_set", "loop_summary", "q_put", "proc_join", "join_workers")]
        path.oblige(m.oblname("dispatch/shutdown_order_close_flush_flag_join"),
                    z3.BoolVal(seq == ["q_close", "q_join_thread", "ev_set", "join_workers"]), kind="trace", assume_after=False)


@contract("toasty.pyramid.Pyramid._walk_parallel")
def _(c):
    c.self_type("Pyramid", **PYRAMID_FIELDS)
    c.args(callback="callback", cli_progress="bool", parallel="int")
    c.shards(14)
    c.requires("parallel >= 1 and self.depth >= 0", name="parallel_mode")
    c.requires("self._apex.n >= 0 and self._apex.x >= 0 and self._apex.y >= 0 and self._apex.n <= self.depth", name="valid_apex")
    c.local(readiness="emptydict => symmap", ready_queue="opaque:queue => walk_ready_queue",
            done_queue="opaque:queue => walk_done_queue", done_event="opaque:event => event",
            workers="emptylist => proclist")
    c.loop(0, abstract={"why": "preparation pass over the reduction iterator",
                        "assume": [("no_report_yet", E1), ("seeded_exactly_the_live_tiles_above_the_leaves", E2),
                                   ("pre_readied_bits_are_the_dead_children", E3), ("table_values_are_4_bit", E5)]},
           havoc=["readiness", "ready_queue", "done_queue"], types={"total": "int"})
    c.loop(2, summarise="stateless")
    c.loop(3, invariant=[("only_live_nonleaf_tiles_released", I1), ("reported_implies_released", I2),
                         ("released_iff_all_live_children_reported", I3), ("table_bits_are_dead_or_reported_children", I4),
                         ("table_values_are_4_bit", I5)],
           havoc=["readiness", "ready_queue", "done_queue"],
           hints=["pos", "ppos", "child(ppos, 0)", "child(ppos, 1)", "child(ppos, 2)", "child(ppos, 3)",
                  ],
           sk_hints=["child(Pos(n, x, y), 0)", "child(Pos(n, x, y), 1)", "child(Pos(n, x, y), 2)", "child(Pos(n, x, y), 3)"])
    c.may_raise("WorkerFailedError", "a failed worker makes the walk fail visibly instead of waiting for ever")
    c.on_path(producer_trace("toasty.pyramid._mp_walk_worker",
                             lambda env: (env.lookup("done_queue"), env.lookup("ready_queue"), env.lookup("done_event"),
                                          env.lookup("callback")),
                             item_of=lambda it: None, loop_workers=2, loop_items=99, loop_join=98))
    c.on_path(dispatch_trace)
