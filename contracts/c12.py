"""C12 — Point lookup returns the tile and pixel that actually contain the point."""
PROPERTY = "C12"
LEVEL = "other"
CONTRACT_MODULES = ["contracts.specfuns", "contracts.toastgeom"]
FUNCTIONS = ["toasty.toast.toast_tile_for_point"]
LEMMAS = []
SLOW = ()
TRUSTED_BASE = ["pyvc VC generator; z3/cvc5", "machine floats treated as reals; np.radians(x) = x*pi/180"]
ASSUMPTIONS = ["that the best-scoring child geometrically CONTAINS the point (the half-space scores in floating point: cross/dot products of "
               "unit vectors, here an uninterpreted finite number <= 0 per edge) and the pixel fit of toast_pixel_for_point are bounded-tier only"]
EXPLANATION = ("level-1 quadrant selection proved against the documented layout in both coordinate systems for every real longitude, with the "
               "corners/orientation of the requested system; descent for every depth >= 1 (loop invariant): the result is at the requested "
               "depth below that level-1 tile, each step moves to a child whose containment score is 0 or maximal among the four, every "
               "score tests the caller's latitude and normalised longitude against the four directed edges of that child")
