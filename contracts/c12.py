"""C12 — Point lookup returns the tile and pixel that actually contain the point."""
PROPERTY = "C12"
LEVEL = "other"
CONTRACT_MODULES = ["contracts.specfuns", "contracts.toastgeom"]
FUNCTIONS = ["toasty.toast.toast_tile_for_point"]
LEMMAS = []
SLOW = ()
TRUSTED_BASE = ["pyvc VC generator; z3/cvc5", "machine floats treated as reals; np.radians(x) = x*pi/180"]
ASSUMPTIONS = ["containment below level 1 (half-space scores in floating point), nesting of the descent and the pixel fit are bounded-tier only"]
EXPLANATION = "level-1 quadrant selection proved against the documented layout in both coordinate systems for every real longitude"
