"""C18 — Publishing is crash-safe: index.wtml reaches the store only after all else."""
PROPERTY = "C18"
LEVEL = "proof"
CONTRACT_MODULES = ["contracts.specfuns", "contracts.pipeline"]
FUNCTIONS = ["toasty.pipeline.PipelineManager.publish", "toasty.pipeline.local_io.LocalPipelineIo.put_item",
             "toasty.pipeline.cli.refresh_impl"]
LEMMAS = []
SLOW = ()
TRUSTED_BASE = [
    "pyvc VC generator (python subset semantics, DESIGN.md 2.2); z3/cvc5",
    "os.listdir returns each entry once in arbitrary order; os.rename atomic; open/put_item either complete or raise",
]
ASSUMPTIONS = ["a crash is a prefix of the event trace: every prefix of a path's trace is covered because the "
               "obligations constrain where in the trace index.wtml and the rename may occur"]
EXPLANATION = ("refresh treats a candidate as already done exactly when ITS index.wtml exists in the store (and fetches it "
               "unless done or flagged); The transfer list is proved to end with index.wtml for every listing order and length; the loop body "
               "is proved to complete exactly one transfer of that file; the rename is proved to follow the loop.")
