"""PyramidIO.__init__ (C10: all updaters of a tile must agree on the tile file and hence on the lock; C17): the default
format of a pyramid opened WITHOUT an explicit format is the extension of the FIRST file, in directory-scan order, whose
extension is a supported image format — files with other extensions (lock files, stray files) are skipped, never
decisive — and "png" only if there is no such file (or no directory).  An explicit format is taken as given.

Model (assumed, listed): glob.iglob yields the matching names in some order (a sequence of symbolic length);
os.path.splitext(name)[1][1:] is the extension of that name."""
import z3

from pyvc.contracts_api import contract
from pyvc.core import fresh_name, z3num
from pyvc import ops
from pyvc.values import Inst, Opaque, StrId, StrSeq, Tok, SymSeq, PyList, SliceVal

I = z3.IntSort()
ExtOf = z3.Function("ExtensionOfScannedName", I, I)      # identity of the extension string of the k-th scanned name


class DotExt(object):
    """os.path.splitext(name)[1] of the k-th scanned name: '.<ext>'"""

    def __init__(self, k):
        self.k = k


def supported(interp, k):
    fmts = interp.module_value("SUPPORTED_FORMATS", interp.repo.module("toasty.image"))
    items = fmts.items if isinstance(fmts, PyList) else list(fmts)
    return z3.Or(*[ExtOf(z3num(k)) == ops.strlit(s) for s in items if isinstance(s, str)])


class ScanPlugin(object):
    def getitem(self, interp, base, idx):
        if isinstance(base, DotExt) and isinstance(idx, SliceVal) and idx.start == 1 and idx.stop is None and idx.step in (None, 1):
            return StrId(ExtOf(z3num(base.k)))
        return NotImplemented

    def contains(self, interp, container, x):
        if isinstance(x, StrId) and isinstance(container, (PyList, tuple)):
            items = container.items if isinstance(container, PyList) else list(container)
            if all(isinstance(s, str) for s in items):
                return z3.Or(*[x.ident == ops.strlit(s) for s in items])
        return None


def install_externals(X):
    X.plugins.insert(0, ScanPlugin())

    @X.register("glob.iglob")
    def _(interp, args, kwargs):
        interp.note_assumption("glob.iglob(pattern): the matching names, each once, in some order")
        n = z3.Int(fresh_name("n_scanned"))
        interp.path.assume(n >= 0)
        interp.path.event("iglob", args[0], n)
        def name(k):
            o = Opaque("scanned_name", "name[%s]" % (k,))
            o.attrs["_g_idx"] = z3num(k)
            return o
        return SymSeq(n, name, "scan")

    @X.register("os.path.splitext")
    def _(interp, args, kwargs):
        a = args[0]
        if isinstance(a, Opaque) and a.kind == "scanned_name":
            return (Opaque("root", "root[%s]" % a.attrs["_g_idx"]), DotExt(a.attrs["_g_idx"]))
        from pyvc.core import OutOfSubset
        raise OutOfSubset("os.path.splitext of %r" % (a,))

    @X.register("os.path.isdir")
    def _(interp, args, kwargs):
        return z3.Bool(fresh_name("isdir"))


from pyvc.types import register_type  # noqa: E402

register_type("strid", lambda interp, name: StrId(z3.Int(fresh_name(name))))

INIT_CASES = [{"scheme": s, "explicit": e} for s in ("L/Y/YX", "LXY") for e in (False, True)]


def init_setup(interp, path):
    case = interp._case
    me = Inst("PyramidIO", module="toasty.pyramid")
    return {"self": me, "base_dir": StrSeq([Tok("base_dir", "path")]), "scheme": case["scheme"],
            "default_format": StrId(z3.Int(fresh_name("given_format"))) if case["explicit"] else None}


def init_trace(m, path, fr, env, outcome, value, exc):
    if outcome != "return":
        return
    case = m._case
    me = env.lookup("self")
    fmt = me.fields.get("_default_format")
    name = m.oblname("default_format_is_the_given_one_else_the_first_supported_extension_else_png")
    if case["explicit"]:
        given = fr.entry_env.lookup("default_format")
        path.oblige(name, z3.BoolVal(isinstance(fmt, StrId)) if not isinstance(fmt, StrId) else fmt.ident == given.ident,
                    kind="trace", assume_after=False)
        return
    scans = [e for e in path.events if e[0] == "iglob"]
    j = z3.Int(fresh_name("j"))
    png = ops.strlit("png")
    if isinstance(fmt, StrId) and z3.is_app(fmt.ident) and fmt.ident.decl().name() == "ExtensionOfScannedName":
        # adopted from a scanned file: it must be the first supported one
        if not scans:
            path.oblige(name, z3.BoolVal(False), kind="trace", assume_after=False)
            return
        n = scans[0][2]
        kk = fmt.ident.arg(0)
        path.oblige(name, z3.And(0 <= kk, kk < n, supported(m, kk),
                                 z3.ForAll([j], z3.Implies(z3.And(0 <= j, j < kk), z3.Not(supported(m, j))))),
                    kind="trace", assume_after=False)
        return
    if isinstance(fmt, StrId):
        is_png = fmt.ident == png
    else:
        is_png = z3.BoolVal((fmt == "png") or (isinstance(fmt, StrSeq) and fmt.is_literal() and fmt.literal() == "png"))
    if scans:
        n = scans[0][2]
        path.oblige(name, z3.And(is_png, z3.ForAll([j], z3.Implies(z3.And(0 <= j, j < n), z3.Not(supported(m, j))))),
                    kind="trace", assume_after=False)
    else:
        path.oblige(name, is_png, kind="trace", assume_after=False)


from pyvc.contracts_api import spec  # noqa: E402


@spec
def scan_supported(interp, k):
    return supported(interp, k)


@contract("toasty.pyramid.PyramidIO.__init__")
def _(c):
    c.cases(*INIT_CASES)
    c.setup(init_setup)
    c.loop(0, invariant=[
        ("no_earlier_name_has_a_supported_extension", "forall(lambda j: implies(0 <= j and j < _k, not scan_supported(j)))"),
        ("still_the_fallback", "default_format == 'png'"),
    ], types={"extension": "strid", "default_format": "strid"})
    c.on_path(init_trace)
