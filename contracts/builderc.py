"""Builder.toast_base and Builder.cascade (C17 recorded levels, C14 recorded data range, C06/C07 stage wiring).

toast_base(sampler, depth, …): the base layer is sampled ONCE into this builder's pyramid, with the caller's
sampler at the caller's depth (through the caller's tile filter when one is given), and the recorded number of
tile levels is that depth.  cascade(): the cascade runs over this pyramid from the recorded level with the stock
averaging merger; for FITS pyramids the recorded data range is the DATAMIN/DATAMAX cards of the level-0 tile of
THIS pyramid (that file, those cards)."""
import z3

from pyvc.contracts_api import contract
from pyvc.core import fresh_name, z3num
from pyvc import ops
from pyvc.values import Inst, Opaque, PyDict, StrSeq, EnumVal, NTuple
from . import datarange as _dr
from . import paths as _paths  # noqa: F401  (tile_path contract)
from . import toastsample as _ts  # noqa: F401  (sample_layer contracts)


def _record_call(name):
    def model(interp, env):
        interp.path.event("stage_call", name, dict(env.vars))
        return None
    return model


# call-site views: the stages themselves are verified under their own properties (C06, C02)
contract("toasty.merge.cascade_images")(lambda c: c.model(_record_call("cascade_images")))


def _pio(fmt):
    return Inst("PyramidIO", module="toasty.pyramid", fields={"_base_dir": "base", "_scheme": "{1}/{3}/{3}_{2}", "_default_format": fmt})


def tb_setup(interp, path):
    case = interp._case
    imgset = Inst("ImageSet", module=None, fields={"tile_levels": z3.Int(fresh_name("old_levels")),
                                                        "file_type": ".fits", "data_set_type": None, "base_degrees_per_tile": None,
                                                        "projection": None, "center_x": 0, "center_y": 0})
    place = Inst("Place", module=None, fields={"zoom_level": 0})
    me = Inst("Builder", module="toasty.builder", fields={"pio": _pio("fits"), "imgset": imgset, "place": place})
    kw = PyDict({})
    if case["filtered"]:
        kw.items["tile_filter"] = Opaque("tile_filter", "tile_filter")
    kw.items["parallel"] = z3.Int(fresh_name("parallel"))
    kw.items["cli_progress"] = False
    return {"self": me, "sampler": Opaque("sampler", "sampler"), "depth": z3.Int(fresh_name("depth")),
            "is_planet": case["planet"], "is_pano": False, "kwargs": kw}


def tb_trace(m, path, fr, env, outcome, value, exc):
    if outcome != "return":
        return
    case = m._case
    me = env.lookup("self")
    depth = fr.entry_env.lookup("depth")
    calls = [e for e in path.events if e[0] == "call" and (e[1].endswith("toast.sample_layer") or e[1].endswith("toast.sample_layer_filtered"))]
    want_fn = "sample_layer_filtered" if case["filtered"] else "sample_layer"
    ok = len(calls) == 1 and calls[0][1].endswith("toast." + want_fn)
    g = z3.BoolVal(False)
    if ok:
        a = calls[0][2]
        same = (a.get("pio") is not None and getattr(a.get("pio"), "fields", {}).get("_base_dir") == "base"
                and isinstance(a.get("sampler"), Opaque) and a["sampler"].name == "sampler")
        csys = a.get("coordsys")
        want_cs = "PLANETARY" if case["planet"] else "ASTRONOMICAL"
        same = same and isinstance(csys, EnumVal) and csys.name == want_cs
        if case["filtered"]:
            same = same and isinstance(a.get("tile_filter"), Opaque) and a["tile_filter"].name == "tile_filter"
        g = z3.And(z3.BoolVal(bool(same)), z3num(a.get("depth")) == z3num(depth)) if same else z3.BoolVal(False)
    path.oblige(m.oblname("base_layer_sampled_once_with_the_callers_sampler_depth_filter_and_system"), g, kind="trace", assume_after=False)
    lv = me.fields["imgset"].fields.get("tile_levels")
    path.oblige(m.oblname("recorded_tile_levels_is_the_sampled_depth"), z3num(lv) == z3num(depth), kind="trace", assume_after=False)


@contract("toasty.builder.Builder.toast_base")
def _(c):
    c.cases(*[{"filtered": f, "planet": p} for f in (False, True) for p in (False, True)])
    c.setup(tb_setup)
    c.requires("depth >= 0", name="depth_is_a_level")
    c.may_raise("CallbackError", "errors of the sampling stage propagate")
    c.may_raise("WorkerFailedError", "errors of the sampling stage propagate")
    c.on_path(tb_trace)


# ---- cascade ---------------------------------------------------------------------------------------------------
def cas_setup(interp, path):
    case = interp._case
    imgset = Inst("ImageSet", module=None, fields={
        "tile_levels": z3.Int(fresh_name("levels")), "file_type": ".fits" if case["fits"] else ".png",
        "data_min": None, "data_max": None, "pixel_cut_low": None, "pixel_cut_high": None})
    me = Inst("Builder", module="toasty.builder", fields={"pio": _pio("fits" if case["fits"] else "png"), "imgset": imgset})
    kw = PyDict({"parallel": z3.Int(fresh_name("parallel")), "cli_progress": False})
    return {"self": me, "kwargs": kw}


def cas_trace(m, path, fr, env, outcome, value, exc):
    if outcome != "return":
        return
    case = m._case
    me = env.lookup("self")
    calls = [e for e in path.events if e[0] == "stage_call" and e[1] == "cascade_images"]
    ok = len(calls) == 1
    g = z3.BoolVal(False)
    if ok:
        a = calls[0][2]
        pio, start, merger = a.get("pio"), a.get("start"), a.get("merger")
        okk = (isinstance(pio, Inst) and pio is fr.entry_env.lookup("self").fields["pio"] or getattr(pio, "fields", {}).get("_base_dir") == "base")
        okk = okk and getattr(merger, "qualname", "").endswith("merge.averaging_merger")
        g = z3.And(z3.BoolVal(bool(okk)), z3num(start) == z3num(fr.entry_env.lookup("self").fields["imgset"].fields["tile_levels"])) if okk else g
    path.oblige(m.oblname("cascade_of_this_pyramid_from_the_recorded_level_with_the_averaging_merger"), g, kind="trace", assume_after=False)
    img = me.fields["imgset"]
    name = m.oblname("recorded_range_is_the_level0_tiles_DATAMIN_DATAMAX")
    if not case["fits"]:
        path.oblige(name, z3.BoolVal(img.fields.get("data_min") is None and img.fields.get("data_max") is None), kind="trace", assume_after=False)
        return
    opens = [e for e in path.events if e[0] == "enter" and e[1] == "fits_open"]
    if len(opens) != 1 or not getattr(path, "fits_ids", None):
        path.oblige(name, z3.BoolVal(False), kind="trace", assume_after=False)
        return
    p = opens[0][2]
    tcalls = [e for e in path.events if e[0] == "call" and e[1].endswith("PyramidIO.tile_path")]
    same_path = False
    if len(tcalls) == 1:
        a = tcalls[0][2]
        pos = a.get("pos")
        same_path = (isinstance(pos, NTuple) and [v for v in pos.vals] == [0, 0, 0] and a.get("format") == "fits"
                     and getattr(a.get("self"), "fields", {}).get("_base_dir") == "base"
                     and isinstance(p, StrSeq) and len(p.parts) == 1 and getattr(p.parts[0], "name", "").startswith("ret_"))
    hid = path.fits_ids[0]
    dmin, dmax = img.fields.get("data_min"), img.fields.get("data_max")
    if dmin is None or dmax is None:
        path.oblige(name, z3.BoolVal(False), kind="trace", assume_after=False)
        return
    path.oblige(name, z3.And(z3.BoolVal(bool(same_path)),
                             z3num(dmin) == _dr.CardVal(hid, ops.strlit("DATAMIN")), z3num(dmax) == _dr.CardVal(hid, ops.strlit("DATAMAX"))),
                kind="trace", assume_after=False)


def install_externals(X):
    @X.register("numpy.nanpercentile")
    def _(interp, args, kwargs):
        return (z3.Real(fresh_name("pct_lo")), z3.Real(fresh_name("pct_hi")))


@contract("toasty.builder.Builder.cascade")
def _(c):
    c.cases({"fits": True}, {"fits": False})
    c.setup(cas_setup)
    c.may_raise("CallbackError", "errors of the cascade stage propagate")
    c.may_raise("WorkerFailedError", "errors of the cascade stage propagate")
    c.may_raise("KeyError", "a level-0 tile without range cards (all-NaN data) is reported, not papered over")
    c.on_path(cas_trace)
