"""C17 (with C07's stage wiring): FitsTiler._tile_toast — every image of the collection is sampled into the SAME
base level, the one the WTML later records: the caller's ``start`` when given, otherwise max(1, max over the
images with a WCS of guess_base_layer_level(wcs)); each image is sampled through its own footprint filter.

Assumed models (listed in the evidence): the collection yields the same n images on every pass (image k with
has_wcs() = HasWcs(k), its WCS object wcs[k]); guess_base_layer_level is a function of the WCS (Level(k));
WcsSampler(data, wcs).filter() / .sampler() are the filter / sampler of that image; Builder methods are recorded."""
import z3

from pyvc.contracts_api import contract, spec
from pyvc.core import fresh_name, z3num
from pyvc import ops
from pyvc.values import Inst, Opaque, SymSeq, PyDict

HasWcs = z3.Function("ImageHasWcs", z3.IntSort(), z3.BoolSort())
Level = z3.Function("GuessedBaseLevel", z3.IntSort(), z3.IntSort())


@spec
def img_has_wcs(interp, k):
    return HasWcs(z3num(k))


@spec
def img_level(interp, k):
    return Level(z3num(k))


def _image(k):
    im = Opaque("coll_image", "image[%s]" % (k,))
    im.attrs["_g_idx"] = z3num(k)
    return im


class TilerPlugin(object):
    def getattr(self, interp, base, attr):
        if isinstance(base, Opaque) and base.kind == "coll_image" and attr == "wcs":
            w = Opaque("img_wcs", "wcs[%s]" % (base.attrs["_g_idx"],))
            w.attrs["_g_idx"] = base.attrs["_g_idx"]
            return w
        if isinstance(base, Opaque) and base.kind == "img_wcs" and attr == "_naxis":
            return (z3.Int(fresh_name("naxis1")), z3.Int(fresh_name("naxis2")))
        return NotImplemented


def install_externals(X):
    X.plugins.insert(0, TilerPlugin())

    @X.register_opaque("fits_coll", "images")
    def _(interp, c, args, kwargs):
        interp.note_assumption("ImageCollection.images(): the same images, in the same order, on every pass")
        interp.path.event("coll_images", c)
        return SymSeq(c.attrs["_g_n"], _image, "images")

    @X.register_opaque("coll_image", "has_wcs")
    def _(interp, im, args, kwargs):
        return HasWcs(im.attrs["_g_idx"])

    @X.register_opaque("coll_image", "asarray")
    def _(interp, im, args, kwargs):
        a = Opaque("img_array", "array[%s]" % (im.attrs["_g_idx"],))
        a.attrs["_g_idx"] = im.attrs["_g_idx"]
        return a

    for meth in ("toast_base", "cascade", "apply_wcs_info", "set_name"):
        def mk(meth):
            @X.register_opaque("builder", meth)
            def _(interp, b, args, kwargs):
                interp.path.event("builder_" + meth, tuple(args), dict(kwargs))
                return None
        mk(meth)

    @X.register_opaque("filter_list", "append")
    def _(interp, l, args, kwargs):
        interp.path.event("filters_append", args[0])
        return None


# ---- assumed call-site models of repo functions that are not verified here
def _level_model(interp, env):
    w = env.lookup("wcs")
    if not (isinstance(w, Opaque) and w.kind == "img_wcs"):
        from pyvc.core import OutOfSubset
        raise OutOfSubset("guess_base_layer_level of %r" % (w,))
    return Level(w.attrs["_g_idx"])


contract("toasty.pyramid.guess_base_layer_level")(lambda c: c.model(_level_model))


def _wcs_sampler_init(interp, env):
    me = env.lookup("self")
    me.fields["_g_data"] = env.lookup("data")
    me.fields["_g_wcs"] = env.lookup("wcs")
    return None


def _wcs_sampler_filter(interp, env):
    me = env.lookup("self")
    f = Opaque("tile_filter", "filter_of[%s]" % (me.fields["_g_wcs"].attrs.get("_g_idx"),))
    f.attrs["_g_idx"] = me.fields["_g_wcs"].attrs.get("_g_idx")
    f.attrs["_g_data_idx"] = me.fields["_g_data"].attrs.get("_g_idx")
    return f


def _wcs_sampler_sampler(interp, env):
    me = env.lookup("self")
    f = Opaque("sampler", "sampler_of[%s]" % (me.fields["_g_wcs"].attrs.get("_g_idx"),))
    f.attrs["_g_idx"] = me.fields["_g_wcs"].attrs.get("_g_idx")
    f.attrs["_g_data_idx"] = me.fields["_g_data"].attrs.get("_g_idx")
    return f


contract("toasty.samplers.WcsSampler.__init__")(lambda c: c.model(_wcs_sampler_init))
contract("toasty.samplers.WcsSampler.filter")(lambda c: c.model(_wcs_sampler_filter))
contract("toasty.samplers.WcsSampler.sampler")(lambda c: c.model(_wcs_sampler_sampler))


def tt_setup(interp, path):
    case = interp._case
    n = z3.Int(fresh_name("n_images"))
    path.assume(n >= 0)
    coll = Opaque("fits_coll", "coll")
    coll.attrs["_g_n"] = n
    me = Inst("FitsTiler", module="toasty.fits_tiler", fields={"coll": coll, "builder": Opaque("builder", "builder")})
    kw = PyDict({})
    if case["start"]:
        kw.items["start"] = z3.Int(fresh_name("start_arg"))
    par = z3.Int(fresh_name("parallel"))
    return {"self": me, "cli_progress": False, "parallel": par, "kwargs": kw}


def tt_trace(m, path, fr, env, outcome, value, exc):
    case = m._case
    calls = [e for e in path.events if e[0] == "builder_toast_base"]
    if not calls:
        return
    coll = fr.entry_env.lookup("self").fields["coll"]
    n = coll.attrs["_g_n"]
    start = env.lookup("start") if env.has("start") else None
    for e in calls:
        args, kw = e[1], e[2]
        depth = args[1] if len(args) > 1 else kw.get("depth")
        smp = args[0] if args else kw.get("sampler")
        name = m.oblname("every_image_is_sampled_into_the_one_recorded_base_level")
        if depth is None or start is None or not (ops.is_num(depth) or isinstance(depth, int)):
            path.oblige(name, z3.BoolVal(False), kind="trace", assume_after=False)
            continue
        d = z3num(depth)
        if case["start"]:
            want = fr.entry_env.lookup("kwargs").items["start"]
            path.oblige(name, d == z3num(want), kind="trace", assume_after=False)
        else:
            j = z3.Int(fresh_name("j"))
            goal = z3.And(d == z3num(start), d >= 1,
                          z3.ForAll([j], z3.Implies(z3.And(0 <= j, j < n, HasWcs(j)), d >= Level(j))),
                          z3.Or(d == 1, z3.Exists([j], z3.And(0 <= j, j < n, HasWcs(j), d == Level(j)))))
            path.oblige(name, goal, kind="trace", assume_after=False)
        # the image is sampled with its own sampler through its own footprint filter
        tf = kw.get("tile_filter")
        ok = (isinstance(smp, Opaque) and smp.kind == "sampler" and isinstance(tf, Opaque) and tf.kind == "tile_filter"
              and smp.attrs.get("_g_idx") is not None and tf.attrs.get("_g_idx") is not None)
        g = z3.BoolVal(False)
        if ok:
            g = z3.And(z3num(smp.attrs["_g_idx"]) == z3num(tf.attrs["_g_idx"]),
                       z3num(smp.attrs["_g_data_idx"]) == z3num(smp.attrs["_g_idx"]),
                       z3num(tf.attrs["_g_data_idx"]) == z3num(tf.attrs["_g_idx"]))
        path.oblige(m.oblname("each_image_sampled_with_its_own_sampler_and_footprint_filter"), g, kind="trace", assume_after=False)
        path.oblige(m.oblname("one_base_layer_pass_per_image"), z3.BoolVal(len(calls) == 1), kind="trace", assume_after=False)


@contract("toasty.fits_tiler.FitsTiler._tile_toast")
def _(c):
    c.cases({"start": False}, {"start": True})
    c.setup(tt_setup)
    c.local(filters="emptylist => opaque:filter_list")
    c.loop(0, invariant=[
        ("at_least_one", "start >= 1"),
        ("covers_the_images_seen", "forall(lambda j: implies(0 <= j and j < _k and img_has_wcs(j), start >= img_level(j)))"),
        ("is_one_or_a_guessed_level", "start == 1 or exists(lambda j: 0 <= j and j < _k and img_has_wcs(j) and start == img_level(j))"),
    ], types={"start": "int", "level": "int"})
    c.loop(1, invariant=[("true", "True")], types={"last_wcs": "opaque:img_wcs"})
    c.on_path(tt_trace)
