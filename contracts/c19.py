"""C19 — An error while processing any tile is reported, never swallowed by parallelism."""
PROPERTY = "C19"
LEVEL = "other"
CONTRACT_MODULES = ['contracts.specfuns', 'contracts.lemmas_desc', 'contracts.pyramid', 'contracts.parallel', 'contracts.walk', 'contracts.reducer', 'contracts.lemmas_embed', 'contracts.generator', 'contracts.image', 'contracts.merge', 'contracts.pyramidio', 'contracts.study', 'contracts.multitan', 'contracts.multiwcs', 'contracts.toastsample', 'contracts.toastgeom', 'contracts.toastgen', 'contracts.progressc', 'contracts.paths', 'contracts.datarange', 'contracts.builderc']
FUNCTIONS = ['toasty.par_util.ensure_workers_ok', 'toasty.par_util.put_checking_workers', 'toasty.par_util.join_workers', 'toasty.pyramid.Pyramid._walk_serial', 'toasty.pyramid.Pyramid._visit_leaves_serial', 'toasty.transform._do_a_transform', 'toasty.pyramid._mp_walk_worker', 'toasty.pyramid._mp_visit_worker', 'toasty.transform._transform_mp_worker', 'toasty.pyramid.Pyramid._walk_parallel', 'toasty.pyramid.Pyramid._visit_leaves_parallel', 'toasty.transform._transform_parallel', 'toasty.multi_tan.MultiTanProcessor._tile_parallel', 'toasty.multi_tan._mp_tile_worker', 'toasty.multi_wcs.MultiWcsProcessor._tile_parallel', 'toasty.multi_wcs._mp_tile_worker', 'toasty.pyramid.Pyramid.visit_leaves', 'toasty.pyramid.Pyramid.walk', 'toasty.progress.progress_bar', 'toasty.merge.cascade_images', 'toasty.toast.sample_layer', 'toasty.toast.sample_layer_filtered']
LEMMAS = []
SLOW = ()
TRUSTED_BASE = ["pyvc VC generator; z3/cvc5",
                "Process.join returns after the target returned or raised; exitcode is None while running and != 0 iff the target raised",
                "a user callback may raise at any call (modelled as a nondeterministic exception)"]
ASSUMPTIONS = ["'never waits forever' is a liveness property: what is proved is that every blocking point (full queue, "
               "timed-out receive, final join) is followed by an exit-code check that raises; the bounded tier runs real failing callbacks under a watchdog",
               "multi_tan / multi_wcs stages: bounded tier only"]
EXPLANATION = ("serial stages: no handler encloses the callback, the exception escapes; workers: a raising callback ends the worker "
               "with an exception; parents: exit codes are inspected after join, on a full queue and on every dispatcher time-out")
