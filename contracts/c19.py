"""C19 — An error while processing any tile is reported, never swallowed by parallelism."""
PROPERTY = "C19"
LEVEL = "other"
CONTRACT_MODULES = ["contracts.specfuns", "contracts.lemmas_desc", "contracts.pyramid", "contracts.parallel", "contracts.walk",
                    "contracts.errors"]
FUNCTIONS = []
LEMMAS = []
SLOW = ()
TRUSTED_BASE = ["pyvc VC generator; z3/cvc5", "Process.join returns after the target returned or raised; exitcode != 0 iff it raised"]
ASSUMPTIONS = []
EXPLANATION = "exceptional postconditions of the serial and parallel stages"
