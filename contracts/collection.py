"""Contracts for toasty/collection.py (C20): each input contributes the HDU / WCS key selected."""
import z3

from pyvc.contracts_api import contract, spec
from pyvc.core import PyRaise, OutOfSubset, z3num, fresh_name, is_z3
from pyvc import ops
from pyvc.values import Opaque, StrSeq, StrId, Tok, SymSeq, PyList, Ext, BoundMethod
from pyvc.externals import EventCM
from pyvc.calls import TypeOf

I = z3.IntSort()
HasShape = z3.Function("hdu_has_shape", I, I, z3.BoolSort())
ShapeLen = z3.Function("hdu_shape_len", I, I, I)
IsBinTable = z3.Function("hdu_is_bintable", I, I, z3.BoolSort())


class HDUVal(object):
    """The k-th HDU of an opened HDUList (identity = (list, index))."""

    def __init__(self, hdul, index):
        self.hdul, self.index = hdul, index

    def __repr__(self):
        return "<HDU %s[%s]>" % (self.hdul.name, self.index)


class ShapeVal(object):
    def __init__(self, hdu):
        self.hdu = hdu


class HduPlugin(object):
    def getitem(self, interp, base, idx):
        if isinstance(base, Opaque) and base.kind == "hdulist":
            if isinstance(idx, bool) or isinstance(idx, int) or (is_z3(idx) and z3.is_int(idx)):
                interp.note_assumption("HDUList[i] returns the i-th HDU for an integer i and raises for a list key")
                return HDUVal(base, idx)
            # assumed contract: a key that is neither an integer, a name nor a (name, ver) tuple raises KeyError
            raise PyRaise("KeyError", origin="HDUList indexed with %s (assumed contract: non-integer, non-name keys raise)"
                          % type(idx).__name__)
        return NotImplemented

    def getattr(self, interp, base, attr):
        if isinstance(base, HDUVal):
            if attr == "shape":
                return ShapeVal(base)
            return BoundMethod(base, attr)
        return NotImplemented

    def hasattr(self, interp, obj, attr):
        if isinstance(obj, HDUVal) and attr == "shape":
            return HasShape(obj.hdul.attrs["id"], z3num(obj.index))
        return NotImplemented

    def length(self, interp, x):
        if isinstance(x, ShapeVal):
            return ShapeLen(x.hdu.hdul.attrs["id"], z3num(x.hdu.index))
        return NotImplemented

    def identical(self, interp, a, b):
        if isinstance(a, TypeOf) and isinstance(a.v, HDUVal) and isinstance(b, Ext) and b.name.endswith("BinTableHDU"):
            return IsBinTable(a.v.hdul.attrs["id"], z3num(a.v.index))
        return None

    def listify(self, interp, x, kind):
        return NotImplemented

    def enumerate_hook(self, interp, x):
        if isinstance(x, Opaque) and x.kind == "hdulist":
            return SymSeq(x.attrs["n"], lambda k, x=x: (k, HDUVal(x, k)), "enumerate(hdul)")
        return None


def install_externals(X):
    plug = HduPlugin()
    X.plugins.append(plug)

    @X.register("astropy.io.fits.open")
    def _(interp, args, kwargs):
        h = Opaque("hdulist")
        h.attrs["path"] = args[0]
        h.attrs["id"] = z3.Int(fresh_name("hdul"))
        if not hasattr(interp.path, "fits_ids"):
            interp.path.fits_ids = []
        interp.path.fits_ids.append(h.attrs["id"])
        h.attrs["n"] = z3.Int(fresh_name("n_hdus"))
        interp.path.assume(h.attrs["n"] >= 1)
        interp.note_assumption("fits.open returns an HDUList with at least one HDU (the primary)")
        return EventCM("fits_open", args[0], h)


@spec
def is_image_hdu(interp, hid, k):
    k = z3num(k)
    return z3.And(HasShape(hid, k), ShapeLen(hid, k) > 1, z3.Not(IsBinTable(hid, k)))


@spec
def hdul_id(interp, hdul):
    return hdul.attrs["id"]


@spec
def hdu_file_is(interp, hdu, path):
    """The HDU belongs to the HDUList that was opened for ``path``."""
    if not isinstance(hdu, HDUVal):
        return False
    return ops.equals(interp, hdu.hdul.attrs["path"], path)


@spec
def hdu_pos(interp, hdu):
    return hdu.index


@spec
def hdu_selected(interp, coll, k, item):
    """item[1] is the index the user selected for input k (scalar, list element, or the first
    HDU with image data / the last HDU if there is none)."""
    sel = coll.fields["_hdu_index"]
    idx = item[1]
    if sel is None:
        hdu = item[2]
        if not isinstance(hdu, HDUVal):
            return False
        hid, n = hdu.hdul.attrs["id"], hdu.hdul.attrs["n"]
        j = z3.Int(fresh_name("j"))
        idx = z3num(idx)
        first = z3.And(is_image_hdu(interp, hid, idx),
                       z3.ForAll([j], z3.Implies(z3.And(j >= 0, j < idx), z3.Not(is_image_hdu(interp, hid, j)))))
        none = z3.And(idx == n - 1, z3.ForAll([j], z3.Implies(z3.And(j >= 0, j < n), z3.Not(is_image_hdu(interp, hid, j)))))
        return z3.And(idx >= 0, idx < n, z3.Or(first, none))
    if isinstance(sel, SymSeq):
        return ops.equals(interp, idx, sel.at(k))
    return ops.equals(interp, idx, sel)


@spec
def wcs_selected(interp, coll, k, item):
    sel = coll.fields["_wcs_key"]
    if sel is None:
        return ops.equals(interp, item[3], " ")
    if isinstance(sel, SymSeq):
        return ops.equals(interp, item[3], sel.at(k))
    return ops.equals(interp, item[3], sel)


def one_item_per_path(m, path, fr, env, outcome, value, exc):
    """Every completed iteration of the path loop yields exactly one item."""
    ev = path.events
    for i, e in enumerate(ev):
        if e[0] == "loop_iter_end" and e[1] == 0:
            start = max(n for n, x in enumerate(ev[:i]) if x[0] == "loop_iter" and x[1] == 0)
            ys = [x for x in ev[start:i] if x[0] == "yield"]
            path.oblige(m.oblname("one_item_per_input_path"), z3.BoolVal(len(ys) == 1), kind="trace", assume_after=False)



HDU_CASES = [("scalar", "type:int"), ("list", "type:seq[int]"), ("none", None)]
KEY_CASES = [("scalar", "type:tok:wcskey"), ("list", "type:seq[str]"), ("none", None)]


@contract("toasty.collection.SimpleFitsCollection._scan_hdus")
def _(c):
    c.self_type("SimpleFitsCollection", _paths="seq[str]", _hdu_index="none", _wcs_key="none", _blankval="none")
    c.cases(*[{"_hdu_index": h, "_wcs_key": w} for _, h in HDU_CASES for _, w in KEY_CASES])
    c.requires("implies(is_list(self._hdu_index), len(self._hdu_index) >= len(self._paths))", name="one_index_per_path")
    c.requires("implies(is_list(self._wcs_key), len(self._wcs_key) >= len(self._paths))", name="one_key_per_path")
    c.loop(0, summarise="stateless")      # for path_index, fits_path in enumerate(self._paths)
    c.loop(1, invariant=[("no_image_before", "forall(lambda j: implies(0 <= j and j < _k, not is_image_hdu(hdul_id(hdul), j)))")])
    c.may_raise("=Exception", "raised (exactly Exception) when the selected HDU is a binary table")
    c.yields_each("item[0] == self._paths[_it0]", name="path_in_input_order")
    c.yields_each("hdu_selected(self, _it0, item)", name="hdu_index_is_the_selected_one")
    c.yields_each("hdu_file_is(item[2], self._paths[_it0]) and hdu_pos(item[2]) == item[1]", name="hdu_is_that_hdu_of_that_file")
    c.yields_each("wcs_selected(self, _it0, item)", name="wcs_key_is_the_selected_one")
    c.on_path(one_item_per_path)


@spec
def is_list(interp, v):
    return isinstance(v, (SymSeq, PyList))


# ---------------------------------------------------------------------------
# loaders: the selection the user gave reaches the collection unchanged, one entry per input path

contract("toasty.collection.SimpleFitsCollection.__init__")(lambda c: c.inline())

SEL_CASES = [{"hdu": h, "key": w} for _, h in HDU_CASES for _, w in KEY_CASES]


def _sel_value(interp, v, name):
    from pyvc.types import fresh_of_type
    return fresh_of_type(interp, v[5:], name) if isinstance(v, str) and v.startswith("type:") else v


def load_paths_setup(interp, path):
    from pyvc.types import fresh_of_type
    from pyvc.values import Inst
    case = interp._case
    me = Inst("CollectionLoader", module="toasty.collection", fields={
        "hdu_index": _sel_value(interp, case["hdu"], "hdu_index"), "wcs_key": _sel_value(interp, case["key"], "wcs_key"),
        "blankval": z3.Real(fresh_name("blankval"))})
    return {"self": me, "paths": fresh_of_type(interp, "seq[str]", "paths")}


def _same_seq(interp, a, b):
    if isinstance(a, SymSeq) and isinstance(b, SymSeq):
        k = z3.Int(fresh_name("k"))
        eq = ops.equals(interp, a.at(k), b.at(k))
        return ops.conj([ops.equals(interp, a.length, b.length),
                         z3.ForAll([k], z3.Implies(z3.And(k >= 0, k < z3num(a.length)), eq)) if not isinstance(eq, bool) else eq])
    if a is None or b is None:
        return a is None and b is None
    return ops.equals(interp, a, b)


def collection_fields_trace(paths_arg, sel):
    def hook(m, path, fr, env, outcome, value, exc):
        from pyvc.values import Inst
        ok = outcome == "return" and isinstance(value, Inst) and value.cls == "SimpleFitsCollection"
        path.oblige(m.oblname("returns_a_fits_collection"), z3.BoolVal(bool(ok)), kind="trace", assume_after=False)
        if not ok:
            return
        want_paths, want_h, want_k, want_b = sel(m, fr)
        g = _same_seq(m, value.fields["_paths"], want_paths)
        path.oblige(m.oblname("one_entry_per_input_path_in_input_order"), g if not isinstance(g, bool) else z3.BoolVal(g), kind="trace", assume_after=False)
        for fld, want, nm in (("_hdu_index", want_h, "hdu_selection"), ("_wcs_key", want_k, "wcs_key_selection"), ("_blankval", want_b, "blank_value")):
            g = _same_seq(m, value.fields[fld], want)
            path.oblige(m.oblname("%s_reaches_the_collection_unchanged" % nm), g if not isinstance(g, bool) else z3.BoolVal(g), kind="trace", assume_after=False)
    return hook


_lps = contract("toasty.collection.CollectionLoader.load_paths")


@_lps
def _(c):
    c.inline()      # callers (collection.load) execute it in place; it is verified on its own here
    c.cases(*SEL_CASES)
    c.setup(load_paths_setup)
    c.on_path(collection_fields_trace("paths", lambda m, fr: (
        fr.entry_env.lookup("paths"), fr.entry_env.lookup("self").fields["hdu_index"],
        fr.entry_env.lookup("self").fields["wcs_key"], fr.entry_env.lookup("self").fields["blankval"])))


def load_setup(interp, path):
    from pyvc.types import fresh_of_type
    case = interp._case
    return {"input": fresh_of_type(interp, "seq[str]", "input"), "hdu_index": _sel_value(interp, case["hdu"], "hdu_index"),
            "wcs_key": _sel_value(interp, case["key"], "wcs_key"), "blankval": z3.Real(fresh_name("blankval"))}


_ld = contract("toasty.collection.load")


@_ld
def _(c):
    c.cases(*SEL_CASES)
    c.setup(load_setup)
    c.on_path(collection_fields_trace("input", lambda m, fr: (
        fr.entry_env.lookup("input"), fr.entry_env.lookup("hdu_index"), fr.entry_env.lookup("wcs_key"), fr.entry_env.lookup("blankval"))))
