"""Contracts for the plate-carree samplers (C11), over the reals (float constants are the exact
rationals of the IEEE doubles; np.pi is that rational)."""
import fractions
import math

import z3

from pyvc.contracts_api import contract
from pyvc.core import OutOfSubset, z3num, fresh_name, is_z3
from pyvc import ops
from pyvc.ops import simp
from pyvc.values import Inst, Opaque, FuncVal
from pyvc.ndarray import NdArr, fresh_array
from pyvc.calls import round_half_even
from pyvc.externals import FloatInt

PI = fractions.Fraction(math.pi)
TWOPI = 2 * PI


def _r(fr):
    return z3.RealVal(str(fr.numerator)) / z3.RealVal(str(fr.denominator))


def install_externals(X):
    @X.register("numpy.round")
    def _(interp, args, kwargs):
        x = args[0]
        interp.note_assumption("np.round rounds half to even; np.clip(x, a, b) = min(max(x, a), b); ufuncs act elementwise")
        if is_z3(x) and z3.is_real(x):
            return FloatInt(simp(round_half_even(x)))
        if is_z3(x) and z3.is_int(x):
            return FloatInt(x)
        raise OutOfSubset("np.round of %r" % (x,))

    @X.register("numpy.fmod")
    def _(interp, args, kwargs):
        # C fmod: the result has the sign of the dividend: a - b * trunc(a / b)
        a, b = [z3num(v) for v in args[:2]]
        a = z3.ToReal(a) if z3.is_int(a) else a
        b = z3.ToReal(b) if z3.is_int(b) else b
        interp.side_nonzero(b)
        q = a / b
        trunc = z3.If(q >= 0, z3.ToReal(z3.ToInt(q)), -z3.ToReal(z3.ToInt(-q)))
        return simp(a - b * trunc)

    @X.register("numpy.clip")
    def _(interp, args, kwargs):
        x, lo, hi = [z3num(a) for a in args[:3]]
        return simp(z3.If(x < lo, lo, z3.If(x > hi, hi, x)))

    # astropy rotations: opaque, results in the documented ranges
    class _Rot(object):
        pass

    @X.register("astropy.coordinates.ICRS")
    def _(interp, args, kwargs):
        o = Opaque("skycoord", fresh_name("icrs"))
        return o

    @X.register_opaque("skycoord", "transform_to")
    def _(interp, o, args, kwargs):
        interp.note_assumption("ICRS -> Galactic / Ecliptic: lon in [0, 2pi), lat in [-pi/2, pi/2] (rotation itself external)")
        lon, lat = z3.Real(fresh_name("rot_lon")), z3.Real(fresh_name("rot_lat"))
        interp.path.assume(z3.And(lon >= 0, lon < _r(TWOPI), lat >= -_r(PI / 2), lat <= _r(PI / 2)))
        interp.path.rotated = (lon, lat)
        res = Opaque("rotated", fresh_name("rot"))
        ang_lon, ang_lat = Opaque("angle", "l"), Opaque("angle", "b")
        ang_lon.attrs["rad"] = lon
        ang_lat.attrs["rad"] = lat
        for k in ("l", "lon"):
            res.attrs[k] = ang_lon
        for k in ("b", "lat"):
            res.attrs[k] = ang_lat
        return res

    for nm in ("astropy.coordinates.Galactic", "astropy.coordinates.BarycentricTrueEcliptic"):
        X.calls[nm] = (lambda interp, args, kwargs: Opaque("frame", fresh_name("frame")))

    from pyvc.interp import EXT_CONSTANTS
    EXT_CONSTANTS["astropy.units.rad"] = Opaque("unit", "rad")
    X.plugins.insert(0, UnitPlugin())


class UnitPlugin(object):
    """x * u.rad is x (units are bookkeeping only)"""

    def is_array(self, v):
        return isinstance(v, Opaque) and v.kind == "unit"

    def array_binop(self, interp, op, a, b):
        if isinstance(b, Opaque) and b.kind == "unit" and op == "*":
            return a
        if isinstance(a, Opaque) and a.kind == "unit" and op == "*":
            return b
        return NotImplemented


VARIANTS = {
    # name: (longitude range start of the normalised value, direction, lon of the left edge of column 0)
    "plate_carree_sampler": ("centred", "left"),
    "plate_carree_galactic_sampler": ("centred", "left"),
    "plate_carree_ecliptic_sampler": ("ecliptic", "left"),
    "plate_carree_planet_sampler": ("centred", "right"),
    "plate_carree_planet_zeroleft_sampler": ("zero", "right"),
    "plate_carree_zeroright_sampler": ("zero", "left"),
}


def sampler_setup(interp, path):
    ny, nx = z3.Int(fresh_name("ny")), z3.Int(fresh_name("nx"))
    path.assume(z3.And(ny >= 1, nx >= 1))
    return {"data": fresh_array((ny, nx), "i32", "map", interp)}


def sampler_trace(variant):
    norm, direction = VARIANTS[variant]

    def hook(m, path, fr, env, outcome, value, exc):
        ok = outcome == "return" and isinstance(value, FuncVal)
        path.oblige(m.oblname("returns_a_sampler_function"), z3.BoolVal(bool(ok)), kind="trace", assume_after=False)
        if not ok:
            return
        data = fr.entry_env.lookup("data")
        ny, nx = data.shape
        pi, twopi = _r(PI), _r(TWOPI)
        lon, lat = z3.Real(fresh_name("lon")), z3.Real(fresh_name("lat"))
        saved = list(path.pc)
        path.assume(z3.And(lat >= -pi / 2, lat <= pi / 2))
        path.rotated = None
        res = m.call_function(value, [lon, lat], {})
        okr = is_z3(res) and z3.is_app(res) and res.num_args() == 2
        path.oblige(m.oblname("result_is_one_map_element"), z3.BoolVal(bool(okr)), kind="trace", assume_after=False)
        if not okr:
            path.pc[:] = saved
            return
        iy, ix = res.arg(0), res.arg(1)
        L, B = (lon, lat) if getattr(path, "rotated", None) is None else path.rotated
        q = z3.Int(fresh_name("q"))
        if norm == "centred":
            lp = z3.Real(fresh_name("lon_norm"))
            path.assume(z3.And(lp == L - twopi * z3.ToReal(q), lp >= -pi, lp < pi))
            left0 = pi if direction == "left" else -pi
        elif norm == "zero":
            lp = z3.Real(fresh_name("lon_norm"))
            path.assume(z3.And(lp == L - twopi * z3.ToReal(q), lp >= 0, lp < twopi))
            left0 = twopi if direction == "left" else z3.RealVal(0)
        else:  # ecliptic: code path lon % 2pi - pi with 0 at the right edge after rotation (layout taken from the code/reference test)
            lp = z3.Real(fresh_name("lon_norm"))
            path.assume(z3.And(lp == L - twopi * z3.ToReal(q) - pi, lp >= -pi, lp < pi))
            left0 = pi
        w = twopi / z3.ToReal(nx)
        k = z3.ToReal(ix)
        if direction == "left":
            cell_lon = z3.And(lp >= left0 - (k + 1) * w, lp <= left0 - k * w)
        else:
            cell_lon = z3.And(lp >= left0 + k * w, lp <= left0 + (k + 1) * w)
        hrow = pi / z3.ToReal(ny)
        cell_lat = z3.And(B >= pi / 2 - (z3.ToReal(iy) + 1) * hrow, B <= pi / 2 - z3.ToReal(iy) * hrow)
        path.oblige(m.oblname("never_indexes_outside_the_map"), z3.And(iy >= 0, iy < ny, ix >= 0, ix < nx), kind="trace", assume_after=False)
        path.oblige(m.oblname("column_cell_contains_the_longitude"), cell_lon, kind="trace", assume_after=False)
        path.oblige(m.oblname("row_cell_contains_the_latitude"), cell_lat, kind="trace", assume_after=False)
        if getattr(path, "rotated", None) is None:
            j = z3.Int(fresh_name("j"))
            res2 = m.call_function(value, [simp(lon + twopi * z3.ToReal(j)), lat], {})
            same = z3.And(res2.arg(0) == iy, res2.arg(1) == ix) if (is_z3(res2) and z3.is_app(res2) and res2.num_args() == 2) else z3.BoolVal(False)
            path.oblige(m.oblname("periodic_in_longitude_with_period_2pi"), same, kind="trace", assume_after=False)
        path.pc[:] = saved

    return hook


for _v in VARIANTS:
    contract("toasty.samplers." + _v)((lambda v: (lambda c: (c.inline(), c.setup(sampler_setup), c.on_path(sampler_trace(v)))))(_v))
