"""C11 — Plate-carree samplers return the source pixel containing each sky point."""
PROPERTY = "C11"
LEVEL = "other"
CONTRACT_MODULES = ["contracts.specfuns", "contracts.samplers"]
FUNCTIONS = ["toasty.samplers.plate_carree_sampler", "toasty.samplers.plate_carree_galactic_sampler",
             "toasty.samplers.plate_carree_ecliptic_sampler", "toasty.samplers.plate_carree_planet_sampler",
             "toasty.samplers.plate_carree_planet_zeroleft_sampler", "toasty.samplers.plate_carree_zeroright_sampler"]
LEMMAS = []
SLOW = ()
TRUSTED_BASE = ["pyvc VC generator; z3 (mixed integer/real arithmetic)/cvc5",
                "machine floats treated as mathematical reals; np.pi is the exact rational of the IEEE double",
                "np.round half-to-even, np.clip, elementwise ufuncs; astropy rotations external with results in the documented ranges"]
ASSUMPTIONS = ["the proof is pointwise (one (lon, lat) pair): numpy applies the same arithmetic to every array element",
               "boundary points: over the reals the closed cell is proved; in floats a boundary point may resolve to the adjacent cell (bounded tier applies the tolerance)",
               "the ecliptic layout (0 at the right edge after rotation) is taken from its code path and reference test"]
EXPLANATION = "cell containment, index safety and 2pi-periodicity proved for all map shapes and all real longitudes, for all six variants"
