"""C15 — Undefined pixels stay undefined: mask semantics and tile persistence."""
PROPERTY = "C15"
LEVEL = "other"
CONTRACT_MODULES = ['contracts.specfuns', 'contracts.lemmas_desc', 'contracts.pyramid', 'contracts.image', 'contracts.merge', 'contracts.pyramidio', 'contracts.study', 'contracts.paths', 'contracts.parallel', 'contracts.multitan', 'contracts.toastsample', 'contracts.datarange', 'contracts.builderc', 'contracts.walk', 'contracts.reducer', 'contracts.lemmas_embed', 'contracts.generator', 'contracts.toastgeom', 'contracts.toastgen', 'contracts.multiwcs']
FUNCTIONS = ['toasty.image.Image.fill_into_maskable_buffer', 'toasty.image.Image.update_into_maskable_buffer', 'toasty.image.Image.clear', 'toasty.image.Image.is_completely_masked', 'toasty.pyramid.PyramidIO.write_image', 'toasty.pyramid.PyramidIO.read_image', 'toasty.toast.ToastSampler.visit_callback', 'toasty.study.StudyTiling.tile_image', 'toasty.pyramid.PyramidIO.update_image']
LEMMAS = []
SLOW = ()
TRUSTED_BASE = [
    "pyvc VC generator; z3/cvc5",
    "numpy contracts of DESIGN.md 3.1 as encoded in pyvc/ndarray.py (basic slicing = slice.indices, views alias, "
    "fill, slice assignment, putmask, elementwise comparison/logic, isnan, any/all)",
]
ASSUMPTIONS = ["F16x3 images are NaN in all channels of a pixel or in none (invariant of data produced by toasty)",
               "rectangle indexers are basic slices with step +1/-1 (the forms used in the repository); integer-array "
               "indexers of the chunk sampler are covered by the bounded tier",
               "codec round trips (png/npy/fits) are covered by the bounded tier only"]
EXPLANATION = "fill / update / clear / is-masked proved per image mode for all sizes and slice rectangles"
