"""C07 — Tile filters never drop a tile holding data: filtered sampling leaves no holes."""
PROPERTY = "C07"
LEVEL = "other"
CONTRACT_MODULES = ['contracts.specfuns', 'contracts.lemmas_desc', 'contracts.pyramid', 'contracts.parallel', 'contracts.walk', 'contracts.reducer', 'contracts.lemmas_embed', 'contracts.generator', 'contracts.image', 'contracts.merge', 'contracts.pyramidio', 'contracts.study', 'contracts.multitan', 'contracts.toastsample', 'contracts.toastgeom', 'contracts.filters', 'contracts.toastgen', 'contracts.fitstiler', 'contracts.paths', 'contracts.datarange', 'contracts.builderc', 'contracts.multiwcs']
FUNCTIONS = ['toasty.samplers._latlon_tile_filter', 'toasty.samplers.ChunkedPlateCarreeSampler._chunk_bounds', 'toasty.samplers.ChunkedPlateCarreeSampler.filter', 'toasty.toast._postfix_corner', 'toasty.toast.generate_tiles_filtered', 'toasty.fits_tiler.FitsTiler._tile_toast', 'toasty.toast.sample_layer_filtered', 'toasty.builder.Builder.toast_base', 'toasty.pyramid.Pyramid._generator']
LEMMAS = []
SLOW = ()
TRUSTED_BASE = ["pyvc VC generator; z3/cvc5", "compiled tile_intersects_latlon_bbox (assumed contract)", "np.asarray copy semantics",
                "machine floats treated as reals"]
ASSUMPTIONS = ["the footprint bounds of WcsSampler._image_bounds (coarse grid + refinement through the external WCS projection), the "
               "chunk sampler's masked indexing and all geometric containment are decided by the bounded tier only"]
EXPLANATION = ("box filter: fresh corner array and bounds in the external contract's order; chunk bounds: exact rectangle edges; "
               "filtered enumeration: a tile is visited iff the filter accepted it and every ancestor below level 0 (recursive count), "
               "nothing below a rejected tile; auto-tiling samples each image through its own footprint filter")
