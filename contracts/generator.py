"""C13: Pyramid._generator (generic branch), Pyramid.subpyramid, _make_position_filter.

_generator, generic (non-TOAST) pyramids.  With apex level na and E(p) = (p.n + na, p.x + ax*2^p.n, p.y + ay*2^p.n)
the sub-pyramid enumeration is the image of generate_pos(depth - na) under E, followed by the strict
ancestors of the apex from level na-1 up to level 0.  The clauses are the sequence-level counterparts of
those of generate_pos: closed-form length, every item in scope (a descendant of the apex down to `depth`,
or a strict ancestor of it), pairwise distinct, no item followed by one of its strict descendants, the
tile slot is None.

subpyramid / _make_position_filter (TOAST pyramids restrict by a tile filter): the installed filter accepts
a tile iff its position is an ancestor-or-self of the apex or lies deeper than the apex, AND the user's own
filter (if any) accepts it — for every tile, at every level.
"""
import z3

from pyvc.contracts_api import contract
from pyvc.core import fresh_name
from pyvc.values import Inst, NTuple, Opaque
from . import specfuns  # noqa: F401
from . import pyramid as _pyr  # noqa: F401


def _gen_setup(interp, path):
    case = interp._case
    me = Inst("Pyramid", module="toasty.pyramid", fields={
        "depth": z3.Int(fresh_name("depth")),
        "_apex": NTuple("Pos", ("n", "x", "y"), [z3.Int(fresh_name("apex." + f)) for f in "nxy"]),
        "_tile_filter": None,
        "_coordsys": None})
    if case.get("toast"):
        from pyvc.values import EnumVal
        me.fields["_coordsys"] = EnumVal("ToastCoordinateSystem", "PLANETARY", "planetary")
        if case["filtered"]:
            me.fields["_tile_filter"] = Opaque("tile_filter", "tile_filter")
        return {"self": me}
    if case["sub"]:
        path.assume(me.fields["_apex"].get("n") >= 1)
    else:
        path.assume(me.fields["_apex"].get("n") == 0)
    return {"self": me}


APEX = "self._apex"
NA = "self._apex.n"
ANC = "Pos({l}, self._apex.x // pow2(self._apex.n - ({l})), self._apex.y // pow2(self._apex.n - ({l})))"

IN_SCOPE_ITEM = ("(desc_def(Y[k][0], self._apex) and Y[k][0].n <= self.depth) or "
                 "(Y[k][0].n < self._apex.n and desc_def(self._apex, Y[k][0]))")


def _seq_hook(m, path, fr, env, outcome, value, exc):
    """Sequence clauses of the enumeration, skolemised by hand; the embedding / shift lemmas are instantiated at the
    skolem terms (contracts/lemmas_embed.py), the quantified facts of generate_pos and of the ancestor loop are
    instantiated by their triggers.  All clauses are over the opaque ``desc`` of the Desc theory, like generate_pos's."""
    if outcome != "return":
        return
    if m._case.get("toast"):
        return _toast_hook(m, path, fr, env, outcome, value, exc)
    from pyvc.core import z3num
    from pyvc.types import fresh_of_type
    from .specfuns import Desc
    from . import lemmas_embed as LE
    Y = fr.ytrace.as_symseq(m, default=lambda: fresh_of_type(m, "tuple[Pos,none]", "nil"))
    me = env.lookup("self")
    apex, depth = me.fields["_apex"], z3num(me.fields["depth"])
    a = tuple(z3num(v) for v in apex.vals)
    na = a[0]
    mapped = [s_ for kind, s_ in fr.ytrace.segs if kind == "seq" and getattr(s_, "source", None) is not None]
    names = ("in_scope", "descendants_first", "distinct", "root_last", "first_part_is_the_embedded_full_enumeration")
    if len(mapped) != 1:
        for nm in names:
            path.oblige(m.oblname("yields_seq/" + nm), z3.BoolVal(False), kind="ensures", assume_after=False,
                        info={"why": "the enumeration is not one mapped generate_pos sequence followed by the ancestors"})
        return
    src = mapped[0].source
    Tn = z3num(src.length)
    n_total = z3num(Y.length)

    def pos3(p):
        return tuple(z3num(p.get(f)) for f in ("n", "x", "y"))

    def obl(name, goal, facts):
        saved = list(path.pc)
        for f in facts:
            path.assume(f)
        path.oblige(m.oblname("yields_seq/" + name), goal, kind="ensures", assume_after=False)
        path.pc[:] = saved

    def valid(p):
        return z3.And(p[0] >= 0, p[1] >= 0, p[2] >= 0, p[1] < pow2(p[0]), p[2] < pow2(p[0]))

    def differ(p, q):
        return z3.Or(p[0] != q[0], p[1] != q[1], p[2] != q[2])

    def level_of(idx):
        return na - 1 - (idx - Tn)      # level of the ancestor yielded at index idx >= Tn

    # ---- in_scope: every item is a valid position below the apex (down to depth) or a strict ancestor of the apex
    k = z3.Int(fresh_name("sk_k"))
    Yk, pk = pos3(Y.at(k)[0]), pos3(src.at(k))
    facts = [LE.embed_below_fact(a, pk), LE.embed_valid_fact(a, pk), LE.anc_above_fact(a, level_of(k)), LE.anc_valid_fact(a, level_of(k))]
    scope = z3.Or(z3.And(Desc(*Yk, *a), Yk[0] <= depth), z3.And(Yk[0] < na, Desc(*a, *Yk)))
    obl("in_scope", z3.Implies(z3.And(0 <= k, k < n_total), z3.And(valid(Yk), scope)), facts)
    obl("first_part_is_the_embedded_full_enumeration",
        z3.Implies(z3.And(0 <= k, k < Tn), z3.And(Desc(*Yk, *a), Yk[0] <= depth, Yk[0] == pk[0] + na,
                                                  Yk[1] == pk[1] + a[1] * pow2(pk[0]), Yk[2] == pk[2] + a[2] * pow2(pk[0]))),
        [LE.embed_below_fact(a, pk)])
    # ---- pairs
    i, j = z3.Int(fresh_name("sk_i")), z3.Int(fresh_name("sk_j"))
    Yi, Yj, pi, pj = pos3(Y.at(i)[0]), pos3(Y.at(j)[0]), pos3(src.at(i)), pos3(src.at(j))
    pair = z3.And(0 <= i, i < j, j < n_total)
    obl("descendants_first", z3.Implies(pair, z3.Not(z3.And(Desc(*Yj, *Yi), differ(Yi, Yj)))), [LE.embed_desc_fact(a, pi, pj)])
    obl("distinct", z3.Implies(pair, differ(Yi, Yj)), [LE.embed_injective_fact(a, pi, pj)])
    # ---- the level-0 position comes last
    last = pos3(Y.at(n_total - 1)[0])
    obl("root_last", z3.And(n_total >= 1, last[0] == 0, last[1] == 0, last[2] == 0), [LE.anc_valid_fact(a, z3.IntVal(0))])


def _toast_hook(m, path, fr, env, outcome, value, exc):
    """TOAST pyramids: the enumeration is toast.generate_tiles / generate_tiles_filtered for THIS pyramid's depth,
    coordinate system and filter, with all levels (bottom_only=False), each tile paired with its own position, followed
    by the level-0 position without a tile."""
    case = m._case
    me = fr.entry_env.lookup("self")
    calls = [e for e in path.events if e[0] == "call" and e[1].endswith("toast.generate_tiles_filtered")]
    name = m.oblname("toast_enumeration_of_this_pyramid_then_the_root")
    ok = len(calls) == 1
    all_acc = z3.BoolVal(True)
    if ok:
        a = calls[0][2]
        from pyvc.values import EnumVal
        ok = (a.get("bottom_only") is False and isinstance(a.get("coordsys"), EnumVal) and a["coordsys"].name == "PLANETARY")
        if case["filtered"]:
            ok = ok and isinstance(a.get("filter"), Opaque) and a["filter"].name == "tile_filter"
        else:
            # unfiltered pyramids enumerate every tile: the filter handed down accepts an arbitrary position
            from .toastgen import accepts
            q = NTuple("Pos", ("n", "x", "y"), [z3.Int(fresh_name("q." + f)) for f in "nxy"])
            acc = accepts(m, a.get("filter"), q)
            all_acc = z3.BoolVal(acc) if isinstance(acc, bool) else acc
    segs = fr.ytrace.segs
    ok = ok and len(segs) == 2 and segs[0][0] == "seq" and getattr(segs[0][1], "source", None) is not None and segs[1][0] == "item"
    if not ok:
        path.oblige(name, z3.BoolVal(False), kind="trace", assume_after=False)
        return
    from pyvc.core import z3num
    depth_ok = z3num(calls[0][2].get("depth")) == z3num(me.fields["depth"])
    k = z3.Int(fresh_name("k"))
    item = segs[0][1].at(k)
    src = segs[0][1].source.at(k)
    pair_ok = (isinstance(item, tuple) and len(item) == 2 and isinstance(item[1], NTuple) and item[1].tname == "Tile")
    eqs = []
    if pair_ok:
        eqs = [z3num(u) == z3num(v) for u, v in zip(item[0].vals, src.get("pos").vals)]
        eqs += [z3num(u) == z3num(v) for u, v in zip(item[1].get("pos").vals, src.get("pos").vals)]
    last = segs[1][1]
    last_ok = (isinstance(last, tuple) and len(last) == 2 and last[1] is None and isinstance(last[0], NTuple)
               and [v for v in last[0].vals] == [0, 0, 0])
    path.oblige(name, z3.And(depth_ok, all_acc, z3.BoolVal(bool(pair_ok and last_ok)), *eqs), kind="trace", assume_after=False)


from pyvc.ops import pow2  # noqa: E402


@contract("toasty.pyramid.Pyramid._generator")
def _(c):
    c.post(_seq_hook)
    c.cases({"sub": False}, {"sub": True}, {"toast": True, "filtered": False}, {"toast": True, "filtered": True})
    c.setup(_gen_setup)
    c.requires("self.depth >= 0 and self._apex.n <= self.depth", name="apex_within_depth")
    c.requires("valid_pos(self._apex)", name="apex_is_a_position")
    c.yields("tuple[Pos,none]")
    c.loop(0, summarise="map")
    c.loop(1, summarise="map")
    c.loop(3, summarise="map")
    c.loop(2, yield_ghost=("_Y", "tuple[Pos,none]"),
           invariant=[
               ("level", "1 <= ipos.n and ipos.n <= self._apex.n"),
               ("ancestor", "ipos == " + ANC.format(l="ipos.n")),
               ("count", "len(_Y) == self._apex.n - ipos.n"),
               ("items", "forall(lambda k: implies(0 <= k and k < len(_Y), _Y[k][0] == "
                         + ANC.format(l="self._apex.n - 1 - k") + "), trigger=lambda k: _Y[k][0].n)"),
           ], decreases="ipos.n", types={"ipos": "Pos"})
    c.yields_seq("implies(self._coordsys is None, len(Y) == T(self.depth - self._apex.n) + self._apex.n)", name="length_closed_form")
    c.yields_seq("implies(self._coordsys is None, forall(lambda k: implies(0 <= k and k < len(Y), Y[k][1] is None)))", name="no_tile_for_generic_pyramids")


# ---------------------------------------------------------------------------------------------------------
# _make_position_filter / subpyramid (TOAST pyramids are restricted by a tile filter)

from pyvc.types import register_type  # noqa: E402
from pyvc.symmap import SymSet  # noqa: E402

register_type("symset", lambda interp, name: SymSet(name))

ANC_OF = "Pos({l}, {a}.x // pow2({a}.n - ({l})), {a}.y // pow2({a}.n - ({l})))"


def _filter_spec_hook(m, path, fr, env, outcome, value, exc):
    """The returned closure, applied to an ARBITRARY position, answers
    ``pos.n > apex.n  or  pos is the ancestor of the apex at level pos.n (or the apex itself)``."""
    if outcome != "return":
        return
    from pyvc.core import z3num
    from pyvc import ops
    q = NTuple("Pos", ("n", "x", "y"), [z3.Int(fresh_name("q." + f)) for f in "nxy"])
    a = fr.entry_env.lookup("apex")
    an, ax, ay = [z3num(v) for v in a.vals]
    qn, qx, qy = [z3num(v) for v in q.vals]
    saved = list(path.pc)
    path.assume(z3.And(qn >= 0))
    res = m.call_value(value, [q], {})
    want = z3.Or(qn > an, z3.And(qn <= an, qx == ax / pow2(an - qn), qy == ay / pow2(an - qn)))
    path.oblige(m.oblname("ensures/filter_accepts_exactly_ancestors_of_the_apex_and_deeper_levels"),
                ops.truth(m, res) == want, kind="ensures", assume_after=False)
    path.pc[:] = saved


@contract("toasty.pyramid._make_position_filter")
def _(c):
    c.args(apex="Pos")
    c.requires("apex.n >= 0 and apex.x >= 0 and apex.y >= 0", name="apex_is_nonnegative")
    c.local(parent_positions="emptyset => symset")
    c.loop(0, invariant=[
        ("level", "0 <= apex.n and apex.n <= old(apex).n"),
        ("current_is_the_ancestor", "apex == " + ANC_OF.format(a="old(apex)", l="apex.n")),
        ("set_holds_exactly_the_ancestors_below", "forall(lambda n, x, y: (Pos(n, x, y) in parent_positions) == "
            "(apex.n < n and n <= old(apex).n and x == old(apex).x // pow2(old(apex).n - n) and y == old(apex).y // pow2(old(apex).n - n)))"),
    ], decreases="apex.n", types={"apex": "Pos"}, havoc=["parent_positions"])
    c.post(_filter_spec_hook)


def _native_filter_check(ns, result):
    """native replay: the closure returned by the REAL _make_position_filter against the spec, on the apex's
    ancestors, their neighbours and the next two levels"""
    from toasty.pyramid import Pos
    apex = ns["apex"]
    if apex.n > 40:
        return None
    for n in range(0, apex.n + 3):
        if n <= apex.n:
            axn, ayn = apex.x >> (apex.n - n), apex.y >> (apex.n - n)
            cands = {(axn + dx, ayn + dy) for dx in (-1, 0, 1) for dy in (-1, 0, 1)}
        else:
            cands = {(0, 0), (apex.x * 2, apex.y * 2 + 1), (1, 2 ** n - 1)}
        for (x, y) in cands:
            if x < 0 or y < 0:
                continue
            want = n > apex.n or (x == apex.x >> (apex.n - n) and y == apex.y >> (apex.n - n))
            got = bool(result(Pos(n, x, y)))
            if got != want:
                return ("ensures/filter_accepts_exactly_ancestors_of_the_apex_and_deeper_levels",
                        "filter(%r) == %r for apex %r, expected %r" % (Pos(n, x, y), got, apex, want))
    return None


contract("toasty.pyramid._make_position_filter")(lambda c: c.native_checks.append(_native_filter_check))


# ---- call-site view of _make_position_filter: an opaque callable whose answer IS the postcondition proved above
def _posfilter_model(interp, env):
    f = Opaque("posfilter", fresh_name("posfilter"))
    f.attrs["_g_apex"] = env.lookup("apex")
    return f


contract("toasty.pyramid._make_position_filter")(lambda c: c.model(_posfilter_model))

UserFilter = z3.Function("UserFilter", z3.IntSort(), z3.IntSort(), z3.IntSort(), z3.BoolSort())


from pyvc.contracts_api import spec  # noqa: E402


@spec
def user_filter_accepts(interp, pos):
    from pyvc.core import z3num as _z
    return UserFilter(*[_z(v) for v in pos.vals])


def posfilter_spec(apex, pos):
    from pyvc.core import z3num
    an, ax, ay = [z3num(v) for v in apex.vals]
    qn, qx, qy = [z3num(v) for v in pos.vals]
    return z3.Or(qn > an, z3.And(qn <= an, qx == ax / pow2(an - qn), qy == ay / pow2(an - qn)))


def install_externals(X):
    @X.register_opaque("posfilter", "__call__")
    def _(interp, f, args, kwargs):
        interp.path.event("posfilter_call", f, args[0])
        return posfilter_spec(f.attrs["_g_apex"], args[0])

    @X.register_opaque("tile_filter", "__call__")
    def _(interp, f, args, kwargs):
        # a user tile filter is a (pure) function of the tile; a tile is determined by its position
        interp.note_assumption("a user tile filter is a deterministic function of the tile it is given and does not modify it")
        t = args[0]
        interp.path.event("user_filter_call", f, t)
        pos = t.get("pos")
        from pyvc.core import z3num
        return UserFilter(*[z3num(v) for v in pos.vals])


def _sub_setup(interp, path):
    case = interp._case
    me = Inst("Pyramid", module="toasty.pyramid", fields={
        "depth": z3.Int(fresh_name("depth")),
        "_apex": NTuple("Pos", ("n", "x", "y"), [z3.Int(fresh_name("apex0." + f)) for f in "nxy"]),
        "_tile_filter": Opaque("tile_filter", "tile_filter") if case["filtered"] else None,
        "_coordsys": Opaque("coordsys", "coordsys") if case["toast"] else None})
    apex = NTuple("Pos", ("n", "x", "y"), [z3.Int(fresh_name("apex." + f)) for f in "nxy"])
    return {"self": me, "apex": apex}


def _sub_hook(m, path, fr, env, outcome, value, exc):
    if outcome != "return":
        return
    from pyvc import ops
    from pyvc.core import z3num
    case = m._case
    me = env.lookup("self")
    apex = fr.entry_env.lookup("apex")
    same = z3.And(*[z3num(a) == z3num(b) for a, b in zip(me.fields["_apex"].vals, apex.vals)])
    path.oblige(m.oblname("ensures/apex_recorded"), same, kind="ensures", assume_after=False)
    path.oblige(m.oblname("ensures/returns_self"), z3.BoolVal(value is me), kind="ensures", assume_after=False)
    flt = me.fields["_tile_filter"]
    name = m.oblname("ensures/installed_filter_is_position_restriction_and_user_filter")
    if not case["toast"]:
        # generic pyramids restrict analytically (see _generator): the filter slot is left alone
        ok = (flt is None) if not case["filtered"] else (isinstance(flt, Opaque) and flt.kind == "tile_filter")
        path.oblige(name, z3.BoolVal(ok), kind="ensures", assume_after=False)
        return
    pos = NTuple("Pos", ("n", "x", "y"), [z3.Int(fresh_name("t.pos." + f)) for f in "nxy"])
    tile = NTuple("Tile", ("pos", "corners", "increasing"), [pos, Opaque("corners", fresh_name("corners")), z3.Bool(fresh_name("inc"))])
    saved = list(path.pc)
    path.assume(z3num(pos.get("n")) >= 0)
    n_user0 = len([e for e in path.events if e[0] == "user_filter_call"])
    res = ops.truth(m, m.call_value(flt, [tile], {}))
    want = posfilter_spec(apex, pos)
    if case["filtered"]:
        want = z3.And(want, UserFilter(*[z3num(v) for v in pos.vals]))
    path.oblige(name, res == want, kind="ensures", assume_after=False)
    path.pc[:] = saved


@contract("toasty.pyramid.Pyramid.subpyramid")
def _(c):
    c.cases({"toast": True, "filtered": False}, {"toast": True, "filtered": True},
            {"toast": False, "filtered": False}, {"toast": False, "filtered": True})
    c.setup(_sub_setup)
    c.requires("apex.n >= 0 and apex.x >= 0 and apex.y >= 0", name="apex_is_nonnegative")
    c.raises("ValueError", when="apex.n > self.depth")
    c.raises("Exception", when="apex.n <= self.depth and self._apex.n != 0")
    c.post(_sub_hook)
