"""Contracts for TOAST sampling (C06, with the C05 forwarding contract of toast_tile_get_coords)."""
import z3

from pyvc.contracts_api import contract
from pyvc.core import OutOfSubset, z3num, fresh_name
from pyvc import ops
from pyvc.ops import simp
from pyvc.values import Inst, Opaque, NTuple, EnumVal, BoundMethod
from pyvc.ndarray import NdArr, fresh_array, snapshot_fn
from . import image as im
from . import merge as _merge  # noqa: F401
from . import pyramidio as _pio  # noqa: F401
from . import multitan as _mt  # noqa: F401  (read_image model for updaters, update_image inline)
from .image import mk_image, _arr


def install_externals(X):
    @X.register("toasty._libtoasty.subsample")
    def _(interp, args, kwargs):
        interp.note_assumption("compiled _libtoasty.subsample(ul, ur, lr, ll, n, increasing): pixel-centre grid of that quad (C05: "
                               "the .so is assumed to correspond to the .pyx text; bounded differential check)")
        n = args[4]
        lon = fresh_array((n, n), "f64", "lon", interp)
        lat = fresh_array((n, n), "f64", "lat", interp)
        interp.path.event("subsample", tuple(args), lon, lat)
        return (lon, lat)

    @X.register_opaque("sampler", "__call__")
    def _(interp, f, args, kwargs):
        mode = interp._case.get("mode", "F32")
        arr = mk_image(interp, "sampled", mode, 256, 256).fields["_array"]
        interp.path.event("sampler_call", tuple(args), arr)
        return arr


# ---- C05: the coordinates of a tile's pixels are the compiled subdivision of exactly this tile ----

def coords_setup(interp, path):
    corners = tuple(Opaque("corner", "corner%d" % k) for k in range(4))
    pos = NTuple("Pos", ("n", "x", "y"), [z3.Int(fresh_name("pos." + f)) for f in "nxy"])
    tile = NTuple("Tile", ("pos", "corners", "increasing"), [pos, corners, z3.Bool(fresh_name("increasing"))])
    return {"tile": tile}


def coords_trace(m, path, fr, env, outcome, value, exc):
    tile = fr.entry_env.lookup("tile")
    subs = [e for e in path.events if e[0] == "subsample"]
    ok = outcome == "return" and len(subs) == 1
    if ok:
        a = subs[0][1]
        c = tile.get("corners")
        ok = (len(a) == 6 and all(a[k] is c[k] for k in range(4)) and a[4] == 256 and a[5] is tile.get("increasing")
              and isinstance(value, tuple) and value[0] is subs[0][2] and value[1] is subs[0][3])
    path.oblige(m.oblname("grid_is_the_subdivision_of_this_tiles_own_corners_and_orientation"), z3.BoolVal(bool(ok)), kind="trace", assume_after=False)


_tc = contract("toasty.toast.toast_tile_get_coords")


@_tc
def _(c):
    c.inline()
    c.setup(coords_setup)
    c.on_path(coords_trace)


# ---- C06: visit_callback ------------------------------------------------------------------------

for _qn in ("toasty.toast.ToastSampler.__init__", "toasty.pyramid.Pyramid.new_toast", "toasty.pyramid.Pyramid.new_toast_filtered"):
    contract(_qn)(lambda c: c.inline())

VC_CASES = [{"mode": m, "bottom_up": bu, "clobber": cl} for m in ("F32", "RGB", "I16") for bu in (False, True) for cl in (True, False)]


def vc_setup(interp, path):
    case = interp._case
    pio = Inst("PyramidIO", module="toasty.pyramid", fields={"_base_dir": "base", "_scheme": "{1}/{3}/{3}_{2}",
                                                             "_default_format": "fits" if case["bottom_up"] else "npy"})
    me = interp.construct(__import__("pyvc.values", fromlist=["Ext"]).Ext("class:toasty.toast.ToastSampler"),
                          [pio, Opaque("sampler", "sampler"), case["clobber"]], {"format": None})
    coords = tuple(Opaque("corner", "corner%d" % k) for k in range(4))
    pos = NTuple("Pos", ("n", "x", "y"), [z3.Int(fresh_name("pos." + f)) for f in "nxy"])
    tile = NTuple("Tile", ("pos", "corners", "increasing"), [pos, coords, z3.Bool(fresh_name("increasing"))])
    return {"self": me, "pos": pos, "tile": tile}


def vc_trace(m, path, fr, env, outcome, value, exc):
    if outcome != "return":
        return
    case = m._case
    ev = path.events
    subs = [e for e in ev if e[0] == "subsample"]
    calls = [e for e in ev if e[0] == "sampler_call"]
    ok = len(subs) == 1 and len(calls) == 1 and len(calls[0][1]) == 2 and calls[0][1][0] is subs[0][2] and calls[0][1][1] is subs[0][3]
    path.oblige(m.oblname("sampler_evaluated_once_at_this_tiles_pixel_centres"), z3.BoolVal(bool(ok)), kind="trace", assume_after=False)
    if not ok:
        return
    S = Inst("Image", module="toasty.image", fields={"_array": calls[0][2], "_mode": im.mode_val(case["mode"])})
    writes = [e for e in ev if e[0] == "call" and e[1].endswith("PyramidIO.write_image")]
    path.oblige(m.oblname("exactly_one_tile_written"), z3.BoolVal(len(writes) == 1), kind="trace", assume_after=False)
    if len(writes) != 1:
        return
    w = writes[0][2]
    pos = fr.entry_env.lookup("pos")
    g = ops.equals(m, w["pos"], pos)
    path.oblige(m.oblname("written_at_the_visited_position"), g if not isinstance(g, bool) else z3.BoolVal(g), kind="trace", assume_after=False)
    B = w["image"]
    R, C = z3.Int(fresh_name("R")), z3.Int(fresh_name("C"))
    saved = list(path.pc)
    path.assume(z3.And(R >= 0, R < 256, C >= 0, C < 256))
    br = simp(255 - R) if case["bottom_up"] else R
    if case["clobber"]:
        path.oblige(m.oblname("display_pixel_is_the_sampler_value_at_that_pixel"), im.pix_same(m, B, br, C, S, R, C), kind="trace", assume_after=False)
    else:
        B0 = path.read_results[-1]
        sundef = im.pix_undef(m, S, R, C)
        path.oblige(m.oblname("update/undefined_sample_keeps_the_old_pixel"), ops.implies(sundef, im.pix_same(m, B, br, C, B0, br, C)),
                    kind="trace", assume_after=False)
        cond = ops.negate(sundef) if case["mode"] != "I16" else ops.conj([ops.negate(sundef), im.pix_undef(m, B0, br, C)])
        path.oblige(m.oblname("update/defined_sample_lands_on_its_display_pixel"), ops.implies(cond, im.pix_takes_source(m, B, br, C, S, R, C)),
                    kind="trace", assume_after=False)
    path.pc[:] = saved


_vc = contract("toasty.toast.ToastSampler.visit_callback")


@_vc
def _(c):
    c.cases(*VC_CASES)
    c.setup(vc_setup)
    c.may_raise("IOError", "tile I/O errors propagate")
    c.may_raise("ValueError", "propagated from read_image")
    c.on_path(vc_trace)


# ---- sample_layer / sample_layer_filtered: the right pyramid, the right sampler object, leaf visit ----

from pyvc.values import Ext  # noqa: E402
from . import parallel as _par  # noqa: E402,F401

SL_CASES = [{"bottom_up": bu, "mode": "F32"} for bu in (False, True)]


def _sl_setup(filtered):
    def setup(interp, path):
        case = interp._case
        pio = Inst("PyramidIO", module="toasty.pyramid", fields={"_base_dir": "base", "_scheme": "{1}/{3}/{3}_{2}",
                                                                 "_default_format": "fits" if case["bottom_up"] else "npy"})
        d = {"pio": pio, "sampler": Opaque("sampler", "sampler"), "depth": z3.Int(fresh_name("depth")),
             "coordsys": EnumVal("ToastCoordinateSystem", interp._case.get("coordsys", "PLANETARY"), "planetary"),
             "parallel": z3.Int(fresh_name("parallel")), "cli_progress": False}
        if filtered:
            d["tile_filter"] = Opaque("tile_filter", "tile_filter")
        else:
            d["format"] = None
        return d
    return setup


def _sl_trace(filtered):
    def hook(m, path, fr, env, outcome, value, exc):
        if outcome != "return":
            return
        case = m._case
        calls = [e for e in path.events if e[0] == "call" and e[1].endswith("Pyramid.visit_leaves")]
        ok = len(calls) == 1
        path.oblige(m.oblname("visits_the_leaves_once"), z3.BoolVal(ok), kind="trace", assume_after=False)
        if not ok:
            return
        a = calls[0][2]
        cb, pyr = a.get("callback"), a.get("self")
        E = fr.entry_env
        okcb = isinstance(cb, BoundMethod) and cb.name == "visit_callback" and isinstance(cb.recv, Inst) and cb.recv.cls == "ToastSampler"
        path.oblige(m.oblname("callback_is_a_toast_sampler"), z3.BoolVal(bool(okcb)), kind="trace", assume_after=False)
        if okcb:
            f = cb.recv.fields
            same_pio = f.get("_pio") is not None and f["_pio"].fields == E.lookup("pio").fields
            path.oblige(m.oblname("sampler_object_uses_the_callers_pyramid_sampler_and_coordinate_system"),
                        z3.BoolVal(bool(same_pio and _par._same(f.get("_sampler"), E.lookup("sampler")) and f.get("_coordsys") == E.lookup("coordsys"))),
                        kind="trace", assume_after=False)
            path.oblige(m.oblname("clobbers_iff_unfiltered"), z3.BoolVal(f.get("_clobber") is (not filtered)), kind="trace", assume_after=False)
            inv = f.get("_invert_into_tiles")
            path.oblige(m.oblname("rows_reversed_iff_the_pyramid_is_bottom_up"), z3.BoolVal(inv is case["bottom_up"] or inv == case["bottom_up"]),
                        kind="trace", assume_after=False)
        okp = isinstance(pyr, Inst) and pyr.cls == "Pyramid"
        if okp:
            pf = pyr.fields
            okp = (ops.equals(m, pf.get("depth"), E.lookup("depth")) is True and pf.get("_coordsys") == E.lookup("coordsys")
                   and ((pf.get("_tile_filter") is None) if not filtered else _par._same(pf.get("_tile_filter"), E.lookup("tile_filter"))))
        path.oblige(m.oblname("pyramid_has_the_requested_depth_coordinate_system_and_filter"), z3.BoolVal(bool(okp)), kind="trace", assume_after=False)
        # (the number of workers is deliberately NOT demanded: the property says the result does not depend on it)
    return hook


contract("toasty.toast.sample_layer")(lambda c: (c.cases(*SL_CASES), c.setup(_sl_setup(False)), c.on_path(_sl_trace(False)),
                                                 c.requires("depth >= 0", name="depth_is_a_level"),
                                                 c.may_raise("CallbackError", ""), c.may_raise("WorkerFailedError", "")))
contract("toasty.toast.sample_layer_filtered")(lambda c: (c.cases(*SL_CASES), c.setup(_sl_setup(True)), c.on_path(_sl_trace(True)),
                                                          c.requires("depth >= 0", name="depth_is_a_level"),
                                                          c.may_raise("CallbackError", ""), c.may_raise("WorkerFailedError", "")))


# ---- C05, depth 0: the grid of the single level-0 tile is assembled from the four level-1 tiles ---------------------
# Pixel (row, col) of the level-0 grid must be the centre of tile (8, col, row).  The level-1 tile (1, tx, ty) covers
# rows 128*ty .. 128*ty+127 and columns 128*tx .. 128*tx+127 of it, and the centres of ITS descendants seven levels
# down (= level 8) are, by the contract of the compiled subdivision, subsample(corners, 128, increasing)[r, c].
from . import toastgeom as _tg  # noqa: E402


def level0_setup(interp, path):
    return {"coordsys": _tg._cs(interp._case)}


def level0_trace(m, path, fr, env, outcome, value, exc):
    name = m.oblname("level0_grid_is_the_four_level1_subdivisions_at_half_resolution_each_in_its_own_quadrant")
    if outcome != "return":
        return
    subs = [e for e in path.events if e[0] == "subsample"]
    ok = (isinstance(value, tuple) and len(value) == 2 and all(isinstance(v, NdArr) for v in value) and len(subs) == 4
          and all(len(e[1]) == 6 and e[1][4] == 128 for e in subs))
    if not ok:
        path.oblige(name, z3.BoolVal(False), kind="trace", assume_after=False)
        return
    lons, lats = value
    shape_ok = tuple(lons.shape) == (256, 256) and tuple(lats.shape) == (256, 256)
    path.oblige(m.oblname("level0_grid_is_256_by_256"), z3.BoolVal(bool(shape_ok)), kind="trace", assume_after=False)
    # the four level-1 tiles, as the real table gives them for this coordinate system
    tiles = m.spec_value("_create_level1_tiles(coordsys)", fr.entry_env)
    seen = set()
    goals = []
    for t in tiles.items:
        pos = t.get("pos")
        tx, ty = pos.get("x"), pos.get("y")
        if not (isinstance(tx, int) and isinstance(ty, int)):
            path.oblige(name, z3.BoolVal(False), kind="trace", assume_after=False)
            return
        mine = [e for e in subs if _tg_same_corners(m, e[1][:4], t.get("corners")) and _tg_same(e[1][5], t.get("increasing"))]
        if len(mine) != 1:
            path.oblige(name, z3.BoolVal(False), kind="trace", assume_after=False,
                        info={"why": "no subdivision of the level-1 tile (%s,%s) with its own corners and orientation" % (tx, ty)})
            return
        seen.add((tx, ty))
        qlon, qlat = mine[0][2], mine[0][3]
        r, c = z3.Int(fresh_name("r")), z3.Int(fresh_name("c"))
        rng = z3.And(0 <= r, r < 128, 0 <= c, c < 128)
        a, b = lons.at((128 * ty + r, 128 * tx + c)), qlon.at((r, c))
        a2, b2 = lats.at((128 * ty + r, 128 * tx + c)), qlat.at((r, c))
        goals.append(z3.Implies(rng, z3.And(a.nan == b.nan, a.val == b.val, a2.nan == b2.nan, a2.val == b2.val)))
    path.oblige(name, z3.And(z3.BoolVal(seen == {(0, 0), (1, 0), (0, 1), (1, 1)}), *goals), kind="trace", assume_after=False)


def _tg_same(a, b):
    if isinstance(a, bool) or isinstance(b, bool):
        return a is b or a == b
    return a is b or (hasattr(a, "eq") and hasattr(b, "eq") and a.eq(b))


def _tg_same_corners(m, got, want):
    """the four corner arguments are exactly the tile's own corners, in order"""
    try:
        for k in range(4):
            g, w = got[k], m.getitem(want, k)
            if g is w:
                continue
            if isinstance(g, NdArr) and isinstance(w, NdArr):
                # rows of the level-1 table: compare the two coordinates
                for j in range(2):
                    x, y = g.at((j,)), w.at((j,))
                    xv, yv = getattr(x, "val", x), getattr(y, "val", y)
                    if not z3.is_true(z3.simplify(z3num(xv) == z3num(yv))):
                        return False
                continue
            return False
        return True
    except Exception:
        return False


@contract("toasty.toast._level0_tile_get_coords")
def _(c):
    c.cases(*_tg.L1_CASES)
    c.setup(level0_setup)
    c.on_path(level0_trace)
