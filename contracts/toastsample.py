"""Contracts for TOAST sampling (C06, with the C05 forwarding contract of toast_tile_get_coords)."""
import z3

from pyvc.contracts_api import contract
from pyvc.core import OutOfSubset, z3num, fresh_name
from pyvc import ops
from pyvc.ops import simp
from pyvc.values import Inst, Opaque, NTuple, EnumVal, BoundMethod
from pyvc.ndarray import NdArr, fresh_array, snapshot_fn
from . import image as im
from . import merge as _merge  # noqa: F401
from . import pyramidio as _pio  # noqa: F401
from . import multitan as _mt  # noqa: F401  (read_image model for updaters, update_image inline)
from .image import mk_image, _arr


def install_externals(X):
    @X.register("toasty._libtoasty.subsample")
    def _(interp, args, kwargs):
        interp.note_assumption("compiled _libtoasty.subsample(ul, ur, lr, ll, n, increasing): pixel-centre grid of that quad (C05: "
                               "the .so is assumed to correspond to the .pyx text; bounded differential check)")
        n = args[4]
        lon = fresh_array((n, n), "f64", "lon", interp)
        lat = fresh_array((n, n), "f64", "lat", interp)
        interp.path.event("subsample", tuple(args), lon, lat)
        return (lon, lat)

    @X.register_opaque("sampler", "__call__")
    def _(interp, f, args, kwargs):
        mode = interp._case.get("mode", "F32")
        arr = mk_image(interp, "sampled", mode, 256, 256).fields["_array"]
        interp.path.event("sampler_call", tuple(args), arr)
        return arr


# ---- C05: the coordinates of a tile's pixels are the compiled subdivision of exactly this tile ----

def coords_setup(interp, path):
    corners = tuple(Opaque("corner", "corner%d" % k) for k in range(4))
    pos = NTuple("Pos", ("n", "x", "y"), [z3.Int(fresh_name("pos." + f)) for f in "nxy"])
    tile = NTuple("Tile", ("pos", "corners", "increasing"), [pos, corners, z3.Bool(fresh_name("increasing"))])
    return {"tile": tile}


def coords_trace(m, path, fr, env, outcome, value, exc):
    tile = fr.entry_env.lookup("tile")
    subs = [e for e in path.events if e[0] == "subsample"]
    ok = outcome == "return" and len(subs) == 1
    if ok:
        a = subs[0][1]
        c = tile.get("corners")
        ok = (len(a) == 6 and all(a[k] is c[k] for k in range(4)) and a[4] == 256 and a[5] is tile.get("increasing")
              and isinstance(value, tuple) and value[0] is subs[0][2] and value[1] is subs[0][3])
    path.oblige(m.oblname("grid_is_the_subdivision_of_this_tiles_own_corners_and_orientation"), z3.BoolVal(bool(ok)), kind="trace", assume_after=False)


_tc = contract("toasty.toast.toast_tile_get_coords")


@_tc
def _(c):
    c.inline()
    c.setup(coords_setup)
    c.on_path(coords_trace)


# ---- C06: visit_callback ------------------------------------------------------------------------

for _qn in ("toasty.toast.ToastSampler.__init__", "toasty.pyramid.Pyramid.new_toast", "toasty.pyramid.Pyramid.new_toast_filtered"):
    contract(_qn)(lambda c: c.inline())

VC_CASES = [{"mode": m, "bottom_up": bu, "clobber": cl} for m in ("F32", "RGB", "I16") for bu in (False, True) for cl in (True, False)]


def vc_setup(interp, path):
    case = interp._case
    pio = Inst("PyramidIO", module="toasty.pyramid", fields={"_base_dir": "base", "_scheme": "{1}/{3}/{3}_{2}",
                                                             "_default_format": "fits" if case["bottom_up"] else "npy"})
    me = interp.construct(__import__("pyvc.values", fromlist=["Ext"]).Ext("class:toasty.toast.ToastSampler"),
                          [pio, Opaque("sampler", "sampler"), case["clobber"]], {"format": None})
    coords = tuple(Opaque("corner", "corner%d" % k) for k in range(4))
    pos = NTuple("Pos", ("n", "x", "y"), [z3.Int(fresh_name("pos." + f)) for f in "nxy"])
    tile = NTuple("Tile", ("pos", "corners", "increasing"), [pos, coords, z3.Bool(fresh_name("increasing"))])
    return {"self": me, "pos": pos, "tile": tile}


def vc_trace(m, path, fr, env, outcome, value, exc):
    if outcome != "return":
        return
    case = m._case
    ev = path.events
    subs = [e for e in ev if e[0] == "subsample"]
    calls = [e for e in ev if e[0] == "sampler_call"]
    ok = len(subs) == 1 and len(calls) == 1 and len(calls[0][1]) == 2 and calls[0][1][0] is subs[0][2] and calls[0][1][1] is subs[0][3]
    path.oblige(m.oblname("sampler_evaluated_once_at_this_tiles_pixel_centres"), z3.BoolVal(bool(ok)), kind="trace", assume_after=False)
    if not ok:
        return
    S = Inst("Image", module="toasty.image", fields={"_array": calls[0][2], "_mode": im.mode_val(case["mode"])})
    writes = [e for e in ev if e[0] == "call" and e[1].endswith("PyramidIO.write_image")]
    path.oblige(m.oblname("exactly_one_tile_written"), z3.BoolVal(len(writes) == 1), kind="trace", assume_after=False)
    if len(writes) != 1:
        return
    w = writes[0][2]
    pos = fr.entry_env.lookup("pos")
    g = ops.equals(m, w["pos"], pos)
    path.oblige(m.oblname("written_at_the_visited_position"), g if not isinstance(g, bool) else z3.BoolVal(g), kind="trace", assume_after=False)
    B = w["image"]
    R, C = z3.Int(fresh_name("R")), z3.Int(fresh_name("C"))
    saved = list(path.pc)
    path.assume(z3.And(R >= 0, R < 256, C >= 0, C < 256))
    br = simp(255 - R) if case["bottom_up"] else R
    if case["clobber"]:
        path.oblige(m.oblname("display_pixel_is_the_sampler_value_at_that_pixel"), im.pix_same(m, B, br, C, S, R, C), kind="trace", assume_after=False)
    else:
        B0 = path.read_results[-1]
        sundef = im.pix_undef(m, S, R, C)
        path.oblige(m.oblname("update/undefined_sample_keeps_the_old_pixel"), ops.implies(sundef, im.pix_same(m, B, br, C, B0, br, C)),
                    kind="trace", assume_after=False)
        cond = ops.negate(sundef) if case["mode"] != "I16" else ops.conj([ops.negate(sundef), im.pix_undef(m, B0, br, C)])
        path.oblige(m.oblname("update/defined_sample_lands_on_its_display_pixel"), ops.implies(cond, im.pix_takes_source(m, B, br, C, S, R, C)),
                    kind="trace", assume_after=False)
    path.pc[:] = saved


_vc = contract("toasty.toast.ToastSampler.visit_callback")


@_vc
def _(c):
    c.cases(*VC_CASES)
    c.setup(vc_setup)
    c.may_raise("IOError", "tile I/O errors propagate")
    c.may_raise("ValueError", "propagated from read_image")
    c.on_path(vc_trace)


# ---- sample_layer / sample_layer_filtered: the right pyramid, the right sampler object, leaf visit ----

from pyvc.values import Ext  # noqa: E402
from . import parallel as _par  # noqa: E402,F401

SL_CASES = [{"bottom_up": bu, "mode": "F32"} for bu in (False, True)]


def _sl_setup(filtered):
    def setup(interp, path):
        case = interp._case
        pio = Inst("PyramidIO", module="toasty.pyramid", fields={"_base_dir": "base", "_scheme": "{1}/{3}/{3}_{2}",
                                                                 "_default_format": "fits" if case["bottom_up"] else "npy"})
        d = {"pio": pio, "sampler": Opaque("sampler", "sampler"), "depth": z3.Int(fresh_name("depth")),
             "coordsys": EnumVal("ToastCoordinateSystem", interp._case.get("coordsys", "PLANETARY"), "planetary"),
             "parallel": z3.Int(fresh_name("parallel")), "cli_progress": False}
        if filtered:
            d["tile_filter"] = Opaque("tile_filter", "tile_filter")
        else:
            d["format"] = None
        return d
    return setup


def _sl_trace(filtered):
    def hook(m, path, fr, env, outcome, value, exc):
        if outcome != "return":
            return
        case = m._case
        calls = [e for e in path.events if e[0] == "call" and e[1].endswith("Pyramid.visit_leaves")]
        ok = len(calls) == 1
        path.oblige(m.oblname("visits_the_leaves_once"), z3.BoolVal(ok), kind="trace", assume_after=False)
        if not ok:
            return
        a = calls[0][2]
        cb, pyr = a.get("callback"), a.get("self")
        E = fr.entry_env
        okcb = isinstance(cb, BoundMethod) and cb.name == "visit_callback" and isinstance(cb.recv, Inst) and cb.recv.cls == "ToastSampler"
        path.oblige(m.oblname("callback_is_a_toast_sampler"), z3.BoolVal(bool(okcb)), kind="trace", assume_after=False)
        if okcb:
            f = cb.recv.fields
            same_pio = f.get("_pio") is not None and f["_pio"].fields == E.lookup("pio").fields
            path.oblige(m.oblname("sampler_object_uses_the_callers_pyramid_sampler_and_coordinate_system"),
                        z3.BoolVal(bool(same_pio and _par._same(f.get("_sampler"), E.lookup("sampler")) and f.get("_coordsys") == E.lookup("coordsys"))),
                        kind="trace", assume_after=False)
            path.oblige(m.oblname("clobbers_iff_unfiltered"), z3.BoolVal(f.get("_clobber") is (not filtered)), kind="trace", assume_after=False)
            inv = f.get("_invert_into_tiles")
            path.oblige(m.oblname("rows_reversed_iff_the_pyramid_is_bottom_up"), z3.BoolVal(inv is case["bottom_up"] or inv == case["bottom_up"]),
                        kind="trace", assume_after=False)
        okp = isinstance(pyr, Inst) and pyr.cls == "Pyramid"
        if okp:
            pf = pyr.fields
            okp = (ops.equals(m, pf.get("depth"), E.lookup("depth")) is True and pf.get("_coordsys") == E.lookup("coordsys")
                   and ((pf.get("_tile_filter") is None) if not filtered else _par._same(pf.get("_tile_filter"), E.lookup("tile_filter"))))
        path.oblige(m.oblname("pyramid_has_the_requested_depth_coordinate_system_and_filter"), z3.BoolVal(bool(okp)), kind="trace", assume_after=False)
        g = ops.equals(m, a.get("parallel"), E.lookup("parallel"))
        path.oblige(m.oblname("worker_count_is_forwarded"), g if not isinstance(g, bool) else z3.BoolVal(g), kind="trace", assume_after=False)
    return hook


contract("toasty.toast.sample_layer")(lambda c: (c.cases(*SL_CASES), c.setup(_sl_setup(False)), c.on_path(_sl_trace(False)),
                                                 c.requires("depth >= 0", name="depth_is_a_level"),
                                                 c.may_raise("CallbackError", ""), c.may_raise("WorkerFailedError", "")))
contract("toasty.toast.sample_layer_filtered")(lambda c: (c.cases(*SL_CASES), c.setup(_sl_setup(True)), c.on_path(_sl_trace(True)),
                                                          c.requires("depth >= 0", name="depth_is_a_level"),
                                                          c.may_raise("CallbackError", ""), c.may_raise("WorkerFailedError", "")))
