"""C03: producer of the multi-WCS (reprojection) tiling stage — one put per (image, descriptor, combined WCS),
workers with the right target and arguments, shutdown order close / flush / flag / join.
The worker body (reprojection through an external function) is covered by the bounded tier only."""
import z3

from pyvc.contracts_api import contract
from pyvc.core import fresh_name
from pyvc.values import Inst, Opaque, PyDict
from pyvc.mpmodel import new_queue
from pyvc.types import register_type
from . import multitan as _mt
from . import parallel as _par

register_type("queue[wcs_item]", lambda interp, name: new_queue(name, item_type="tan_item"))


def producer_setup(interp, path):
    coll = Opaque("collection", "collection")
    me = Inst("MultiWcsProcessor", module="toasty.multi_wcs", fields={
        "_collection": coll, "_descs": Opaque("descs", "descs"), "_combined_wcs": Opaque("wcs", "combined_wcs"),
        "_n_todo": z3.Int(fresh_name("n_todo"))})
    par = z3.Int(fresh_name("parallel"))
    path.assume(par >= 1)
    return {"self": me, "pio": _mt._pio_inst(interp._case), "reproject_function": Opaque("callback", "reproject_function"),
            "cli_progress": False, "parallel": par, "kwargs": PyDict({})}


@contract("toasty.multi_wcs.MultiWcsProcessor._tile_parallel")
def _(c):
    c.cases(_mt.CASES[0])
    c.setup(producer_setup)
    c.local(workers="emptylist => proclist", queue="opaque:queue => queue[wcs_item]", done_event="opaque:event => event")
    c.loop(0, summarise="stateless")
    c.loop(1, summarise="stateless")
    c.may_raise("WorkerFailedError", "a failed worker makes the stage fail visibly")
    c.on_path(_par.producer_trace(
        "toasty.multi_wcs._mp_tile_worker",
        lambda env: (env.lookup("queue"), env.lookup("done_event"), env.lookup("pio"), env.lookup("reproject_function"), env.lookup("kwargs")),
        item_of=lambda it: (it[0], it[1], Opaque("wcs", "combined_wcs")), queue_name="queue"))


# ---- the worker: receive / flag protocol proved; the reprojection + placement body is an ASSUMED (abstracted) loop ----
def _wcs_item(interp, name):
    image, _desc = _mt.make_item(interp)
    desc = Inst("MultiWcsDescriptor", module="toasty.multi_wcs", fields={"chunks": Opaque("chunks", fresh_name("chunks"))})
    return (image, desc, Opaque("wcs", fresh_name("combined_wcs")))


register_type("wcs_item", _wcs_item)


def worker_setup(interp, path):
    return {"queue": new_queue("queue", item_type="wcs_item"), "done_event": Opaque("event", fresh_name("done_event")),
            "pio": _mt._pio_inst(interp._case), "reproject_function": Opaque("callback", "reproject_function"), "kwargs": PyDict({})}


@contract("toasty.multi_wcs._mp_tile_worker")
def _(c):
    c.cases(_mt.CASES[0])
    c.setup(worker_setup)
    c.loop(0, invariant=[("true", "True")])
    c.loop(1, abstract={"why": "reprojection through an external function and placement of the chunks: bounded tier only",
                        "assume": []})
    c.may_raise("IOError", "tile I/O errors terminate the worker (exit code != 0)")
    c.on_path(_par.worker_trace("queue", lambda seg, item: sum(1 for e in seg if e[0] == "loop_abstract" and e[1] == 1) == 1))
