"""Contracts for toasty/image.py: maskable-buffer semantics (C15), reused by C02/C08/C09/C06.

Pixel-level spec functions are written from the property statement: a pixel is *undefined*
when its alpha is 0 (RGBA), it is NaN (F32/F64), any channel is NaN (F16x3) or it is 0
(integer modes, where zero means undefined); RGB pixels are always defined."""
import z3

from pyvc.contracts_api import contract, spec
from pyvc.core import OutOfSubset, z3num, fresh_name, is_z3
from pyvc import ops
from pyvc.values import Inst, EnumVal, SliceVal, NTuple
from pyvc.ndarray import NdArr, FPix, fresh_array, norm_slice, same_elem, to_fpix, is_nan
from pyvc.ops import simp

MODES = {
    "RGB": ("RGB", "u8", 3), "RGBA": ("RGBA", "u8", 4), "F32": ("F", "f32", None), "F64": ("D", "f64", None),
    "F16x3": ("F16x3", "f16", 3), "U8": ("U8", "u8", None), "I16": ("I16", "i16", None), "I32": ("I32", "i32", None),
}
BUFFER_OF = {"RGB": ("u8", 4), "RGBA": ("u8", 4), "F32": ("f32", None), "F64": ("f64", None), "F16x3": ("f16", 3),
             "U8": ("u8", None), "I16": ("i16", None), "I32": ("i32", None)}
INT_MODES = ("U8", "I16", "I32")
FLOAT_MODES = ("F32", "F64")


def mode_val(name):
    return EnumVal("ImageMode", name, MODES[name][0])


def mk_image(interp, label, mode, H, W, buffer_for=None):
    """A symbolic Image of the given mode (or the maskable buffer for mode ``buffer_for``)."""
    if buffer_for is not None:
        dtype, planes = BUFFER_OF[buffer_for]
        mode = {"RGB": "RGBA"}.get(buffer_for, buffer_for)
    else:
        _, dtype, planes = MODES[mode]
    shape = (H, W) + ((planes,) if planes else ())
    arr = fresh_array(shape, dtype, label, interp)
    if dtype == "f16":
        # type invariant of F16x3 data handled by toasty: a pixel is NaN in all channels or in none
        nanf = z3.Function(fresh_name(label + ".pixnan"), z3.IntSort(), z3.IntSort(), z3.BoolSort())
        inner = arr.fn
        arr.fn = lambda idx, inner=inner, nanf=nanf: FPix(nanf(z3num(idx[0]), z3num(idx[1])), inner(idx).val,
                                                          ops.conj([inner(idx).inf, ops.negate(nanf(z3num(idx[0]), z3num(idx[1])))]))
    return Inst("Image", module="toasty.image", fields={
        "_array": arr, "_mode": mode_val(mode), "_pil": None, "_default_format": "png", "_wcs": None,
        "_data_min": None, "_data_max": None})


def _arr(x):
    return x.fields["_array"] if isinstance(x, Inst) else x


def _mode(x):
    return x.fields["_mode"].name


def chan(x, r, c, k=None):
    a = _arr(x)
    return a.at((r, c) if k is None else (r, c, k))


@spec
def pix_undef(interp, img, r, c):
    m = _mode(img)
    if m == "RGB":
        return False
    if m == "RGBA":
        return simp(z3num(chan(img, r, c, 3)) == 0)
    if m in FLOAT_MODES:
        return is_nan(chan(img, r, c))
    if m == "F16x3":
        return ops.disj([is_nan(chan(img, r, c, k)) for k in range(3)])
    return simp(z3num(chan(img, r, c)) == 0)


@spec
def pix_blank(interp, img, r, c):
    """Exactly the 'empty' value of the mode: what clear()/fill leave outside the rectangle."""
    m = _mode(img)
    if m in ("RGB", "RGBA"):
        a = _arr(img)
        return ops.conj([simp(z3num(chan(img, r, c, k)) == 0) for k in range(a.shape[2])])
    if m in FLOAT_MODES:
        return is_nan(chan(img, r, c))
    if m == "F16x3":
        return ops.conj([is_nan(chan(img, r, c, k)) for k in range(3)])
    return simp(z3num(chan(img, r, c)) == 0)


@spec
def pix_same(interp, a, ra, ca, b, rb, cb):
    """Same stored pixel (all channels) in two images of the same layout."""
    aa, ab = _arr(a), _arr(b)
    if aa.ndim == 2:
        return same_elem(chan(a, ra, ca), chan(b, rb, cb))
    n = min(aa.shape[2], ab.shape[2])
    if aa.shape[2] != ab.shape[2]:
        raise OutOfSubset("pix_same on different plane counts")
    return ops.conj([same_elem(chan(a, ra, ca, k), chan(b, rb, cb, k)) for k in range(n)])


@spec
def pix_takes_source(interp, buf, r, c, src, sr, sc):
    """The buffer pixel holds the source pixel's value (an RGB source becomes opaque RGBA)."""
    ms = _mode(src)
    if ms == "RGB":
        return ops.conj([same_elem(chan(buf, r, c, k), chan(src, sr, sc, k)) for k in range(3)] +
                        [simp(z3num(chan(buf, r, c, 3)) == 255)])
    return pix_same(interp, buf, r, c, src, sr, sc)


@spec
def pix_is_max(interp, buf, r, c, old, src, sr, sc):
    o, s, n = z3num(chan(old, r, c)), z3num(chan(src, sr, sc)), z3num(chan(buf, r, c))
    return simp(n == z3.If(s > o, s, o))


@spec
def pix_nonneg(interp, img, r, c):
    return simp(z3num(chan(img, r, c)) >= 0)


@spec
def is_int_mode(interp, img):
    return _mode(img) in INT_MODES


# ---- slices as spec-level rectangles ---------------------------------------

@spec
def sl_len(interp, sl, n):
    return norm_slice(sl, n)[2]


@spec
def sl_in(interp, sl, n, j):
    start, step, length = norm_slice(sl, n)
    t = (z3num(j) - start) if step == 1 else (start - z3num(j))
    if step not in (1, -1):
        raise OutOfSubset("slice step")
    return simp(z3.And(t >= 0, t < length))


@spec
def sl_pos(interp, sl, n, j):
    start, step, length = norm_slice(sl, n)
    return simp((z3num(j) - start) if step == 1 else (start - z3num(j)))


@spec
def sl_at(interp, sl, n, t):
    start, step, length = norm_slice(sl, n)
    return simp(start + step * z3num(t))


@spec
def height(interp, img):
    return _arr(img).shape[0]


@spec
def width(interp, img):
    return _arr(img).shape[1]


# ---- symbolic inputs --------------------------------------------------------

def _sym_slice(interp, name, form):
    if form == "F":
        return SliceVal(z3.Int(fresh_name(name + ".start")), z3.Int(fresh_name(name + ".stop")), None)
    if form == "FN":
        return SliceVal(None, None, None)
    if form == "R":
        return SliceVal(z3.Int(fresh_name(name + ".start")), z3.Int(fresh_name(name + ".stop")), -1)
    if form == "RN":
        return SliceVal(z3.Int(fresh_name(name + ".start")), None, -1)
    raise ValueError(form)


SLICE_FORMS = [("F", "F", "F", "F"), ("F", "F", "R", "F"), ("F", "F", "RN", "F"), ("FN", "FN", "F", "F"), ("FN", "FN", "FN", "FN")]
IMAGE_CASES = [{"mode": m, "forms": f} for m in MODES for f in SLICE_FORMS]


def buffer_setup(interp, path):
    """self: image of the case's mode (H x W); buffer: maskable buffer for that mode (BH x BW);
    four symbolic slice indexers of the case's forms."""
    case = interp._case
    H, W, BH, BW = [z3.Int(fresh_name(n)) for n in ("H", "W", "BH", "BW")]
    path.assume(z3.And(H >= 1, W >= 1, BH >= 1, BW >= 1))
    me = mk_image(interp, "image", case["mode"], H, W)
    buf = mk_image(interp, "buffer", None, BH, BW, buffer_for=case["mode"])
    fy, fx, gy, gx = case["forms"]
    return {"self": me, "buffer": buf, "iy_idx": _sym_slice(interp, "iy", fy), "ix_idx": _sym_slice(interp, "ix", fx),
            "by_idx": _sym_slice(interp, "by", gy), "bx_idx": _sym_slice(interp, "bx", gx)}


RECT_AGREE = ("sl_len(by_idx, height(buffer)) == sl_len(iy_idx, height(self)) "
              "and sl_len(bx_idx, width(buffer)) == sl_len(ix_idx, width(self))")

INSIDE = "sl_in(by_idx, height(buffer), r) and sl_in(bx_idx, width(buffer), c)"
SRC_R = "sl_at(iy_idx, height(self), sl_pos(by_idx, height(buffer), r))"
SRC_C = "sl_at(ix_idx, width(self), sl_pos(bx_idx, width(buffer), c))"


@contract("toasty.image.Image.asarray")
def _(c):
    c.inline()


@contract("toasty.image.Image._as_writeable_array")
def _(c):
    c.inline()


@contract("toasty.image.Image.mode")
def _(c):
    c.inline()


@contract("toasty.image.Image.fill_into_maskable_buffer")
def _(c):
    c.cases(*IMAGE_CASES)
    c.setup(buffer_setup)
    c.raises("ValueError", when="not (%s)" % RECT_AGREE)
    c.ensures("forall_pix(buffer, lambda r, c: implies(%s, pix_takes_source(buffer, r, c, self, %s, %s)))" % (INSIDE, SRC_R, SRC_C),
              name="addressed_rectangle_gets_the_source_pixels")
    c.ensures("forall_pix(buffer, lambda r, c: implies(not (%s), pix_blank(buffer, r, c)))" % INSIDE,
              name="everything_else_is_undefined")
    c.inline()


SRC_UNDEF = "pix_undef(self, %s, %s)" % (SRC_R, SRC_C)


@contract("toasty.image.Image.update_into_maskable_buffer")
def _(c):
    c.cases(*IMAGE_CASES)
    c.setup(buffer_setup)
    c.raises("ValueError", when="not (%s)" % RECT_AGREE)
    c.ensures("forall_pix(buffer, lambda r, c: implies(not (%s), pix_same(buffer, r, c, old(buffer), r, c)))" % INSIDE,
              name="outside_the_rectangle_unchanged")
    c.ensures("forall_pix(buffer, lambda r, c: implies((%s) and %s, pix_same(buffer, r, c, old(buffer), r, c)))" % (INSIDE, SRC_UNDEF),
              name="undefined_source_changes_nothing")
    c.ensures("forall_pix(buffer, lambda r, c: implies((%s) and not %s and pix_undef(old(buffer), r, c), "
              "pix_takes_source(buffer, r, c, self, %s, %s)))" % (INSIDE, SRC_UNDEF, SRC_R, SRC_C),
              name="undefined_pixel_takes_defined_source")
    c.ensures("forall_pix(buffer, lambda r, c: implies((%s) and not %s and not is_int_mode(self), "
              "pix_takes_source(buffer, r, c, self, %s, %s)))" % (INSIDE, SRC_UNDEF, SRC_R, SRC_C),
              name="colour_and_float_defined_source_wins")
    c.ensures("forall_pix(buffer, lambda r, c: implies((%s) and is_int_mode(self) and not %s and not pix_undef(old(buffer), r, c), "
              "pix_is_max(buffer, r, c, old(buffer), self, %s, %s)))" % (INSIDE, SRC_UNDEF, SRC_R, SRC_C),
              name="integer_both_defined_keeps_the_larger")
    c.inline()


def one_image_setup(interp, path):
    case = interp._case
    H, W = z3.Int(fresh_name("H")), z3.Int(fresh_name("W"))
    path.assume(z3.And(H >= 1, W >= 1))
    return {"self": mk_image(interp, "image", case["mode"], H, W)}


MODE_CASES = [{"mode": m} for m in MODES]


@contract("toasty.image.Image.clear")
def _(c):
    c.cases(*MODE_CASES)
    c.setup(one_image_setup)
    c.ensures("forall_pix(self, lambda r, c: pix_blank(self, r, c))", name="every_pixel_is_the_empty_value")
    c.inline()


@spec
def all_undefined(interp, img):
    a = _arr(img)
    r, c_ = z3.Int(fresh_name("r")), z3.Int(fresh_name("c"))
    body = pix_undef(interp, img, r, c_)
    if isinstance(body, bool):
        return body
    return z3.ForAll([r, c_], z3.Implies(z3.And(r >= 0, r < z3num(a.shape[0]), c_ >= 0, c_ < z3num(a.shape[1])), body))


@contract("toasty.image.Image.is_completely_masked")
def _(c):
    c.cases(*MODE_CASES)
    c.setup(one_image_setup)
    c.returns("bool")
    c.ensures("result == all_undefined(self)", name="true_iff_every_pixel_is_undefined")
    c.inline()
