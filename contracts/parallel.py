"""Contracts for the multi-process stages (C01, C03, C19): worker guarantees, producer traces,
the walk dispatcher's rely/guarantee invariant."""
import z3

from pyvc.contracts_api import contract, spec
from pyvc.core import OutOfSubset, z3num, fresh_name, is_z3
from pyvc.ops import simp
from pyvc import ops
from pyvc.values import Opaque, NTuple, PyList
from pyvc.types import register_type
from pyvc.mpmodel import new_queue
from . import specfuns  # noqa: F401


# ---------------------------------------------------------------------------
# typed opaque arguments

def _queue_of(item_type):
    def mk(interp, name):
        return new_queue(name, item_type=item_type)
    return mk


register_type("queue[Pos]", _queue_of("Pos"))
register_type("queue[args2]", _queue_of("tuple[Pos,opaque:tile]"))
register_type("queue[image_desc]", _queue_of("tuple[opaque:image,opaque:desc]"))
register_type("queue[image_desc_wcs]", _queue_of("tuple[opaque:image,opaque:desc,opaque:wcs]"))
register_type("event", lambda interp, name: Opaque("event", fresh_name(name)))
register_type("callback", lambda interp, name: Opaque("callback", fresh_name(name)))


# ---------------------------------------------------------------------------
# worker loops: guarantee = for each item got, exactly one callback then (walk only) one report;
# the loop is left only after a timed-out get with the flag observed set.

def _is(a, b):
    return a is b or (isinstance(a, Opaque) and isinstance(b, Opaque) and a.kind == b.kind and a.name == b.name)


def worker_trace(queue_arg, callback_events, report_queue_arg=None, flag_before_receive=True):
    """on_path hook factory.  ``callback_events``: function(events of one iteration, item) -> bool
    saying the iteration processed ``item`` exactly once."""

    def hook(m, path, fr, env, outcome, value, exc):
        ev = path.events
        q = fr.entry_env.lookup(queue_arg)
        rq = fr.entry_env.lookup(report_queue_arg) if report_queue_arg else None
        starts = [i for i, e in enumerate(ev) if e[0] == "loop_iter" and e[1] == 0]
        for si in starts:
            seg = ev[si + 1:]
            gets = [e for e in seg if e[0] == "q_get" and _is(e[1], q)]
            empties = [e for e in seg if e[0] == "q_get_empty" and _is(e[1], q)]
            ended = any(e[0] in ("loop_iter_end", "loop_break") and e[1] == 0 for e in seg)
            # leaving the loop by ``break`` or by ``return`` from inside the iteration is the same thing
            returned_inside = (outcome == "return" and not ended)
            broke = any(e[0] == "loop_break" and e[1] == 0 for e in seg) or returned_inside
            ended = ended or returned_inside
            path.oblige(m.oblname("worker/one_receive_attempt_per_iteration"),
                        z3.BoolVal(len(gets) + len(empties) == 1), kind="trace", assume_after=False)
            if gets and ended and outcome != "raise":
                item = gets[0][2]
                path.oblige(m.oblname("worker/each_item_processed_exactly_once"),
                            z3.BoolVal(bool(callback_events(seg, item))), kind="trace", assume_after=False)
                if rq is not None:
                    puts = [e for e in seg if e[0] == "q_put" and _is(e[1], rq)]
                    cbd = [i for i, e in enumerate(seg) if e[0] == "cb_done"]
                    pidx = [i for i, e in enumerate(seg) if e[0] == "q_put" and _is(e[1], rq)]
                    good = len(puts) == 1 and len(cbd) == 1 and cbd[0] < pidx[0]
                    goal = z3.BoolVal(False)
                    if good:
                        goal = ops.equals(m, puts[0][2], item)
                        goal = goal if not isinstance(goal, bool) else z3.BoolVal(goal)
                    path.oblige(m.oblname("worker/reports_the_item_once_after_its_callback_completed"), goal,
                                kind="trace", assume_after=False)
                path.oblige(m.oblname("worker/does_not_exit_while_holding_an_item"), z3.BoolVal(not broke),
                            kind="trace", assume_after=False)
            if empties:
                cbs = [e for e in seg if e[0] in ("cb_start", "q_put")]
                path.oblige(m.oblname("worker/nothing_processed_without_an_item"), z3.BoolVal(not cbs),
                            kind="trace", assume_after=False)
            if broke:
                iss = [e for e in seg if e[0] == "ev_is_set"]
                goal = z3.BoolVal(False)
                if empties and len(iss) == 1:
                    goal = iss[0][2]
                path.oblige(m.oblname("worker/exits_only_after_timeout_with_flag_set"), goal, kind="trace", assume_after=False)
                if flag_before_receive:
                    # the flag value that justifies the exit must have been read BEFORE the receive that
                    # timed out: only then does "flag set" (= producer flushed everything) together with
                    # "nothing received" mean that nothing is left for this worker
                    names = [e[0] for e in seg]
                    ok = ("ev_is_set" in names and "q_get_empty" in names
                          and names.index("ev_is_set") < names.index("q_get_empty"))
                    path.oblige(m.oblname("worker/shutdown_flag_read_before_the_timed_out_receive"), z3.BoolVal(ok),
                                kind="trace", assume_after=False)
        if outcome == "return":
            # normal return only through the break above
            in_iter = any(e[0] == "loop_iter" and e[1] == 0 for e in ev) and not any(
                e[0] in ("loop_iter_end", "loop_exit") and e[1] == 0 for e in ev)
            path.oblige(m.oblname("worker/returns_only_via_shutdown"),
                        z3.BoolVal(any(e[0] == "loop_break" and e[1] == 0 for e in ev) or in_iter), kind="trace", assume_after=False)

    return hook


def _cb_once_with(args_of):
    def chk(seg, item):
        st = [e for e in seg if e[0] == "cb_start"]
        dn = [e for e in seg if e[0] == "cb_done"]
        if len(st) != 1 or len(dn) != 1:
            return False
        want = args_of(item)
        got = st[0][2]
        if len(got) != len(want):
            return False
        return all(_is(g, w) or (isinstance(g, NTuple) and isinstance(w, NTuple) and g.vals == w.vals) or g == w
                   for g, w in zip(got, want))
    return chk


@contract("toasty.pyramid._mp_walk_worker")
def _(c):
    c.args(done_queue="queue[Pos]", ready_queue="queue[Pos]", done_event="event", callback="callback")
    c.loop(0, invariant=[("true", "True")])
    c.may_raise("CallbackError", "an exception of the user callback terminates the worker (exit code != 0)")
    # the walk dispatcher raises the flag only after the apex was reported, i.e. when no tile is outstanding
    c.on_path(worker_trace("ready_queue", _cb_once_with(lambda item: (item,)), report_queue_arg="done_queue",
                           flag_before_receive=False))


@contract("toasty.pyramid._mp_visit_worker")
def _(c):
    c.args(ready_queue="queue[args2]", done_event="event", callback="callback")
    c.loop(0, invariant=[("true", "True")])
    c.may_raise("CallbackError", "an exception of the user callback terminates the worker (exit code != 0)")
    c.on_path(worker_trace("ready_queue", _cb_once_with(lambda item: tuple(item))))


# ---------------------------------------------------------------------------
# the reduction iterator as seen by its consumers (its own contract is in contracts/reducer.py):
# iteration delivers tuples (pos, tile, is_leaf, child_data); set_data is an event.

class IterPlugin(object):
    def getitem(self, interp, base, idx):
        if isinstance(base, Opaque) and base.kind == "result" and isinstance(idx, int):
            # result of a reduction with default (False, 0): (is_live, operations)
            key = "_g_item%d" % idx
            if key not in base.attrs:
                base.attrs[key] = z3.Bool(fresh_name("result0")) if idx == 0 else z3.Int(fresh_name("result%d" % idx))
            return base.attrs[key]
        if isinstance(base, Opaque) and base.kind == "child_data" and isinstance(idx, int) and 0 <= idx < 4:
            return self.getitem_child_data(interp, base, idx)
        return NotImplemented

    def getitem_child_data(self, interp, base, idx):
        key = "_g_d%d" % idx
        if key not in base.attrs:
            base.attrs[key] = z3.Bool(fresh_name("child_live%d" % idx))
        return base.attrs[key]

    def arbitrary_item(self, interp, it, label):
        if isinstance(it, Opaque) and it.kind == "riter":
            pos = NTuple("Pos", ("n", "x", "y"), [z3.Int(fresh_name("%s.pos.%s" % (label, f))) for f in "nxy"])
            tile = Opaque("tile", fresh_name("tile"))
            is_leaf = z3.Bool(fresh_name("is_leaf"))
            data = Opaque("child_data", fresh_name("data"))
            k = z3.Int(fresh_name(label + "_k"))
            return (pos, tile, is_leaf, data), True, k
        if isinstance(it, Opaque) and it.kind == "proclist":
            w = Opaque("process", fresh_name("w"))
            w.attrs["_g_from_list"] = it
            k = z3.Int(fresh_name(label + "_k"))
            return w, True, k
        if isinstance(it, Opaque) and it.kind == "zip_images_descs":
            k = z3.Int(fresh_name(label + "_k"))
            return (Opaque("image", fresh_name("image")), Opaque("desc", fresh_name("desc"))), True, k
        return None


def install_externals(X):
    X.plugins.append(IterPlugin())

    @X.register_opaque("riter", "set_data")
    def _(interp, obj, args, kwargs):
        interp.path.event("set_data", obj, args[0])
        return None

    @X.register_opaque("riter", "result")
    def _(interp, obj, args, kwargs):
        return Opaque("result")

    @X.register_opaque("proclist", "append")
    def _(interp, obj, args, kwargs):
        interp.path.event("workers_append", obj, args[0])
        return None


register_type("riter", lambda interp, name: Opaque("riter", fresh_name(name)))
register_type("proclist", lambda interp, name: Opaque("proclist", fresh_name(name)))


@contract("toasty.pyramid.Pyramid._make_iter_reducer")
def _(c):
    c.trusted("the reduction iterator is under contract separately (contracts/reducer.py); consumers see an opaque iterator")
    c.self_type("Pyramid")
    c.returns("riter")


@contract("toasty.par_util.resolve_parallelism")
def _(c):
    c.trusted("environment dependent (CPU count, start method); only the range of the result is used")
    c.args(parallel="int")
    c.returns("int")
    c.ensures("result >= 1", name="at_least_one")


PYRAMID_FIELDS = dict(depth="int", _apex="Pos", _tile_filter="opaque:tile_filter", _coordsys="opaque:coordsys")


def _same(a, b):
    if a is b:
        return True
    if isinstance(a, Opaque) and isinstance(b, Opaque):
        return a.kind == b.kind and a.name == b.name
    if isinstance(a, NTuple) and isinstance(b, NTuple):
        return a.tname == b.tname and all(_same(x, y) for x, y in zip(a.vals, b.vals))
    if isinstance(a, tuple) and isinstance(b, tuple):
        return len(a) == len(b) and all(_same(x, y) for x, y in zip(a, b))
    try:
        return a.eq(b)
    except AttributeError:
        return a == b


PUT_HELPER = "toasty.par_util.put_checking_workers"
JOIN_HELPER = "toasty.par_util.join_workers"
CHECK_HELPER = "toasty.par_util.ensure_workers_ok"


def _tag(e):
    if e[0] == "call" and e[1] == JOIN_HELPER:
        return "join_workers"
    if e[0] == "call" and e[1] == PUT_HELPER:
        return "q_put"
    return e[0]


def _puts_of(seg):
    """Completed puts of a trace segment as ('q_put', queue, item): direct queue.put calls and
    calls of par_util.put_checking_workers (whose contract guarantees exactly one completed put)."""
    out = []
    for e in seg:
        if e[0] == "q_put":
            out.append(e)
        elif e[0] == "call" and e[1] == PUT_HELPER:
            out.append(("q_put", e[2]["queue"], e[2]["item"], e[2]))
    return out


def producer_trace(worker_qualname, worker_args, item_of, item_guard=None, loop_workers=0, loop_items=1, loop_join=2,
                   queue_name="ready_queue", event_name="done_event"):
    """on_path hook factory for the four producers.
    worker_args(env) -> tuple of expected args of every worker process;
    item_of(loop item) -> the object that must be put; item_guard(loop item) -> z3 Bool/bool: put iff guard."""

    def hook(m, path, fr, env, outcome, value, exc):
        ev = path.events
        q = env.lookup(queue_name) if env.has(queue_name) else None
        # (P1) processes: right target, right arguments, started once, before being recorded
        for i, e in enumerate(ev):
            if e[0] == "proc_new":
                tgt, args = e[2], e[3]
                ok_t = getattr(tgt, "qualname", None) == worker_qualname
                want = worker_args(env)
                ok_a = isinstance(args, tuple) and len(args) == len(want) and all(_same(a, b) for a, b in zip(args, want))
                path.oblige(m.oblname("producer/worker_target_and_arguments"), z3.BoolVal(bool(ok_t and ok_a)),
                            kind="trace", assume_after=False)
        for si in [i for i, e in enumerate(ev) if e[0] == "loop_iter" and e[1] == loop_workers]:
            seg = ev[si + 1:]
            if not any(e[0] == "loop_iter_end" and e[1] == loop_workers for e in seg):
                continue
            news = [e for e in seg if e[0] == "proc_new"]
            starts = [e for e in seg if e[0] == "proc_start"]
            apps = [e for e in seg if e[0] == "workers_append"]
            good = (len(news) == 1 and len(starts) == 1 and len(apps) == 1 and _is(starts[0][1], news[0][1])
                    and _is(apps[0][2], news[0][1]))
            path.oblige(m.oblname("producer/each_worker_started_once_and_recorded"), z3.BoolVal(bool(good)),
                        kind="trace", assume_after=False)
        # (P1b) some worker exists to take the items: with none, every put is never processed
        from pyvc.interp import RangeVal
        for e in ev:
            if e[0] == "loop_summary" and e[1] == loop_workers and isinstance(e[2], RangeVal) and e[2].step == 1:
                some = z3num(e[2].stop) - z3num(e[2].start) >= 1
                tot = fr.entry_env.lookup("total") if fr.entry_env.has("total") else None
                if tot is not None and (is_z3(tot) or isinstance(tot, int)):
                    some = z3.Implies(z3num(tot) >= 1, some)
                path.oblige(m.oblname("producer/at_least_one_worker_is_started"), simp(some), kind="trace", assume_after=False)
        # (P2) one put per item that the serial stage would process, of that very item
        for si in [i for i, e in enumerate(ev) if e[0] == "loop_iter" and e[1] == loop_items]:
            seg = ev[si + 1:]
            if not any(e[0] == "loop_iter_end" and e[1] == loop_items for e in seg):
                continue
            it = ev[si][3]
            loop_item = path.loop_items.get((loop_items, si)) if hasattr(path, "loop_items") else None
            puts = _puts_of(seg)
            item = fr.last_loop_item.get(loop_items)
            guard = item_guard(item) if item_guard else True
            want = item_of(item)
            if len(puts) == 0:
                path.oblige(m.oblname("producer/every_item_is_enqueued"), ops.negate(guard), kind="trace", assume_after=False)
            else:
                ok = len(puts) == 1 and _same(puts[0][2], want) and (q is None or _is(puts[0][1], q))
                path.oblige(m.oblname("producer/enqueues_exactly_the_serial_item_once"), z3.BoolVal(bool(ok)), kind="trace", assume_after=False)
                path.oblige(m.oblname("producer/only_serial_items_are_enqueued"), guard, kind="trace", assume_after=False)
        # (P3) shutdown order on the normal path: close, join_thread, set, then join every worker
        if outcome == "return" and any(e[0] == "loop_summary" and e[1] == loop_items for e in ev):
            after = ev[max(i for i, e in enumerate(ev) if e[0] == "loop_summary" and e[1] == loop_items):]
            seq = [_tag(e) for e in after]
            seq = [n for n in seq if n in ("q_close", "q_join_thread", "ev_set", "loop_summary", "q_put", "proc_join", "join_workers")]
            want_seq = ["loop_summary", "q_close", "q_join_thread", "ev_set", "join_workers"]
            path.oblige(m.oblname("producer/shutdown_order_close_flush_flag_join"), z3.BoolVal(seq == want_seq),
                        kind="trace", assume_after=False)
            joins = [e for e in after if _tag(e) == "join_workers"]
            wl = env.lookup("workers") if env.has("workers") else None
            path.oblige(m.oblname("producer/joins_the_recorded_workers_and_checks_their_exit_codes"),
                        z3.BoolVal(len(joins) == 1 and _same(joins[0][2].get("workers"), wl)),
                        kind="trace", assume_after=False)
        for si in [i for i, e in enumerate(ev) if e[0] == "loop_iter" and e[1] == loop_join]:
            seg = ev[si + 1:]
            if any(e[0] == "loop_iter_end" and e[1] == loop_join for e in seg):
                js = [e for e in seg if e[0] == "proc_join"]
                path.oblige(m.oblname("producer/each_recorded_worker_is_joined"), z3.BoolVal(len(js) == 1), kind="trace", assume_after=False)
                path.oblige(m.oblname("producer/each_join_waits_until_the_worker_has_ended"), z3.BoolVal(all(len(e) < 3 or e[2] is None for e in js)),
                            kind="trace", assume_after=False)

    return hook


def serial_trace(loop_items, args_of, item_guard=None):
    """Serial stage: the callback runs exactly once, synchronously, for each item the guard admits."""

    def hook(m, path, fr, env, outcome, value, exc):
        ev = path.events
        for si in [i for i, e in enumerate(ev) if e[0] == "loop_iter" and e[1] == loop_items]:
            seg = ev[si + 1:]
            if not any(e[0] == "loop_iter_end" and e[1] == loop_items for e in seg):
                continue
            item = fr.last_loop_item.get(loop_items)
            guard = item_guard(item) if item_guard else True
            st = [e for e in seg if e[0] == "cb_start"]
            dn = [e for e in seg if e[0] == "cb_done"]
            if not st:
                path.oblige(m.oblname("serial/every_item_is_processed"), ops.negate(guard), kind="trace", assume_after=False)
            else:
                want = tuple(args_of(item))
                got = tuple(st[0][2])
                ok = len(st) == 1 and len(dn) == 1 and len(got) == len(want) and all(
                    (w == "*") if isinstance(w, str) and w == "*" else _same(g, w) for g, w in zip(got, want))
                path.oblige(m.oblname("serial/callback_once_with_the_item"), z3.BoolVal(bool(ok)), kind="trace", assume_after=False)
                path.oblige(m.oblname("serial/only_admitted_items_are_processed"), guard, kind="trace", assume_after=False)

    return hook


@contract("toasty.pyramid.Pyramid._visit_leaves_serial")
def _(c):
    c.self_type("Pyramid", **PYRAMID_FIELDS)
    c.args(callback="callback", total="int", cli_progress="bool")
    c.loop(0, summarise="stateless")
    c.may_raise("CallbackError", "serial mode: an exception of the callback propagates to the caller")
    c.on_path(serial_trace(0, lambda it: (it[0], it[1]), item_guard=lambda it: it[2]))


@contract("toasty.pyramid.Pyramid._visit_leaves_parallel")
def _(c):
    c.self_type("Pyramid", **PYRAMID_FIELDS)
    c.args(callback="callback", total="int", cli_progress="bool", parallel="int")
    c.requires("parallel >= 1")
    c.local(workers="emptylist => proclist", ready_queue="opaque:queue => queue[args2]", done_event="opaque:event => event")
    c.loop(0, summarise="stateless")
    c.loop(1, summarise="stateless")
    c.may_raise("WorkerFailedError", "a failed worker makes the stage fail visibly")
    c.on_path(producer_trace("toasty.pyramid._mp_visit_worker",
                             lambda env: (env.lookup("ready_queue"), env.lookup("done_event"), env.lookup("callback")),
                             item_of=lambda it: (it[0], it[1]), item_guard=lambda it: it[2]))


@contract("toasty.pyramid.Pyramid.count_leaf_tiles")
def _(c):
    c.trusted("the counters are verified against the reduction-iterator contract separately / bounded (C13)")
    c.self_type("Pyramid", **PYRAMID_FIELDS)
    c.returns("int")
    c.ensures("result >= 0", name="nonnegative")


@contract("toasty.pyramid.Pyramid.count_operations")
def _(c):
    c.trusted("the counters are verified against the reduction-iterator contract separately / bounded (C13)")
    c.self_type("Pyramid", **PYRAMID_FIELDS)
    c.returns("int")
    c.ensures("result >= 0", name="nonnegative")


def dispatch_trace(serial_qn, parallel_qn, forwarded):
    """The public stage calls exactly one implementation, forwarding the user's callback (and
    the other listed arguments) unchanged; parallel only when the resolved level is >= 2."""

    def hook(m, path, fr, env, outcome, value, exc):
        if outcome != "return":
            return
        calls = [e for e in path.events if e[0] == "call" and e[1] in (serial_qn, parallel_qn)]
        nothing = any(e[0] == "call" and e[1].endswith(("count_leaf_tiles", "count_operations")) for e in path.events) and not calls
        if nothing:
            return   # the 'nothing to do' early return; characterised by the counter contracts
        ok = len(calls) == 1
        if ok:
            args = calls[0][2]
            for name in forwarded:
                ok = ok and name in args and _same(args[name], fr.entry_env.lookup(name))
        path.oblige(m.oblname("stage/one_implementation_called_with_the_users_arguments"), z3.BoolVal(bool(ok)),
                    kind="trace", assume_after=False)

    return hook


@contract("toasty.pyramid.Pyramid.visit_leaves")
def _(c):
    c.self_type("Pyramid", **PYRAMID_FIELDS)
    c.requires("self.depth >= 0 and self._apex.n >= 0 and self._apex.x >= 0 and self._apex.y >= 0 and self._apex.n <= self.depth", name="valid_pyramid")
    c.args(callback="callback", parallel="int", cli_progress="bool")
    c.may_raise("CallbackError", "serial mode propagates callback errors")
    c.may_raise("WorkerFailedError", "parallel mode reports failed workers")
    c.on_path(dispatch_trace("toasty.pyramid.Pyramid._visit_leaves_serial", "toasty.pyramid.Pyramid._visit_leaves_parallel",
                             ["callback"]))


# ---- transforms -------------------------------------------------------------------------

register_type("factory", lambda interp, name: Opaque("factory", fresh_name(name)))
register_type("pio", lambda interp, name: Opaque("pio", fresh_name(name)))


def _gen_pos_of_depth(it, env):
    from pyvc.interp import GenVal
    return (isinstance(it, GenVal) and it.contract is not None and it.contract.qualname == "toasty.pyramid.generate_pos"
            and _same(it.call_env.lookup("depth"), env.lookup("depth")))


def same_source(loop_items, check):
    def hook(m, path, fr, env, outcome, value, exc):
        for e in path.events:
            if e[0] in ("loop_iter", "loop_summary") and e[1] == loop_items:
                it = e[3] if e[0] == "loop_iter" else e[2]
                path.oblige(m.oblname("items_come_from_the_same_enumeration_as_serial"), z3.BoolVal(bool(check(it, fr.entry_env))),
                            kind="trace", assume_after=False)
    return hook


@contract("toasty.transform._transform_mp_worker")
def _(c):
    c.args(queue="queue[Pos]", done_event="event", pio_in="pio", pio_out="pio", make_buf="factory", do_one="callback")
    c.loop(0, invariant=[("true", "True")])
    c.may_raise("CallbackError", "an exception of the per-tile function terminates the worker (exit code != 0)")
    c.on_path(worker_trace("queue", lambda seg, item: (
        len([e for e in seg if e[0] == "cb_start"]) == 1 and len([e for e in seg if e[0] == "cb_done"]) == 1
        and len([e for e in seg if e[0] == "cb_start"][0][2]) == 4
        and _same([e for e in seg if e[0] == "cb_start"][0][2][1], item))))


@contract("toasty.transform._transform_parallel")
def _(c):
    c.args(pio_in="pio", pio_out="pio", depth="int", make_buf="factory", do_one="callback", cli_progress="bool", parallel="int")
    c.requires("parallel >= 1 and depth >= 0")
    c.local(workers="emptylist => proclist", queue="opaque:queue => queue[Pos]", done_event="opaque:event => event")
    c.loop(0, summarise="stateless")
    c.loop(1, summarise="stateless")
    c.may_raise("WorkerFailedError", "a failed worker makes the stage fail visibly")
    c.on_path(producer_trace("toasty.transform._transform_mp_worker",
                             lambda env: (env.lookup("queue"), env.lookup("done_event"), env.lookup("pio_in"),
                                          env.lookup("pio_out"), env.lookup("make_buf"), env.lookup("do_one")),
                             item_of=lambda it: it, queue_name="queue"))
    c.on_path(same_source(1, _gen_pos_of_depth))


@contract("toasty.transform._do_a_transform")
def _(c):
    c.args(pio="pio", depth="int", make_buf="factory", do_one="callback", pio_out="pio", parallel="int", cli_progress="bool")
    c.requires("depth >= 0")
    c.loop(0, summarise="stateless")
    c.may_raise("CallbackError", "serial mode propagates errors of the per-tile function")
    c.may_raise("WorkerFailedError", "parallel mode reports failed workers")
    c.on_path(serial_trace(0, lambda it: ("*", it, "*", "*"), item_guard=None))
    c.on_path(same_source(0, _gen_pos_of_depth))


def walk_serial_trace(m, path, fr, env, outcome, value, exc):
    """Serial walk = reduction of liveness: callback(pos) exactly for non-leaf tiles with a live
    child, synchronously, and the value handed to the iterator is the tile's own liveness."""
    ev = path.events
    for si in [i for i, e in enumerate(ev) if e[0] == "loop_iter" and e[1] == 0]:
        seg = ev[si + 1:]
        if not any(e[0] == "loop_iter_end" and e[1] == 0 for e in seg):
            continue
        pos, tile, is_leaf, data = fr.last_loop_item[0]
        d = [data.attrs.get("_g_d%d" % i, z3.BoolVal(False)) for i in range(4)]
        anylive = z3.Or(*[x for x in d]) if d else z3.BoolVal(False)
        want_cb = z3.And(z3.Not(is_leaf), anylive)
        st = [e for e in seg if e[0] == "cb_start"]
        dn = [e for e in seg if e[0] == "cb_done"]
        if not st:
            path.oblige(m.oblname("serial/every_live_parent_is_processed"), z3.Not(want_cb), kind="trace", assume_after=False)
        else:
            ok = len(st) == 1 and len(dn) == 1 and len(st[0][2]) == 1 and _same(st[0][2][0], pos)
            path.oblige(m.oblname("serial/callback_once_with_the_tile"), z3.BoolVal(bool(ok)), kind="trace", assume_after=False)
            path.oblige(m.oblname("serial/only_live_parents_are_processed"), want_cb, kind="trace", assume_after=False)
        sd = [e for e in seg if e[0] == "set_data"]
        goal = z3.BoolVal(False)
        if len(sd) == 1:
            v = sd[0][2]
            v = v if not isinstance(v, bool) else z3.BoolVal(v)
            goal = v == z3.Or(is_leaf, anylive)
        path.oblige(m.oblname("serial/reduction_value_is_the_tiles_liveness"), goal, kind="trace", assume_after=False)


@contract("toasty.pyramid.Pyramid._walk_serial")
def _(c):
    c.self_type("Pyramid", **PYRAMID_FIELDS)
    c.requires("self.depth >= 0 and self._apex.n >= 0 and self._apex.x >= 0 and self._apex.y >= 0 and self._apex.n <= self.depth", name="valid_pyramid")
    c.args(callback="callback", cli_progress="bool")
    c.loop(0, summarise="stateless")
    c.may_raise("CallbackError", "serial mode: an exception of the callback propagates to the caller")
    c.on_path(walk_serial_trace)


@contract("toasty.pyramid.Pyramid.walk")
def _(c):
    c.self_type("Pyramid", **PYRAMID_FIELDS)
    c.args(callback="callback", parallel="int", cli_progress="bool")
    c.requires("self.depth >= 0 and self._apex.n >= 0 and self._apex.x >= 0 and self._apex.y >= 0 and self._apex.n <= self.depth")
    c.may_raise("CallbackError", "serial mode propagates callback errors")
    c.may_raise("WorkerFailedError", "parallel mode reports failed workers")
    c.on_path(dispatch_trace("toasty.pyramid.Pyramid._walk_serial", "toasty.pyramid.Pyramid._walk_parallel", ["callback"]))


# ---------------------------------------------------------------------------
# par_util helpers that make worker failures visible in the parent (C19)

def ensure_ok_trace(m, path, fr, env, outcome, value, exc):
    ev = path.events
    for si in [i for i, e in enumerate(ev) if e[0] == "loop_iter" and e[1] == 0]:
        seg = ev[si + 1:]
        reads = [e for e in seg if e[0] == "exitcode_read"]
        ended = any(e[0] == "loop_iter_end" and e[1] == 0 for e in seg)
        if not reads:
            path.oblige(m.oblname("reads_the_exit_code_of_every_worker"), z3.BoolVal(False), kind="trace", assume_after=False)
            continue
        ec = reads[0][2]
        failed = z3.And(ec.present, ec.value != 0)
        if ended:
            path.oblige(m.oblname("continues_only_past_workers_that_did_not_fail"), z3.Not(failed), kind="trace", assume_after=False)
        elif outcome == "raise":
            path.oblige(m.oblname("raises_only_for_a_worker_that_failed"), failed, kind="trace", assume_after=False)
            de = fr.entry_env.lookup("done_event")
            if de is not None:
                sets = [e for e in seg if e[0] == "ev_set" and _is(e[1], de)]
                path.oblige(m.oblname("tells_the_other_workers_to_stop_before_raising"), z3.BoolVal(len(sets) == 1), kind="trace", assume_after=False)


@contract("toasty.par_util.ensure_workers_ok")
def _(c):
    c.cases({"done_event": "type:event"}, {"done_event": None})
    c.args(workers="proclist")
    c.loop(0, summarise="stateless")
    c.may_raise("WorkerFailedError", "raised iff some worker has ended with a non-zero exit code")
    c.on_path(ensure_ok_trace)


def put_checking_trace(m, path, fr, env, outcome, value, exc):
    ev = path.events
    q, item = fr.entry_env.lookup("queue"), fr.entry_env.lookup("item")
    puts = [e for e in ev if e[0] == "q_put"]
    if outcome == "return":
        ok = len(puts) == 1 and _is(puts[0][1], q) and _same(puts[0][2], item)
        path.oblige(m.oblname("returns_after_exactly_one_completed_put_of_the_item"), z3.BoolVal(bool(ok)), kind="trace", assume_after=False)
    if outcome == "raise":
        path.oblige(m.oblname("no_put_when_it_raises"), z3.BoolVal(not puts), kind="trace", assume_after=False)
    for si in [i for i, e in enumerate(ev) if e[0] == "loop_iter" and e[1] == 0]:
        seg = ev[si + 1:]
        if any(e[0] == "q_put_full" for e in seg) and any(e[0] == "loop_iter_end" and e[1] == 0 for e in seg):
            chk = [e for e in seg if e[0] == "call" and e[1] == CHECK_HELPER]
            ok = len(chk) == 1 and _same(chk[0][2].get("workers"), fr.entry_env.lookup("workers"))
            path.oblige(m.oblname("a_full_queue_makes_it_check_the_workers_before_retrying"), z3.BoolVal(bool(ok)), kind="trace", assume_after=False)


@contract("toasty.par_util.put_checking_workers")
def _(c):
    c.args(queue="queue[Pos]", item="Pos", workers="proclist", done_event="event")
    c.loop(0, invariant=[("true", "True")])
    c.may_raise("WorkerFailedError", "propagated from ensure_workers_ok")
    c.on_path(put_checking_trace)


def join_workers_trace(m, path, fr, env, outcome, value, exc):
    ev = path.events
    if outcome == "return":
        seq = [_t for _t in [("loop_summary" if (e[0] == "loop_summary" and e[1] == 0) else ("check" if (e[0] == "call" and e[1] == CHECK_HELPER) else None)) for e in ev] if _t]
        path.oblige(m.oblname("joins_every_worker_then_checks_exit_codes"), z3.BoolVal(seq == ["loop_summary", "check"]), kind="trace", assume_after=False)
    for si in [i for i, e in enumerate(ev) if e[0] == "loop_iter" and e[1] == 0]:
        seg = ev[si + 1:]
        if any(e[0] == "loop_iter_end" and e[1] == 0 for e in seg):
            js = [e for e in seg if e[0] == "proc_join"]
            path.oblige(m.oblname("each_worker_is_joined"), z3.BoolVal(len(js) == 1), kind="trace", assume_after=False)
            # only an unbounded join guarantees the worker has ended (and has an exit code) when the codes are read
            path.oblige(m.oblname("each_join_waits_until_the_worker_has_ended"), z3.BoolVal(all(len(e) < 3 or e[2] is None for e in js)),
                        kind="trace", assume_after=False)


@contract("toasty.par_util.join_workers")
def _(c):
    c.args(workers="proclist")
    c.loop(0, summarise="stateless")
    c.may_raise("WorkerFailedError", "raised after all joins iff some worker failed (contract of ensure_workers_ok)")
    c.on_path(join_workers_trace)
