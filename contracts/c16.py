"""C16 — configuration of the check (deductive tier under construction)."""
PROPERTY = "C16"
LEVEL = "exploration"
CONTRACT_MODULES = ["contracts.specfuns"]
FUNCTIONS = []
LEMMAS = []
SLOW = ()
TRUSTED_BASE = []
ASSUMPTIONS = []
EXPLANATION = "bounded run-time tier only so far"
