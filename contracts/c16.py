"""C16 — Flipping image parity reverses rows but moves no pixel on the sky."""
PROPERTY = "C16"
LEVEL = "other"
CONTRACT_MODULES = ['contracts.specfuns', 'contracts.lemmas_desc', 'contracts.pyramid', 'contracts.image', 'contracts.merge', 'contracts.pyramidio', 'contracts.study', 'contracts.parallel', 'contracts.multitan', 'contracts.parity']
FUNCTIONS = ['toasty.image._wcs_to_parity_sign', 'toasty.image._flip_wcs_parity', 'toasty.image.Image.flip_parity', 'toasty.image.ImageDescription.flip_parity', 'toasty.image.Image.ensure_negative_parity', 'toasty.image.ImageDescription.ensure_negative_parity', 'toasty.multi_tan.MultiTanProcessor._tile_serial', 'toasty.multi_tan._mp_tile_worker']
LEMMAS = []
SLOW = ()
TRUSTED_BASE = ["pyvc VC generator; z3 (non-linear real arithmetic)/cvc5",
                "astropy WCS contract: intermediate = CD.(p - CRPIX), to_header gives CDELT*PC == CD, WCS(header) realises the header",
                "machine floats treated as mathematical reals"]
ASSUMPTIONS = ["that equal intermediate coordinates give equal sky positions (the non-linear projection is applied after the linear "
               "stage) is part of the WCS contract; real astropy round trips are in the bounded tier"]
EXPLANATION = "header reflection proved as a polynomial identity over the reals; parity sign, row reversal, idempotence of ensure_negative_parity"
