"""C20, option parsing: CollectionLoader.create_from_args turns the command-line strings into the SAME selection
the Python API takes — one integer / one key (applies to every file) when the option has a single entry, the LIST of
all entries in order (entry k for file k) when it has several.

Model of an option string s (assumed contracts of str/int, listed in the evidence): ``s.split(",")`` has
NPieces(s) >= 1 pieces Piece(s, k); ``int(t)`` raises ValueError or gives IntOf(t); ``len(t)`` and membership in a
constant string are functions of t."""
import z3

from pyvc.contracts_api import contract
from pyvc.core import PyRaise, fresh_name, z3num
from pyvc import ops
from pyvc.values import Inst, StrId, SymSeq, Ext

I = z3.IntSort()
NPieces = z3.Function("OptNPieces", I, I)
Piece = z3.Function("OptPiece", I, I, I)
IntOf = z3.Function("OptIntOf", I, I)
LenOf = z3.Function("OptLenOf", I, I)
InConst = z3.Function("OptInConstant", I, I, z3.BoolSort())
IsInt = z3.Function("OptIsInteger", I, z3.BoolSort())
IsFloat = z3.Function("OptIsFloat", I, z3.BoolSort())
FloatOf = z3.Function("OptFloatOf", I, z3.RealSort())


class OptPlugin(object):
    def getattr(self, interp, base, attr):
        if isinstance(base, StrId) and attr in ("split",):
            from pyvc.values import BoundMethod
            return BoundMethod(base, attr)
        return NotImplemented

    def method(self, interp, s, name, args, kwargs):
        if isinstance(s, StrId) and name == "split" and len(args) == 1 and args[0] == ",":
            n = NPieces(s.ident)
            interp.path.assume(n >= 1)
            interp.note_assumption("str.split(','): at least one piece, pieces in order")
            return SymSeq(n, lambda k, s=s: StrId(Piece(s.ident, z3num(k))), "pieces")
        return NotImplemented

    def parse_int(self, interp, s):
        if isinstance(s, StrId):
            if interp.spec_mode:
                return IntOf(s.ident)
            if interp.path.choose(IsInt(s.ident)):
                return IntOf(s.ident)
            raise PyRaise("ValueError", origin="int() of a string that is not an integer literal")
        return NotImplemented

    def to_int(self, interp, s):
        return self.parse_int(interp, s)

    def length(self, interp, x):
        if isinstance(x, StrId):
            interp.path.assume(LenOf(x.ident) >= 0)
            return LenOf(x.ident)
        return NotImplemented

    def contains(self, interp, container, x):
        if isinstance(x, StrId) and isinstance(container, str):
            return InConst(x.ident, ops.strlit(container))
        return None


def install_externals(X):
    X.plugins.insert(0, OptPlugin())


OPT_CASES = [{"hdu": h, "key": k} for h in (False, True) for k in (False, True)]


def cfa_setup(interp, path):
    case = interp._case
    s = Inst("Namespace", module=None, fields={
        "hdu_index": StrId(z3.Int(fresh_name("opt_hdu_index"))) if case["hdu"] else None,
        "wcs_key": StrId(z3.Int(fresh_name("opt_wcs_key"))) if case["key"] else None,
        "blankval": None})
    return {"cls": Ext("class:toasty.collection.CollectionLoader"), "settings": s}


def _seq_is_pieces(m, v, ident, conv):
    """v is the sequence of ALL pieces of the option string, in order (each converted by conv)"""
    if not isinstance(v, SymSeq):
        return z3.BoolVal(False)
    k = z3.Int(fresh_name("k"))
    e = v.at(k)
    want = conv(Piece(ident, k))
    got = e.ident if isinstance(e, StrId) else z3num(e)
    return z3.And(z3num(v.length) == NPieces(ident),
                  z3.ForAll([k], z3.Implies(z3.And(0 <= k, k < NPieces(ident)), got == want)))


def cfa_trace(m, path, fr, env, outcome, value, exc):
    if outcome != "return":
        return
    case = m._case
    st = fr.entry_env.lookup("settings")
    ok = isinstance(value, Inst) and value.cls == "CollectionLoader"
    path.oblige(m.oblname("returns_a_loader"), z3.BoolVal(bool(ok)), kind="trace", assume_after=False)
    if not ok:
        return
    name_h = m.oblname("hdu_index_is_the_single_integer_or_the_list_of_all_entries_in_order")
    h = value.fields.get("hdu_index") if "hdu_index" in value.fields else None
    if not case["hdu"]:
        path.oblige(name_h, z3.BoolVal(h is None), kind="trace", assume_after=False)
    else:
        ident = st.fields["hdu_index"].ident
        if isinstance(h, SymSeq):
            g = _seq_is_pieces(m, h, ident, lambda p: IntOf(p))
        elif h is not None and (ops.is_num(h) or isinstance(h, int)):
            g = z3.And(IsInt(ident), z3num(h) == IntOf(ident))
        else:
            g = z3.BoolVal(False)
        path.oblige(name_h, g, kind="trace", assume_after=False)
    name_k = m.oblname("wcs_key_is_the_single_key_or_the_list_of_all_keys_in_order")
    kv = value.fields.get("wcs_key") if "wcs_key" in value.fields else None
    if not case["key"]:
        path.oblige(name_k, z3.BoolVal(kv is None), kind="trace", assume_after=False)
    else:
        ident = st.fields["wcs_key"].ident
        if isinstance(kv, SymSeq):
            g = z3.And(NPieces(ident) >= 2, _seq_is_pieces(m, kv, ident, lambda p: p))
        elif isinstance(kv, StrId):
            g = z3.And(NPieces(ident) == 1, kv.ident == Piece(ident, 0))
        else:
            g = z3.BoolVal(False)
        path.oblige(name_k, g, kind="trace", assume_after=False)


@contract("toasty.collection.CollectionLoader.create_from_args")
def _(c):
    c.cases(*OPT_CASES)
    c.setup(cfa_setup)
    c.loop(0, invariant=[("true", "True")], types={"key": "strid"})
    c.may_raise("Exception", "malformed option strings are rejected with an explanatory exception")
    c.on_path(cfa_trace)
