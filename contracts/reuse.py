"""C17, history part: FitsTiler._load_index_wtml_into_builder — when an output directory is reused, the
description handed back is the one recorded in index_rel.wtml.

Model of the parsed folder (assumed contract of wwt_data_formats): ``Folder.from_file(path).children`` is a list
of length n >= 0; child k is a Place (Kind(k) == 0), an ImageSet (Kind(k) == 1) or something else; a Place
``as_imageset()`` gives its image set or None (HasImg(k)).  The clause: the builder ends up describing the FIRST
child, in file order, that carries an image set (Place with an image set, or a bare ImageSet) — whatever that
image set's projection, levels or name are — and is left alone only if no child carries one."""
import z3

from pyvc.contracts_api import contract, spec
from pyvc.core import fresh_name, z3num
from pyvc import ops
from pyvc.values import Inst, Opaque, SymSeq, StrSeq, Tok

Kind = z3.Function("WtmlChildKind", z3.IntSort(), z3.IntSort())
HasImg = z3.Function("WtmlPlaceHasImageSet", z3.IntSort(), z3.BoolSort())


def carries(k):
    return z3.Or(z3.And(Kind(k) == 0, HasImg(k)), Kind(k) == 1)


@spec
def wtml_carries(interp, k):
    return carries(z3num(k))


@spec
def wtml_untouched(interp, builder):
    img, place = builder.fields.get("imgset"), builder.fields.get("place")
    return bool(isinstance(img, Opaque) and img.name == "fresh_imageset" and isinstance(place, Inst)
                and isinstance(place.fields.get("foreground_image_set"), Opaque)
                and place.fields["foreground_image_set"].name == "fresh_imageset")


def _child(k):
    c = Opaque("wtml_child", "child[%s]" % (k,))
    c.attrs["_g_idx"] = z3num(k)
    return c


class ReusePlugin(object):
    def isinstance(self, interp, v, n):
        if isinstance(v, Opaque) and v.kind == "wtml_child":
            short = n.split(".")[-1]
            k = v.attrs["_g_idx"]
            if short == "Place":
                return Kind(k) == 0
            if short == "ImageSet":
                return Kind(k) == 1
            return False
        return NotImplemented

    def getattr(self, interp, base, attr):
        if isinstance(base, Opaque) and base.kind == "wtml_child":
            if attr == "name":
                return StrSeq([Tok("name_of_child[%s]" % base.attrs["_g_idx"], "name")])
            if attr in ("projection", "tile_levels", "url", "file_type"):
                # any value at all: the clause does not depend on it
                return Opaque("field", fresh_name(attr))
        if isinstance(base, Opaque) and base.kind == "wtml_imageset" and attr in ("projection", "tile_levels", "url", "file_type", "name"):
            return Opaque("field", fresh_name(attr))
        return NotImplemented


def install_externals(X):
    X.plugins.insert(0, ReusePlugin())

    @X.register("wwt_data_formats.folder.Folder.from_file")
    def _(interp, args, kwargs):
        interp.note_assumption("wwt_data_formats Folder.from_file(path).children: the children of the recorded folder, in file order")
        n = z3.Int(fresh_name("n_children"))
        interp.path.assume(n >= 0)
        interp.path.event("folder_from_file", args[0], n)
        return Inst("Folder", module="wwt_data_formats.folder", fields={"children": SymSeq(n, _child, "children")})

    @X.register_opaque("wtml_child", "as_imageset")
    def _(interp, c, args, kwargs):
        k = c.attrs["_g_idx"]
        if interp.path.choose(HasImg(k)):
            im = Opaque("wtml_imageset", "imageset_of_child[%s]" % (k,))
            im.attrs["_g_idx"] = k
            return im
        return None

    @X.register_opaque("field", "__eq__")
    def _(interp, f, args, kwargs):
        return z3.Bool(fresh_name("field_eq"))


def reuse_setup(interp, path):
    place = Inst("Place", module="wwt_data_formats.place", fields={"foreground_image_set": Opaque("wtml_imageset", "fresh_imageset"),
                                                                  "name": StrSeq([Tok("fresh_name", "name")])})
    builder = Inst("Builder", module="toasty.builder", fields={"imgset": Opaque("wtml_imageset", "fresh_imageset"), "place": place})
    from pyvc.values import EnumVal
    me = Inst("FitsTiler", module="toasty.fits_tiler", fields={
        "out_dir": StrSeq([Tok("out_dir", "path")]), "builder": builder,
        "tiling_method": EnumVal("TilingMethod", interp._case["method"], None, "toasty")})
    return {"self": me}


def reuse_trace(m, path, fr, env, outcome, value, exc):
    if outcome != "return":
        if outcome == "raise":
            path.oblige(m.oblname("returns_normally"), z3.BoolVal(False), kind="trace", assume_after=False,
                        info={"raised": exc.etype, "origin": exc.origin})
        return
    me = env.lookup("self")
    b = me.fields["builder"]
    opened = [e for e in path.events if e[0] == "folder_from_file"]
    name = m.oblname("description_is_the_first_recorded_image_set")
    if not opened:
        # no index file: nothing to restore
        ok = isinstance(b.fields["imgset"], Opaque) and b.fields["imgset"].name == "fresh_imageset"
        path.oblige(m.oblname("builder_untouched_without_an_index"), z3.BoolVal(bool(ok)), kind="trace", assume_after=False)
        return
    n_children = opened[0][2]
    img = b.fields["imgset"]
    j = z3.Int(fresh_name("j"))
    if isinstance(img, Opaque) and img.kind in ("wtml_imageset", "wtml_child") and "_g_idx" in img.attrs:
        k = img.attrs["_g_idx"]
        first = z3.And(carries(k), z3.ForAll([j], z3.Implies(z3.And(0 <= j, j < k), z3.Not(carries(j)))))
        # a Place child must also become the builder's place; an ImageSet child the place's foreground image set
        place = b.fields["place"]
        if img.kind == "wtml_imageset":
            okp = isinstance(place, Opaque) and place.kind == "wtml_child" and z3.is_true(z3.simplify(place.attrs["_g_idx"] == k))
            first = z3.And(first, Kind(k) == 0, z3.BoolVal(bool(okp)))
        else:
            fg = place.fields.get("foreground_image_set") if isinstance(place, Inst) else None
            okp = isinstance(fg, Opaque) and fg.kind == "wtml_child" and z3.is_true(z3.simplify(fg.attrs["_g_idx"] == k))
            first = z3.And(first, Kind(k) == 1, z3.BoolVal(bool(okp)))
        path.oblige(name, first, kind="trace", assume_after=False)
    else:
        # builder left alone: allowed only if NO child carries an image set
        untouched = isinstance(img, Opaque) and img.name == "fresh_imageset"
        goal = z3.BoolVal(False)
        if untouched:
            goal = z3.ForAll([j], z3.Implies(z3.And(0 <= j, j < n_children), z3.Not(carries(j))))
        path.oblige(name, goal, kind="trace", assume_after=False)


@contract("toasty.fits_tiler.FitsTiler._load_index_wtml_into_builder")
def _(c):
    c.cases({"method": "TAN"}, {"method": "TOAST"})
    c.setup(reuse_setup)
    c.loop(0, invariant=[
        ("no_earlier_child_carries_an_image_set",
         "forall(lambda j: implies(0 <= j and j < _k, not wtml_carries(j)))"),
        ("builder_untouched_so_far", "wtml_untouched(self.builder)"),
    ], havoc=["self.builder", "self.builder.place"])   # no field is havocked: the invariant pins them to their entry values
    c.on_path(reuse_trace)
