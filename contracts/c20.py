"""C20 — Each input file contributes exactly the HDU and WCS solution the user selected."""
PROPERTY = "C20"
LEVEL = "proof"
CONTRACT_MODULES = ["contracts.specfuns", "contracts.collection", "contracts.cliopts"]
FUNCTIONS = ["toasty.collection.SimpleFitsCollection._scan_hdus", "toasty.collection.CollectionLoader.load_paths", "toasty.collection.load", "toasty.collection.CollectionLoader.create_from_args"]
LEMMAS = []
SLOW = ()
TRUSTED_BASE = [
    "pyvc VC generator (python subset semantics, DESIGN.md 2.2); z3/cvc5",
    "astropy HDUList: integer key returns that HDU, a list key raises; fits.open yields >= 1 HDU",
]
ASSUMPTIONS = []
EXPLANATION = "HDU / WCS-key resolution proved for scalar, list and default selections for every number of inputs."


def replay(clause, contract, model, seed):
    """Native replay of a refuted _scan_hdus clause: build small multi-extension FITS files and
    run the real generator for scalar / list / default selections."""
    import os
    import shutil
    import tempfile
    import numpy as np
    from astropy.io import fits
    from toasty.collection import SimpleFitsCollection
    d = tempfile.mkdtemp(prefix="verif_c20_replay_")
    try:
        paths = []
        for f in range(2):
            hdus = [fits.PrimaryHDU()]
            for k in range(1, 4):
                hdus.append(fits.ImageHDU(np.full((3 + k, 4 + f), 10 * f + k, dtype=np.float32)))
            p = os.path.join(d, "f%d.fits" % f)
            fits.HDUList(hdus).writeto(p)
            paths.append(p)
        for sel in ([1, 3], [2, 2], 2, None):
            for key in (" ", [" ", " "], None):
                coll = SimpleFitsCollection(paths, hdu_index=sel, wcs_key=key)
                try:
                    items = [(pth, idx, _FirstPixel(hdu), wk) for pth, idx, hdu, wk in coll._scan_hdus()]
                except Exception as e:   # noqa
                    return {"clause": "no_unexpected_raise/%s" % type(e).__name__,
                            "inputs": {"hdu_index": sel, "wcs_key": key, "n_paths": 2, "hdu_index_kind": kind(sel)},
                            "observed": "raised %r" % (e,)}
                for i, (pth, idx, hdu, wk) in enumerate(items):
                    want = sel[i] if isinstance(sel, list) else (sel if sel is not None else 1)
                    val = hdu.value
                    if pth != paths[i] or idx != want or val != 10 * i + want:
                        return {"clause": "yields_each/hdu_is_that_hdu_of_that_file",
                                "inputs": {"hdu_index": sel, "wcs_key": key, "n_paths": 2, "hdu_index_kind": kind(sel)},
                                "observed": "item %d = (%s, %s, first pixel %s)" % (i, pth, idx, val)}
        return None
    finally:
        shutil.rmtree(d, ignore_errors=True)


def kind(sel):
    return "list" if isinstance(sel, list) else ("none" if sel is None else "scalar")


class _FirstPixel(object):
    """first pixel of an HDU, read while the file is still open"""

    def __init__(self, hdu):
        self.value = float(hdu.data.flat[0]) if hdu.data is not None else None
