"""The reduction-iterator protocol as seen by its consumers, and the three counters (C13).

ASSUMED protocol of ``PyramidReductionIterator`` (its implementation - ``__next__``, ``set_data``,
``_ensure_levels`` - is exercised by the bounded tier, obligation rt/reduction/child_slots):
  * it delivers exactly the positions of a fixed set InIter (the in-scope positions the generator yields,
    at or below the apex), each once, every delivered child before its parent; ``is_leaf == (pos.n == depth)``;
  * ``child_data[i]`` is the value passed to ``set_data`` for child i = (n+1, 2x + i%2, 2y + i//2) if that child
    is in InIter, else the default value;
  * ``result()`` is the value set for the apex, or the default if the apex was never delivered.

Against this protocol the counters are proved equal to the recursive specifications
  Leaves(p) = 1 if p.n == depth else sum(Leaves(c) for delivered children c)
  LiveN(p)  = 1 if leaf else (s + 1 if s > 0 else 0) with s = sum(LiveN(c))
  Ops(p), IsLive(p) likewise,
and the identity  Ops + Leaves = LiveN  is a lemma over those recursions."""
import z3

from pyvc.contracts_api import contract, spec, lemma
from pyvc.core import OutOfSubset, z3num, fresh_name, is_z3
from pyvc import ops
from pyvc.ops import simp
from pyvc.values import Inst, Opaque, NTuple, PyList
from pyvc.types import register_type
from pyvc.symmap import SymMap, SymSet, fresh_bool_cube, fresh_int_cube
from . import parallel as _par
from .parallel import PYRAMID_FIELDS
from .walk import child as _child_spec  # noqa: F401

I = z3.IntSort()
InIter = z3.Function("InIter", I, I, I, z3.BoolSort())
Leaves = z3.Function("Leaves", I, I, I, I)
LiveN = z3.Function("LiveN", I, I, I, I)
OpsN = z3.Function("OpsN", I, I, I, I)
IsLive = z3.Function("IsLive", I, I, I, z3.BoolSort())


def _venv(interp):
    """environment of the function under verification (also when the current frame is an inlined helper)"""
    for f_ in reversed(interp.frames):
        if getattr(f_, "env", None) is not None:
            return f_.env
    from pyvc.interp import Env
    return Env(module=interp.frame.module if interp.frame is not None else None)


def _p(p):
    return [z3num(v) for v in p.vals]


def kid(p, i):
    n, x, y = _p(p)
    return [n + 1, 2 * x + (i % 2), 2 * y + (i // 2)]


def unfold(depth, p):
    """definitional instances of the recursive specs at position p"""
    n, x, y = _p(p)
    leaf = n == z3num(depth)
    ks = [kid(p, i) for i in range(4)]
    sl = z3.Sum([z3.If(InIter(*k), Leaves(*k), 0) for k in ks])
    sv = z3.Sum([z3.If(InIter(*k), LiveN(*k), 0) for k in ks])
    so = z3.Sum([z3.If(InIter(*k), OpsN(*k), 0) for k in ks])
    anyl = z3.Or(*[z3.And(InIter(*k), IsLive(*k)) for k in ks])
    return [Leaves(n, x, y) == z3.If(leaf, 1, sl),
            LiveN(n, x, y) == z3.If(leaf, 1, z3.If(sv > 0, sv + 1, 0)),
            IsLive(n, x, y) == z3.If(leaf, z3.BoolVal(True), anyl),
            OpsN(n, x, y) == z3.If(leaf, 0, z3.If(anyl, so + 1, so))]


@spec
def in_iter(interp, p):
    return InIter(*_p(p))


@spec
def leaves_of(interp, p):
    return Leaves(*_p(p))


@spec
def live_of(interp, p):
    return LiveN(*_p(p))


@spec
def ops_of(interp, p):
    return OpsN(*_p(p))


@spec
def is_live_of(interp, p):
    return IsLive(*_p(p))


@spec
def unfold_at(interp, depth, p):
    return z3.And(*unfold(depth, p))


@spec
def visited(interp, it, p):
    return it.attrs["_g_visited"].has(p)


@spec
def val(interp, it, p, comp=0):
    return SymMap.sel(it.attrs["_g_val"][comp], [z3num(v) for v in p.vals])


class RichIterPlugin(object):
    def arbitrary_item(self, interp, it, label):
        if not (isinstance(it, Opaque) and it.kind == "riter" and "_g_val" in it.attrs):
            return None
        depth, kind, dflt = it.attrs["_g_depth"], it.attrs["_g_kind"], it.attrs["_g_default"]
        pos = NTuple("Pos", ("n", "x", "y"), [z3.Int(fresh_name("%s.pos.%s" % (label, f))) for f in "nxy"])
        n, x, y = _p(pos)
        facts = [InIter(n, x, y), z3.Not(it.attrs["_g_visited"].has(pos)), n <= z3num(depth), n >= 0]
        data = []
        for i in range(4):
            k = kid(pos, i)
            kp = NTuple("Pos", ("n", "x", "y"), k)
            facts.append(z3.Implies(InIter(*k), it.attrs["_g_visited"].has(kp)))     # children first
            comps = []
            if dflt is None:
                data.append(None)
                continue
            for c, d in enumerate(dflt if isinstance(dflt, tuple) else (dflt,)):
                arr = it.attrs["_g_val"][c]
                stored = SymMap.sel(arr, k)
                if isinstance(d, bool):
                    comps.append(simp(z3.If(InIter(*k), stored, z3.BoolVal(d))))
                else:
                    comps.append(simp(z3.If(InIter(*k), stored, z3.IntVal(d))))
            data.append(tuple(comps) if isinstance(dflt, tuple) else comps[0])
        facts.extend(unfold(depth, pos))
        it.attrs["_g_current"] = pos
        is_leaf = simp(n == z3num(depth))
        return (pos, Opaque("tile", fresh_name("tile")), is_leaf, PyList(data)), z3.And(*facts), z3.Int(fresh_name(label + "_k"))

    def exhausted_fact(self, interp, it):
        """when iteration stops every position of InIter has been delivered (instance needed: the apex)"""
        if isinstance(it, Opaque) and it.kind == "riter" and "_g_val" in it.attrs:
            apex = it.attrs["_g_apex"]
            return z3.Implies(InIter(*_p(apex)), it.attrs["_g_visited"].has(apex))
        return None

    def havoc(self, interp, obj, expr):
        if isinstance(obj, Opaque) and obj.kind == "riter" and "_g_val" in obj.attrs:
            obj.attrs["_g_visited"].member = fresh_bool_cube("visited")
            new = []
            for c, arr in enumerate(obj.attrs["_g_val"]):
                new.append(fresh_bool_cube("val%d" % c) if arr.sort().range().range().range() == z3.BoolSort() else fresh_int_cube("val%d" % c))
            obj.attrs["_g_val"] = new
            return True
        return False


def rich_iter(default, depth, apex):
    it = Opaque("riter", fresh_name("riter"))
    it.attrs["_g_default"] = default
    it.attrs["_g_kind"] = "tuple" if isinstance(default, tuple) else type(default).__name__
    it.attrs["_g_depth"] = depth
    it.attrs["_g_apex"] = apex
    it.attrs["_g_visited"] = SymSet("visited")
    it.attrs["_g_val"] = [] if default is None else [
        fresh_bool_cube("val%d" % c) if isinstance(d, bool) else fresh_int_cube("val%d" % c)
        for c, d in enumerate(default if isinstance(default, tuple) else (default,))]
    return it


def install_externals(X):
    X.plugins.insert(0, RichIterPlugin())
    old_set = X.opaque.get(("riter", "set_data"))
    old_res = X.opaque.get(("riter", "result"))

    def set_data(interp, obj, args, kwargs):
        if "_g_val" not in obj.attrs:
            return old_set(interp, obj, args, kwargs)
        pos = obj.attrs["_g_current"]
        k = _p(pos)
        v = args[0]
        comps = v if isinstance(v, tuple) else (v,)
        new = []
        for arr, c in zip(obj.attrs["_g_val"], comps):
            cv = c if is_z3(c) else (z3.BoolVal(c) if isinstance(c, bool) else z3.IntVal(c))
            new.append(SymMap.sto(arr, k, cv))
        obj.attrs["_g_val"] = new
        obj.attrs["_g_visited"].add(pos)
        interp.path.event("set_data", obj, v)
        return None

    def result(interp, obj, args, kwargs):
        if "_g_val" not in obj.attrs:
            return old_res(interp, obj, args, kwargs)
        apex = obj.attrs["_g_apex"]
        dflt = obj.attrs["_g_default"]
        if dflt is None:
            return None
        seen = obj.attrs["_g_visited"].has(apex)
        out = []
        for arr, d in zip(obj.attrs["_g_val"], dflt if isinstance(dflt, tuple) else (dflt,)):
            dv = z3.BoolVal(d) if isinstance(d, bool) else z3.IntVal(d)
            out.append(simp(z3.If(seen, SymMap.sel(arr, _p(apex)), dv)))
        return tuple(out) if isinstance(dflt, tuple) else out[0]

    X.opaque[("riter", "set_data")] = set_data
    X.opaque[("riter", "result")] = result


def _mk_model(interp, env):
    me = env.lookup("self")
    return rich_iter(env.lookup("default_value"), me.fields["depth"], me.fields["_apex"])


# the reduction iterator handed to the counters is the rich protocol model
_mir = contract("toasty.pyramid.Pyramid._make_iter_reducer")
_mir(lambda c: c.model(_mk_model))

ALLQ = "forall(lambda n, x, y: %s)"
Q = "Pos(n, x, y)"


def counter_setup(filtered):
    def setup(interp, path):
        me = Inst("Pyramid", module="toasty.pyramid", fields={
            "depth": z3.Int(fresh_name("depth")),
            "_apex": NTuple("Pos", ("n", "x", "y"), [z3.Int(fresh_name("apex." + f)) for f in "nxy"]),
            "_tile_filter": Opaque("tile_filter", "tile_filter") if filtered else None,
            "_coordsys": Opaque("coordsys", "coordsys")})
        return {"self": me}
    return setup


def counter(qualname, spec_fn, comp, inv_extra=""):
    c0 = contract(qualname)

    @c0
    def _(c):
        c.cases({"filtered": True}, {"filtered": False})
        c.setup(lambda interp, path: counter_setup(interp._case["filtered"])(interp, path))
        c.requires("self.depth >= 0 and self._apex.n >= 0 and self._apex.n <= self.depth")
        inv = ALLQ % ("implies(visited(riter, {Q}), in_iter({Q}) and %s)".format(Q=Q) % spec_fn)
        c.loop(0, invariant=[("values_set_so_far_are_the_recursive_spec", inv)], havoc=["riter"],
               hints=["_pos", "child(_pos, 0)", "child(_pos, 1)", "child(_pos, 2)", "child(_pos, 3)", "self._apex"])


counter("toasty.pyramid.Pyramid.count_leaf_tiles", "val(riter, {Q}) == leaves_of({Q}) and leaves_of({Q}) >= 0".format(Q=Q), 0)
counter("toasty.pyramid.Pyramid.count_live_tiles", "val(riter, {Q}) == live_of({Q}) and live_of({Q}) >= 0".format(Q=Q), 0)
counter("toasty.pyramid.Pyramid.count_operations",
        "val(riter, {Q}, 0) == is_live_of({Q}) and val(riter, {Q}, 1) == ops_of({Q}) and ops_of({Q}) >= 0".format(Q=Q), 1)

contract("toasty.pyramid.Pyramid.count_leaf_tiles")(lambda c: c.ensures(
    "result == ite(self._tile_filter is None, pow2(2 * (self.depth - self._apex.n)), ite(in_iter(self._apex), leaves_of(self._apex), 0))",
    name="number_of_delivered_leaves_below_the_apex"))
contract("toasty.pyramid.Pyramid.count_live_tiles")(lambda c: c.ensures(
    "result == ite(self._tile_filter is None, T(self.depth - self._apex.n), ite(in_iter(self._apex), live_of(self._apex), 0))",
    name="number_of_live_tiles_below_the_apex"))
contract("toasty.pyramid.Pyramid.count_operations")(lambda c: c.ensures(
    "result == ite(self._tile_filter is None, T(self.depth - self._apex.n - 1), ite(in_iter(self._apex), ops_of(self._apex), 0))",
    name="number_of_live_non_leaf_tiles_below_the_apex"))


@lemma("ops_plus_leaves_equals_live")
def _(L):
    """One step of the induction over the recursive specs: if Ops + Leaves = LiveN and (IsLive <=> Leaves > 0)
    and all three are >= 0 and a dead tile needs no operation, at the four children, the same holds at the parent."""
    leaf = z3.Bool("leaf")
    ini = [z3.Bool("in%d" % i) for i in range(4)]
    le = [z3.Int("le%d" % i) for i in range(4)]
    lv = [z3.Int("lv%d" % i) for i in range(4)]
    op = [z3.Int("op%d" % i) for i in range(4)]
    il = [z3.Bool("il%d" % i) for i in range(4)]
    hyp = z3.And(*[z3.Implies(ini[i], z3.And(op[i] + le[i] == lv[i], il[i] == (le[i] > 0), le[i] >= 0, op[i] >= 0, lv[i] >= 0,
                                            z3.Or(il[i], op[i] == 0))) for i in range(4)])
    sl = z3.Sum([z3.If(ini[i], le[i], 0) for i in range(4)])
    sv = z3.Sum([z3.If(ini[i], lv[i], 0) for i in range(4)])
    so = z3.Sum([z3.If(ini[i], op[i], 0) for i in range(4)])
    anyl = z3.Or(*[z3.And(ini[i], il[i]) for i in range(4)])
    Lp = z3.If(leaf, 1, sl)
    Vp = z3.If(leaf, 1, z3.If(sv > 0, sv + 1, 0))
    Ip = z3.If(leaf, z3.BoolVal(True), anyl)
    Op = z3.If(leaf, 0, z3.If(anyl, so + 1, so))
    L.prove("step", z3.Implies(hyp, z3.And(Op + Lp == Vp, Ip == (Lp > 0), Lp >= 0, Op >= 0, Vp >= 0, z3.Or(Ip, Op == 0))))


# ---------------------------------------------------------------------------
# serial walk against the protocol: callback exactly for the live non-leaf tiles (C01)

def walk_serial_trace2(m, path, fr, env, outcome, value, exc):
    ev = path.events
    for si in [i for i, e in enumerate(ev) if e[0] == "loop_iter" and e[1] == 0]:
        seg = ev[si + 1:]
        if not any(e[0] == "loop_iter_end" and e[1] == 0 for e in seg):
            continue
        pos, tile, is_leaf, data = fr.last_loop_item[0]
        want_cb = z3.And(z3.Not(is_leaf), IsLive(*_p(pos)))
        st = [e for e in seg if e[0] == "cb_start"]
        dn = [e for e in seg if e[0] == "cb_done"]
        if not st:
            path.oblige(m.oblname("serial/every_live_parent_is_processed"), z3.Not(want_cb), kind="trace", assume_after=False, drop=("qfact",))
        else:
            ok = len(st) == 1 and len(dn) == 1 and len(st[0][2]) == 1 and _par._same(st[0][2][0], pos)
            path.oblige(m.oblname("serial/callback_once_with_the_tile"), z3.BoolVal(bool(ok)), kind="trace", assume_after=False)
            path.oblige(m.oblname("serial/only_live_parents_are_processed"), want_cb, kind="trace", assume_after=False, drop=("qfact",))


_ws = contract("toasty.pyramid.Pyramid._walk_serial")


@_ws
def _(c):
    c.path_hooks_[:] = []          # replaces the weaker trace clause of contracts/parallel.py
    inv = ALLQ % ("implies(visited(riter, {Q}), in_iter({Q}) and val(riter, {Q}) == is_live_of({Q}))".format(Q=Q))
    c.loop(0, invariant=[("values_set_so_far_are_the_liveness_of_their_tiles", inv)], havoc=["riter"],
           hints=["pos", "child(pos, 0)", "child(pos, 1)", "child(pos, 2)", "child(pos, 3)"])
    c.on_path(walk_serial_trace2)


# ---------------------------------------------------------------------------
# the preparation pass of _walk_parallel against the protocol: it ESTABLISHES the dispatcher's entry state
# (replaces the assumed loop summary of contracts/walk.py)

from . import walk as _walk  # noqa: E402
from .walk import was_put, was_got, rget, rhas, rval, bit  # noqa: E402,F401


@spec
def live(interp, p):     # noqa: F811  -- "live" of the dispatcher invariant, now DEFINED: delivered by the iterator and has a reachable leaf
    n, x, y = _p(p)
    return z3.And(InIter(n, x, y), IsLive(n, x, y))


def _walk_done_rely2(interp, q, item):
    """completion report received by the dispatcher (worker guarantee + queue contract) and the ground instances of
    the liveness definition / iterator protocol for this tile and its parent"""
    env = _venv(interp)
    rq = env.lookup("ready_queue")
    self_ = env.lookup("self")
    A, D = self_.fields["_apex"], self_.fields["depth"]
    n, x, y = _p(item)
    facts = [rq.attrs["_g_put"].has(item), z3.Not(q.attrs["_g_got"].has(item))]
    par = NTuple("Pos", ("n", "x", "y"), [n - 1, x / 2, y / 2])
    not_apex = z3.Not(z3.And(n == z3num(A.get("n")), x == z3num(A.get("x")), y == z3num(A.get("y"))))
    from .specfuns import Desc
    # protocol: delivered positions are in scope; the generator descends only through delivered positions
    facts.append(z3.Implies(InIter(n, x, y), z3.And(Desc(n, x, y, *_p(A)), n <= z3num(D))))
    facts.append(z3.Implies(z3.And(InIter(n, x, y), not_apex), z3.And(InIter(*_p(par)), Desc(*_p(par), *_p(A)))))
    facts.extend(unfold(D, item))
    facts.extend(unfold(D, par))
    return z3.And(*facts)


register_type("walk_done_queue", lambda interp, name: __import__("pyvc.mpmodel", fromlist=["new_queue"]).new_queue(name, item_type="Pos", rely=_walk_done_rely2))

PREP_VAL = ALLQ % ("implies(visited(riter, {Q}), in_iter({Q}) and val(riter, {Q}, 0) == is_live_of({Q}) and val(riter, {Q}, 1) == ops_of({Q}))".format(Q=Q))
PREP_NOTVIS = ALLQ % ("implies(not visited(riter, {Q}), not rhas(readiness, {Q}) and not was_put(ready_queue, {Q}))".format(Q=Q))
PREP_BITS = ALLQ % ("implies(visited(riter, {Q}) and n < self.depth, all_k(0, 4, lambda i: bit(rget(readiness, {Q}), i) == "
                    "(not live(child({Q}, i)))))".format(Q=Q))
PREP_SEED = ALLQ % ("implies(visited(riter, {Q}), was_put(ready_queue, {Q}) == (live({Q}) and n == self.depth - 1))".format(Q=Q))
PREP_NODONE = ALLQ % ("not was_got(done_queue, {Q})".format(Q=Q))
PREP_RANGE = _walk.I5


class ExhaustAll(object):
    """exhaustion fact for the preparation pass: every position of InIter was delivered (quantified; instantiated
    at the skolems of the goals like the other remembered facts)"""


_wp = contract("toasty.pyramid.Pyramid._walk_parallel")


@_wp
def _(c):
    c.loop(0, invariant=[("values_are_liveness_and_operation_counts", PREP_VAL),
                         ("nothing_recorded_for_tiles_not_yet_delivered", PREP_NOTVIS),
                         ("pre_readied_bits_are_the_dead_children", PREP_BITS),
                         ("seeded_exactly_the_live_tiles_above_the_leaves", PREP_SEED),
                         ("no_report_yet", PREP_NODONE),
                         ("table_values_are_4_bit", PREP_RANGE)],
           havoc=["riter", "readiness", "ready_queue", "done_queue"],
           hints=["pos", "child(pos, 0)", "child(pos, 1)", "child(pos, 2)", "child(pos, 3)"],
           sk_hints=["child(Pos(n, x, y), 0)", "child(Pos(n, x, y), 1)", "child(Pos(n, x, y), 2)", "child(Pos(n, x, y), 3)"],
           exit_assume=[("every_position_of_the_iteration_was_delivered", ALLQ % ("implies(in_iter({Q}), visited(riter, {Q}))".format(Q=Q))),
                        ("unfold", ALLQ % ("unfold_at(self.depth, {Q})".format(Q=Q)))])
