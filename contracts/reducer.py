"""The reduction-iterator protocol as seen by its consumers, and the three counters (C13).

ASSUMED protocol of ``PyramidReductionIterator`` (its implementation - ``__next__``, ``set_data``,
``_ensure_levels`` - is exercised by the bounded tier, obligation rt/reduction/child_slots):
  * it delivers exactly the positions of a fixed set InIter (the in-scope positions the generator yields,
    at or below the apex), each once, every delivered child before its parent; ``is_leaf == (pos.n == depth)``;
  * ``child_data[i]`` is the value passed to ``set_data`` for child i = (n+1, 2x + i%2, 2y + i//2) if that child
    is in InIter, else the default value;
  * ``result()`` is the value set for the apex, or the default if the apex was never delivered.

Against this protocol the counters are proved equal to the recursive specifications
  Leaves(p) = 1 if p.n == depth else sum(Leaves(c) for delivered children c)
  LiveN(p)  = 1 if leaf else (s + 1 if s > 0 else 0) with s = sum(LiveN(c))
  Ops(p), IsLive(p) likewise,
and the identity  Ops + Leaves = LiveN  is a lemma over those recursions."""
import z3

from pyvc.contracts_api import contract, spec, lemma
from pyvc.core import OutOfSubset, z3num, fresh_name, is_z3
from pyvc import ops
from pyvc.ops import simp
from pyvc.values import Inst, Opaque, NTuple, PyList
from pyvc.types import register_type
from pyvc.symmap import SymMap, SymSet, fresh_bool_cube, fresh_int_cube
from . import parallel as _par
from .parallel import PYRAMID_FIELDS
from .walk import child as _child_spec  # noqa: F401

I = z3.IntSort()
InIter = z3.Function("InIter", I, I, I, z3.BoolSort())
Leaves = z3.Function("Leaves", I, I, I, I)
LiveN = z3.Function("LiveN", I, I, I, I)
OpsN = z3.Function("OpsN", I, I, I, I)
IsLive = z3.Function("IsLive", I, I, I, z3.BoolSort())


def _p(p):
    return [z3num(v) for v in p.vals]


def kid(p, i):
    n, x, y = _p(p)
    return [n + 1, 2 * x + (i % 2), 2 * y + (i // 2)]


def unfold(depth, p):
    """definitional instances of the recursive specs at position p"""
    n, x, y = _p(p)
    leaf = n == z3num(depth)
    ks = [kid(p, i) for i in range(4)]
    sl = z3.Sum([z3.If(InIter(*k), Leaves(*k), 0) for k in ks])
    sv = z3.Sum([z3.If(InIter(*k), LiveN(*k), 0) for k in ks])
    so = z3.Sum([z3.If(InIter(*k), OpsN(*k), 0) for k in ks])
    anyl = z3.Or(*[z3.And(InIter(*k), IsLive(*k)) for k in ks])
    return [Leaves(n, x, y) == z3.If(leaf, 1, sl),
            LiveN(n, x, y) == z3.If(leaf, 1, z3.If(sv > 0, sv + 1, 0)),
            IsLive(n, x, y) == z3.If(leaf, z3.BoolVal(True), anyl),
            OpsN(n, x, y) == z3.If(leaf, 0, z3.If(anyl, so + 1, so))]


@spec
def in_iter(interp, p):
    return InIter(*_p(p))


@spec
def leaves_of(interp, p):
    return Leaves(*_p(p))


@spec
def live_of(interp, p):
    return LiveN(*_p(p))


@spec
def ops_of(interp, p):
    return OpsN(*_p(p))


@spec
def is_live_of(interp, p):
    return IsLive(*_p(p))


@spec
def visited(interp, it, p):
    return it.attrs["_g_visited"].has(p)


@spec
def val(interp, it, p, comp=0):
    return SymMap.sel(it.attrs["_g_val"][comp], [z3num(v) for v in p.vals])


class RichIterPlugin(object):
    def arbitrary_item(self, interp, it, label):
        if not (isinstance(it, Opaque) and it.kind == "riter" and "_g_val" in it.attrs):
            return None
        depth, kind, dflt = it.attrs["_g_depth"], it.attrs["_g_kind"], it.attrs["_g_default"]
        pos = NTuple("Pos", ("n", "x", "y"), [z3.Int(fresh_name("%s.pos.%s" % (label, f))) for f in "nxy"])
        n, x, y = _p(pos)
        facts = [InIter(n, x, y), z3.Not(it.attrs["_g_visited"].has(pos)), n <= z3num(depth), n >= 0]
        data = []
        for i in range(4):
            k = kid(pos, i)
            kp = NTuple("Pos", ("n", "x", "y"), k)
            facts.append(z3.Implies(InIter(*k), it.attrs["_g_visited"].has(kp)))     # children first
            comps = []
            for c, d in enumerate(dflt if isinstance(dflt, tuple) else (dflt,)):
                arr = it.attrs["_g_val"][c]
                stored = SymMap.sel(arr, k)
                if isinstance(d, bool):
                    comps.append(simp(z3.If(InIter(*k), stored, z3.BoolVal(d))))
                else:
                    comps.append(simp(z3.If(InIter(*k), stored, z3.IntVal(d))))
            data.append(tuple(comps) if isinstance(dflt, tuple) else comps[0])
        facts.extend(unfold(depth, pos))
        it.attrs["_g_current"] = pos
        is_leaf = simp(n == z3num(depth))
        return (pos, Opaque("tile", fresh_name("tile")), is_leaf, PyList(data)), z3.And(*facts), z3.Int(fresh_name(label + "_k"))

    def exhausted_fact(self, interp, it):
        """when iteration stops every position of InIter has been delivered (instance needed: the apex)"""
        if isinstance(it, Opaque) and it.kind == "riter" and "_g_val" in it.attrs:
            apex = it.attrs["_g_apex"]
            return z3.Implies(InIter(*_p(apex)), it.attrs["_g_visited"].has(apex))
        return None

    def havoc(self, interp, obj, expr):
        if isinstance(obj, Opaque) and obj.kind == "riter" and "_g_val" in obj.attrs:
            obj.attrs["_g_visited"].member = fresh_bool_cube("visited")
            new = []
            for c, arr in enumerate(obj.attrs["_g_val"]):
                new.append(fresh_bool_cube("val%d" % c) if arr.sort().range().range().range() == z3.BoolSort() else fresh_int_cube("val%d" % c))
            obj.attrs["_g_val"] = new
            return True
        return False


def rich_iter(default, depth, apex):
    it = Opaque("riter", fresh_name("riter"))
    it.attrs["_g_default"] = default
    it.attrs["_g_kind"] = "tuple" if isinstance(default, tuple) else type(default).__name__
    it.attrs["_g_depth"] = depth
    it.attrs["_g_apex"] = apex
    it.attrs["_g_visited"] = SymSet("visited")
    it.attrs["_g_val"] = [fresh_bool_cube("val%d" % c) if isinstance(d, bool) else fresh_int_cube("val%d" % c)
                          for c, d in enumerate(default if isinstance(default, tuple) else (default,))]
    return it


def install_externals(X):
    X.plugins.insert(0, RichIterPlugin())
    old_set = X.opaque.get(("riter", "set_data"))
    old_res = X.opaque.get(("riter", "result"))

    def set_data(interp, obj, args, kwargs):
        if "_g_val" not in obj.attrs:
            return old_set(interp, obj, args, kwargs)
        pos = obj.attrs["_g_current"]
        k = _p(pos)
        v = args[0]
        comps = v if isinstance(v, tuple) else (v,)
        new = []
        for arr, c in zip(obj.attrs["_g_val"], comps):
            cv = c if is_z3(c) else (z3.BoolVal(c) if isinstance(c, bool) else z3.IntVal(c))
            new.append(SymMap.sto(arr, k, cv))
        obj.attrs["_g_val"] = new
        obj.attrs["_g_visited"].add(pos)
        interp.path.event("set_data", obj, v)
        return None

    def result(interp, obj, args, kwargs):
        if "_g_val" not in obj.attrs:
            return old_res(interp, obj, args, kwargs)
        apex = obj.attrs["_g_apex"]
        dflt = obj.attrs["_g_default"]
        seen = obj.attrs["_g_visited"].has(apex)
        out = []
        for arr, d in zip(obj.attrs["_g_val"], dflt if isinstance(dflt, tuple) else (dflt,)):
            dv = z3.BoolVal(d) if isinstance(d, bool) else z3.IntVal(d)
            out.append(simp(z3.If(seen, SymMap.sel(arr, _p(apex)), dv)))
        return tuple(out) if isinstance(dflt, tuple) else out[0]

    X.opaque[("riter", "set_data")] = set_data
    X.opaque[("riter", "result")] = result


def _mk_model(interp, env):
    me = env.lookup("self")
    return rich_iter(env.lookup("default_value"), me.fields["depth"], me.fields["_apex"])


# the reduction iterator handed to the counters is the rich protocol model
_mir = contract("toasty.pyramid.Pyramid._make_iter_reducer")
_mir(lambda c: c.model(_mk_model))

ALLQ = "forall(lambda n, x, y: %s)"
Q = "Pos(n, x, y)"


def counter_setup(filtered):
    def setup(interp, path):
        me = Inst("Pyramid", module="toasty.pyramid", fields={
            "depth": z3.Int(fresh_name("depth")),
            "_apex": NTuple("Pos", ("n", "x", "y"), [z3.Int(fresh_name("apex." + f)) for f in "nxy"]),
            "_tile_filter": Opaque("tile_filter", "tile_filter") if filtered else None,
            "_coordsys": Opaque("coordsys", "coordsys")})
        return {"self": me}
    return setup


def counter(qualname, spec_fn, comp, inv_extra=""):
    c0 = contract(qualname)

    @c0
    def _(c):
        c.cases({"filtered": True}, {"filtered": False})
        c.setup(lambda interp, path: counter_setup(interp._case["filtered"])(interp, path))
        c.requires("self.depth >= 0 and self._apex.n >= 0 and self._apex.n <= self.depth")
        inv = ALLQ % ("implies(visited(riter, {Q}), in_iter({Q}) and %s)".format(Q=Q) % spec_fn)
        c.loop(0, invariant=[("values_set_so_far_are_the_recursive_spec", inv)], havoc=["riter"],
               hints=["_pos", "child(_pos, 0)", "child(_pos, 1)", "child(_pos, 2)", "child(_pos, 3)", "self._apex"])


counter("toasty.pyramid.Pyramid.count_leaf_tiles", "val(riter, {Q}) == leaves_of({Q}) and leaves_of({Q}) >= 0".format(Q=Q), 0)
counter("toasty.pyramid.Pyramid.count_live_tiles", "val(riter, {Q}) == live_of({Q}) and live_of({Q}) >= 0".format(Q=Q), 0)
counter("toasty.pyramid.Pyramid.count_operations",
        "val(riter, {Q}, 0) == is_live_of({Q}) and val(riter, {Q}, 1) == ops_of({Q}) and ops_of({Q}) >= 0".format(Q=Q), 1)

contract("toasty.pyramid.Pyramid.count_leaf_tiles")(lambda c: c.ensures(
    "result == ite(self._tile_filter is None, pow2(2 * (self.depth - self._apex.n)), ite(in_iter(self._apex), leaves_of(self._apex), 0))",
    name="number_of_delivered_leaves_below_the_apex"))
contract("toasty.pyramid.Pyramid.count_live_tiles")(lambda c: c.ensures(
    "result == ite(self._tile_filter is None, T(self.depth - self._apex.n), ite(in_iter(self._apex), live_of(self._apex), 0))",
    name="number_of_live_tiles_below_the_apex"))
contract("toasty.pyramid.Pyramid.count_operations")(lambda c: c.ensures(
    "result == ite(self._tile_filter is None, T(self.depth - self._apex.n - 1), ite(in_iter(self._apex), ops_of(self._apex), 0))",
    name="number_of_live_non_leaf_tiles_below_the_apex"))


@lemma("ops_plus_leaves_equals_live")
def _(L):
    """One step of the induction over the recursive specs: if Ops + Leaves = LiveN and (IsLive <=> Leaves > 0)
    and all three are >= 0 and a dead tile needs no operation, at the four children, the same holds at the parent."""
    leaf = z3.Bool("leaf")
    ini = [z3.Bool("in%d" % i) for i in range(4)]
    le = [z3.Int("le%d" % i) for i in range(4)]
    lv = [z3.Int("lv%d" % i) for i in range(4)]
    op = [z3.Int("op%d" % i) for i in range(4)]
    il = [z3.Bool("il%d" % i) for i in range(4)]
    hyp = z3.And(*[z3.Implies(ini[i], z3.And(op[i] + le[i] == lv[i], il[i] == (le[i] > 0), le[i] >= 0, op[i] >= 0, lv[i] >= 0,
                                            z3.Or(il[i], op[i] == 0))) for i in range(4)])
    sl = z3.Sum([z3.If(ini[i], le[i], 0) for i in range(4)])
    sv = z3.Sum([z3.If(ini[i], lv[i], 0) for i in range(4)])
    so = z3.Sum([z3.If(ini[i], op[i], 0) for i in range(4)])
    anyl = z3.Or(*[z3.And(ini[i], il[i]) for i in range(4)])
    Lp = z3.If(leaf, 1, sl)
    Vp = z3.If(leaf, 1, z3.If(sv > 0, sv + 1, 0))
    Ip = z3.If(leaf, z3.BoolVal(True), anyl)
    Op = z3.If(leaf, 0, z3.If(anyl, so + 1, so))
    L.prove("step", z3.Implies(hyp, z3.And(Op + Lp == Vp, Ip == (Lp > 0), Lp >= 0, Op >= 0, Vp >= 0, z3.Or(Ip, Op == 0))))
