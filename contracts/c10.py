"""C10 — Concurrent updates of one tile never lose a contribution."""
PROPERTY = "C10"
LEVEL = "other"
CONTRACT_MODULES = ['contracts.specfuns', 'contracts.lemmas_desc', 'contracts.pyramid', 'contracts.image', 'contracts.merge', 'contracts.pyramidio', 'contracts.pioinit', 'contracts.study', 'contracts.paths', 'contracts.parallel', 'contracts.multitan', 'contracts.toastsample', 'contracts.datarange', 'contracts.builderc', 'contracts.walk', 'contracts.reducer', 'contracts.lemmas_embed', 'contracts.generator', 'contracts.toastgeom', 'contracts.toastgen', 'contracts.multiwcs']
FUNCTIONS = ['toasty.pyramid.PyramidIO.update_image', 'toasty.pyramid.PyramidIO.__init__', 'toasty.multi_tan._mp_tile_worker', 'toasty.multi_tan.MultiTanProcessor._tile_serial', 'toasty.toast.ToastSampler.visit_callback']
LEMMAS = []
SLOW = ()
TRUSTED_BASE = ["pyvc VC generator; z3/cvc5",
                "SoftFileLock(path): mutual exclusion per path across processes, released on exit (normal or exceptional)"]
ASSUMPTIONS = ["from the locking discipline proved here and the lock contract, critical sections on one tile are totally "
               "ordered and each reads its predecessor's file; real interleavings are exercised by the bounded tier only"]
EXPLANATION = "update_image holds one lock, keyed by the tile only, from before the read until after the write; released without writing if the body raises"
