"""C19 (and every stage that wraps its loop in it): toasty.progress.progress_bar is TRANSPARENT for exceptions.

All stage contracts treat ``with progress_bar(...) as progress:`` as a no-op (listed under "extraction drops").  That is
an assumption about this function; it is discharged here against the real generator: whatever happens in the body of
the ``with`` — normal completion or an exception — is what the caller sees (an exception raised in the body propagates,
it is never swallowed or replaced), for shown and hidden bars, terminal-like and log-like output."""
import z3

from pyvc.contracts_api import contract
from pyvc.core import fresh_name
from pyvc.values import Opaque
from pyvc.externals import NoopCM


def install_externals(X):
    @X.register("tqdm.tqdm")
    def _(interp, args, kwargs):
        interp.note_assumption("tqdm(...) used as a context manager neither raises nor swallows exceptions of its body")
        return NoopCM(Opaque("progress", fresh_name("tqdm")))

    @X.register("sys.stdout.isatty")
    def _(interp, args, kwargs):
        return z3.Bool(fresh_name("isatty"))

    class EnvPlugin(object):
        def contains(self, interp, container, x):
            from pyvc.values import Ext
            if isinstance(container, Ext) and container.name == "os.environ":
                return z3.Bool(fresh_name("in_environ"))
            return None
    X.plugins.insert(0, EnvPlugin())


def pb_setup(interp, path):
    return {"total": z3.Int(fresh_name("total")), "show": z3.Bool(fresh_name("show"))}


def pb_trace(m, path, fr, env, outcome, value, exc):
    raised_in_body = any(e[0] == "with_body_raised" for e in path.events)
    yields = [e for e in path.events if e[0] == "yield"]
    if outcome == "ended":
        return
    path.oblige(m.oblname("yields_exactly_once"), z3.BoolVal(len(yields) == 1), kind="trace", assume_after=False)
    if raised_in_body:
        ok = outcome == "raise" and exc is not None and exc.etype == "BodyError"
        path.oblige(m.oblname("an_exception_raised_in_the_body_propagates_unchanged"), z3.BoolVal(bool(ok)), kind="trace", assume_after=False)
    else:
        path.oblige(m.oblname("normal_completion_of_the_body_returns_normally"), z3.BoolVal(outcome == "return"), kind="trace", assume_after=False)


@contract("toasty.progress.progress_bar")
def _(c):
    c.setup(pb_setup)
    c.yields("opaque:progress")
    c.may_raise("=BodyError", "the exception of the with-body, re-raised")
    c.on_path(pb_trace)
