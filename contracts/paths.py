"""Contracts for tile naming (C17): the path built for a position equals the WTML template expanded
with (level, x, y); distinct positions give distinct paths; ImageSet url/file_type data flow."""
import z3

from pyvc.contracts_api import contract, lemma
from pyvc.core import OutOfSubset, z3num, fresh_name
from pyvc import ops
from pyvc.values import Inst, NTuple, StrSeq, Tok, Ext, Opaque, BoundMethod
from . import pyramidio as _p  # noqa: F401

SEPARATORS = ["/", "_", "X", "Y", "."]

SEP_LEMMA = """(set-logic QF_SLIA)
(declare-const d String) (declare-const d2 String) (declare-const r String) (declare-const r2 String)
(define-fun dig ((s String)) Bool (str.in_re s (re.+ (re.range "0" "9"))))
(assert (and (dig d) (dig d2)))
(assert (= (str.++ d "%s" r) (str.++ d2 "%s" r2)))
(assert (not (and (= d d2) (= r r2))))
(check-sat)
"""


@lemma("digits_then_separator_parse_uniquely")
def _(L):
    """d ++ sep ++ r == d' ++ sep ++ r'  with d, d' non-empty digit strings and sep a non-digit
    implies d == d' and r == r' (one instance per separator used by the two naming schemes)."""
    for sep in SEPARATORS:
        L.prove_raw("sep_%s" % {"/": "slash", "_": "underscore", ".": "dot"}.get(sep, sep), SEP_LEMMA % (sep, sep))


for _qn in ("toasty.pyramid.PyramidIO.__init__", "toasty.pyramid.PyramidIO._tile_path_LsYsYX", "toasty.pyramid.PyramidIO._tile_path_LXY",
            "toasty.pyramid.PyramidIO.get_path_scheme", "toasty.pyramid.PyramidIO.get_default_format"):
    contract(_qn)(lambda c: c.inline())

PATH_CASES = [{"scheme": s, "format": f, "makedirs": mk} for s in ("L/Y/YX", "LXY") for f in (None, "tok") for mk in (True, False)]


def tile_path_setup(interp, path):
    case = interp._case
    base = StrSeq([Tok("base_dir", "path")])
    dflt = StrSeq([Tok("default_format", "format")])
    pio = interp.construct(Ext("class:toasty.pyramid.PyramidIO"), [base], {"scheme": case["scheme"], "default_format": dflt})
    pos = NTuple("Pos", ("n", "x", "y"), [z3.Int(fresh_name("pos." + f)) for f in "nxy"])
    fmt = StrSeq([Tok("format", "format")]) if case["format"] else None
    return {"self": pio, "pos": pos, "format": fmt, "makedirs": case["makedirs"]}


def expand_template(template, n, x, y):
    """WTML semantics of a tile URL template: {1} = level, {2} = x, {3} = y (decimal)."""
    parts, i = [], 0
    while i < len(template):
        if template[i] == "{" and template[i + 2:i + 3] == "}" and template[i + 1] in "123":
            parts.append({"1": n, "2": x, "3": y}[template[i + 1]])
            i += 3
        else:
            parts.append(template[i])
            i += 1
    return parts


def tile_path_trace(m, path, fr, env, outcome, value, exc):
    case = m._case
    ok = outcome == "return" and isinstance(value, (str, StrSeq))
    path.oblige(m.oblname("returns_a_path"), z3.BoolVal(bool(ok)), kind="trace", assume_after=False)
    if not ok:
        return
    pio, pos = fr.entry_env.lookup("self"), fr.entry_env.lookup("pos")
    n, x, y = [m.to_str(v) for v in pos.vals]
    scheme = m.call_function(m.getattr(pio, "get_path_scheme").func, [pio], {})
    fmt = fr.entry_env.lookup("format") or pio.fields["_default_format"]
    want = m.mk_str([pio.fields["_base_dir"], "/"] + expand_template(scheme, n, x, y) + [".", fmt])
    same = (StrSeq([value]) if isinstance(value, str) else value).parts == (StrSeq([want]) if isinstance(want, str) else want).parts
    path.oblige(m.oblname("path_is_the_url_template_expanded_with_level_x_y"), z3.BoolVal(bool(same)), kind="trace", assume_after=False)
    # injectivity: every digit token (level, x, y) is followed by a non-digit literal, and each of the three
    # occurs -> by the separator lemma equal paths have equal (n, x, y)
    parts = list((StrSeq([value]) if isinstance(value, str) else value).parts)
    rel = parts[1:]   # drop the base directory token
    seen = set()
    shape_ok = True
    for i, p in enumerate(rel):
        if isinstance(p, Tok) and p.klass == "digits":
            seen.add(p.name)
            nxt = rel[i + 1] if i + 1 < len(rel) else None
            if not (isinstance(nxt, str) and nxt and nxt[0] in SEPARATORS):
                shape_ok = False
    digits = {t.parts[0].name for t in (n, x, y)}
    shape_ok = shape_ok and seen == digits and isinstance(rel[0], (str, Tok))
    path.oblige(m.oblname("distinct_positions_give_distinct_paths_by_unique_parsing"), z3.BoolVal(bool(shape_ok)), kind="trace", assume_after=False)
    mk = [e for e in path.events if e[0] == "makedirs"]
    path.oblige(m.oblname("directories_created_only_on_request"), z3.BoolVal((len(mk) == 1) == bool(case["makedirs"])), kind="trace", assume_after=False)


_tp = contract("toasty.pyramid.PyramidIO.tile_path")


@_tp
def _(c):
    c.cases(*PATH_CASES)
    c.setup(tile_path_setup)
    c.on_path(tile_path_trace)


# ---- the ImageSet fields that must agree with the files: url, file_type, tile_levels ----

def install_externals(X):
    @X.register("wwt_data_formats.imageset.ImageSet")
    def _(interp, args, kwargs):
        o = Opaque("imageset", fresh_name("imgset"))
        o.attrs["center_x"] = 0
        o.attrs["center_y"] = 0
        return o

    @X.register("wwt_data_formats.place.Place")
    def _(interp, args, kwargs):
        return Opaque("place", fresh_name("place"))

    for name in ("wwt_data_formats.enums.ProjectionType", "wwt_data_formats.enums.DataSetType"):
        pass


def builder_init_setup(interp, path):
    pio = interp.construct(Ext("class:toasty.pyramid.PyramidIO"), [StrSeq([Tok("base_dir", "path")])],
                           {"scheme": interp._case["scheme"], "default_format": StrSeq([Tok("default_format", "format")])})
    return {"self": Inst("Builder", module="toasty.builder"), "pio": pio}


def builder_init_trace(m, path, fr, env, outcome, value, exc):
    me = env.lookup("self")
    ok = outcome == "return" and isinstance(me.fields.get("imgset"), Opaque)
    path.oblige(m.oblname("creates_an_imageset"), z3.BoolVal(bool(ok)), kind="trace", assume_after=False)
    if not ok:
        return
    pio = fr.entry_env.lookup("pio")
    imgset = me.fields["imgset"]
    scheme = {"L/Y/YX": "{1}/{3}/{3}_{2}", "LXY": "L{1}X{2}Y{3}"}[m._case["scheme"]]   # documented WTML templates of the two schemes
    fmt = pio.fields["_default_format"]
    want_ft = m.mk_str([".", fmt])
    want_url = m.mk_str([scheme, ".", fmt])
    same = lambda a, b: (StrSeq([a]) if isinstance(a, str) else a).parts == (StrSeq([b]) if isinstance(b, str) else b).parts
    path.oblige(m.oblname("file_type_is_dot_plus_the_tile_extension"), z3.BoolVal(bool(same(imgset.attrs.get("file_type"), want_ft))), kind="trace", assume_after=False)
    path.oblige(m.oblname("url_is_the_scheme_template_plus_the_extension"), z3.BoolVal(bool(same(imgset.attrs.get("url"), want_url))), kind="trace", assume_after=False)
    path.oblige(m.oblname("keeps_the_pyramid_io"), z3.BoolVal(me.fields.get("pio") is pio or getattr(me.fields.get("pio"), "fields", None) == pio.fields), kind="trace", assume_after=False)


_bi = contract("toasty.builder.Builder.__init__")


@_bi
def _(c):
    c.cases({"scheme": "L/Y/YX"}, {"scheme": "LXY"})
    c.setup(builder_init_setup)
    c.on_path(builder_init_trace)


def apply_setup(interp, path):
    from .study import _fresh_tiling
    return {"self": _fresh_tiling(interp, "self"), "imgset": Opaque("imageset", fresh_name("imgset"))}


def apply_trace(m, path, fr, env, outcome, value, exc):
    imgset = env.lookup("imgset")
    me = fr.entry_env.lookup("self")
    g = ops.equals(m, imgset.attrs.get("tile_levels"), me.fields["_tile_levels"]) if outcome == "return" and "tile_levels" in imgset.attrs else False
    path.oblige(m.oblname("tile_levels_is_the_level_of_the_deepest_written_layer"), g if not isinstance(g, bool) else z3.BoolVal(g), kind="trace", assume_after=False)


_ai = contract("toasty.study.StudyTiling.apply_to_imageset")


@_ai
def _(c):
    c.setup(apply_setup)
    c.on_path(apply_trace)
