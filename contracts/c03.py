"""C03 — Parallel stages hand every work item to exactly one worker and then terminate."""
PROPERTY = "C03"
LEVEL = "other"
CONTRACT_MODULES = ["contracts.specfuns", "contracts.lemmas_desc", "contracts.pyramid", "contracts.parallel", "contracts.walk", "contracts.reducer"]
FUNCTIONS = [
    "toasty.pyramid.Pyramid.visit_leaves",
    "toasty.pyramid.Pyramid._visit_leaves_serial",
    "toasty.pyramid.Pyramid._visit_leaves_parallel",
    "toasty.pyramid._mp_visit_worker",
    "toasty.transform._do_a_transform",
    "toasty.transform._transform_parallel",
    "toasty.transform._transform_mp_worker",
]
LEMMAS = []
SLOW = ()
TRUSTED_BASE = ["pyvc VC generator; z3/cvc5", "multiprocessing Queue/Event/Process contracts of DESIGN.md 3.4 (rely conditions)"]
ASSUMPTIONS = ["no scheduler fairness and no termination is assumed or proved (liveness is outside this technique)",
               "multi_tan / multi_wcs tiling workers are covered by the bounded tier only (their bodies need the array model)"]
EXPLANATION = ("producer traces (one put per serial item, of that very item, from the same enumeration; close, flush, flag, join) "
               "and worker guarantees (one callback per item, exit only on time-out with the flag set) proved under the queue contract")
