"""C03 — Parallel stages hand every work item to exactly one worker and then terminate."""
PROPERTY = "C03"
LEVEL = "other"
CONTRACT_MODULES = ['contracts.specfuns', 'contracts.lemmas_desc', 'contracts.pyramid', 'contracts.parallel', 'contracts.walk', 'contracts.reducer', 'contracts.lemmas_embed', 'contracts.generator', 'contracts.image', 'contracts.merge', 'contracts.pyramidio', 'contracts.study', 'contracts.multitan', 'contracts.multiwcs', 'contracts.toastsample', 'contracts.toastgeom', 'contracts.toastgen', 'contracts.progressc', 'contracts.paths', 'contracts.datarange', 'contracts.builderc']
FUNCTIONS = ['toasty.pyramid.Pyramid.visit_leaves', 'toasty.pyramid.Pyramid._visit_leaves_serial', 'toasty.pyramid.Pyramid._visit_leaves_parallel', 'toasty.pyramid._mp_visit_worker', 'toasty.transform._do_a_transform', 'toasty.transform._transform_parallel', 'toasty.transform._transform_mp_worker', 'toasty.multi_tan.MultiTanProcessor._tile_parallel', 'toasty.multi_wcs.MultiWcsProcessor._tile_parallel', 'toasty.multi_wcs._mp_tile_worker', 'toasty.pyramid.Pyramid._generator', 'toasty.multi_tan._mp_tile_worker', 'toasty.progress.progress_bar', 'toasty.toast.sample_layer', 'toasty.toast.sample_layer_filtered']
LEMMAS = []
SLOW = ()
TRUSTED_BASE = ["pyvc VC generator; z3/cvc5", "multiprocessing Queue/Event/Process contracts of DESIGN.md 3.4 (rely conditions)"]
ASSUMPTIONS = ["no scheduler fairness and no termination is assumed or proved (liveness is outside this technique)",
               "the multi_tan worker guarantee is proved under C09 (contracts/multitan.py); the multi_wcs worker body (external reprojection) is covered by the bounded tier only"]
EXPLANATION = ("producer traces of all five stages (one put per serial item, of that very item, from the same enumeration; right "
               "worker target and arguments; close, flush, flag, join) and worker guarantees (one processing per item, exit only on a "
               "time-out whose flag read preceded the receive) proved under the queue contract")
