"""C17 — The WTML and the returned data-set description match the files on disk."""
PROPERTY = "C17"
LEVEL = "other"
CONTRACT_MODULES = ["contracts.specfuns", "contracts.lemmas_desc", "contracts.pyramid", "contracts.image", "contracts.merge", "contracts.pyramidio", "contracts.study", "contracts.paths", "contracts.reuse", "contracts.fitstiler", "contracts.parallel", "contracts.multitan", "contracts.toastsample", "contracts.datarange", "contracts.builderc", "contracts.walk", "contracts.reducer", "contracts.lemmas_embed", "contracts.generator", "contracts.toastgeom", "contracts.toastgen", "contracts.multiwcs"]
FUNCTIONS = ['toasty.pyramid.PyramidIO.tile_path', 'toasty.builder.Builder.__init__', 'toasty.study.StudyTiling.apply_to_imageset', 'toasty.fits_tiler.FitsTiler._load_index_wtml_into_builder', 'toasty.fits_tiler.FitsTiler._tile_toast', 'toasty.builder.Builder.toast_base', 'toasty.builder.Builder.cascade', 'toasty.study.StudyTiling.tile_image']
LEMMAS = ["digits_then_separator_parse_uniquely"]
SLOW = ()
TRUSTED_BASE = ["pyvc VC generator; z3/cvc5 (cvc5 --strings-exp for the string lemma)",
                "WTML template semantics: {1} level, {2} x, {3} y in decimal; str() of a non-negative int is its decimal "
                "representation (digits only, injective); os.path.join joins with '/'"]
ASSUMPTIONS = ["the history part (reuse of an output directory) and the written XML are covered by the bounded tier"]
EXPLANATION = ("path = template expansion for both naming schemes and unique parsing (injectivity); recorded levels / file type / url "
               "data flow through Builder and StudyTiling; reuse of an output directory adopts the first recorded image set; TOAST "
               "auto-tiling samples every image into the one recorded base level; other workflows and real XML are bounded")
