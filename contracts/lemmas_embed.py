"""Lemma-backed instance facts about the sub-pyramid embedding
    E_a(p) = (p.n + a.n, p.x + a.x * 2^p.n, p.y + a.y * 2^p.n)
and about ancestors by shifting (C13, Pyramid._generator).

Each FACT builder returns a formula over the OPAQUE predicate Desc (contracts/specfuns.py) that the function
proof adds, instantiated at its skolem terms, as a hypothesis.  The lemma of the same name proves the formula
for ALL integer arguments with Desc replaced by its arithmetic definition desc6 — the same convention as for
the six axioms of the Desc theory.  Where a power of two of a sum is split, the instance of lemma pow2_add
(contracts/lemmas_desc.py) is a stated hypothesis of the lemma."""
import z3

from pyvc.contracts_api import lemma
from pyvc.ops import pow2, simp
from .specfuns import Desc, desc6


def embed(a, p):
    an, ax, ay = a
    pn, px, py = p
    return (simp(pn + an), simp(px + ax * pow2(pn)), simp(py + ay * pow2(pn)))


def anc(a, l):
    an, ax, ay = a
    return (l, ax / pow2(simp(an - l)), ay / pow2(simp(an - l)))


def _valid(p):
    pn, px, py = p
    return z3.And(pn >= 0, 0 <= px, px < pow2(pn), 0 <= py, py < pow2(pn))


def _statement_embed_desc(D, a, pi, pj):
    g = z3.And(pi[0] >= 0, pj[0] >= 0, a[1] >= 0, a[2] >= 0)
    return z3.Implies(g, D(*embed(a, pj), *embed(a, pi)) == D(*pj, *pi))


def _statement_embed_below(D, a, p):
    return z3.Implies(z3.And(_valid(p), a[1] >= 0, a[2] >= 0), D(*embed(a, p), *a))


def _statement_embed_valid(a, p):
    e = embed(a, p)
    return z3.Implies(z3.And(_valid(p), _valid(a)), _valid(e))


def _statement_anc_above(D, a, l):
    return z3.Implies(z3.And(0 <= l, l <= a[0], a[1] >= 0, a[2] >= 0), D(*a, *anc(a, l)))


def _statement_anc_valid(a, l):
    return z3.Implies(z3.And(0 <= l, l <= a[0], _valid(a)), _valid(anc(a, l)))


def _statement_embed_injective(a, p, q):
    e, f = embed(a, p), embed(a, q)
    return z3.Implies(z3.And(e[0] == f[0], e[1] == f[1], e[2] == f[2]), z3.And(p[0] == q[0], p[1] == q[1], p[2] == q[2]))


def embed_injective_fact(a, p, q):
    return _statement_embed_injective(a, p, q)


# ---- instance facts (opaque Desc)
def embed_desc_fact(a, pi, pj):
    return _statement_embed_desc(Desc, a, pi, pj)


def embed_below_fact(a, p):
    return _statement_embed_below(Desc, a, p)


def embed_valid_fact(a, p):
    return _statement_embed_valid(a, p)


def anc_above_fact(a, l):
    return _statement_anc_above(Desc, a, l)


def anc_valid_fact(a, l):
    return _statement_anc_valid(a, l)


# ---- the lemmas (arithmetic definition of Desc)
def _vars():
    return z3.Ints("an ax ay in_ ix iy jn jx jy l")


@lemma("embed_preserves_desc")
def _(L):
    an, ax, ay, in_, ix, iy, jn, jx, jy, l = _vars()
    a, pi, pj = (an, ax, ay), (in_, ix, iy), (jn, jx, jy)
    # instance of pow2_add at (in_, jn - in_), used when jn >= in_
    L.assume(z3.Implies(jn >= in_, z3.And(pow2(jn) == pow2(in_) * pow2(jn - in_), pow2(in_) >= 1, pow2(jn - in_) >= 1)))
    L.prove("E1", _statement_embed_desc(desc6, a, pi, pj))


@lemma("embed_below_apex")
def _(L):
    an, ax, ay, in_, ix, iy, jn, jx, jy, l = _vars()
    L.assume(pow2(in_) >= 1)
    L.prove("E2", _statement_embed_below(desc6, (an, ax, ay), (in_, ix, iy)))


@lemma("embed_valid")
def _(L):
    an, ax, ay, in_, ix, iy, jn, jx, jy, l = _vars()
    L.assume(z3.Implies(z3.And(in_ >= 0, an >= 0), z3.And(pow2(in_ + an) == pow2(in_) * pow2(an), pow2(in_) >= 1, pow2(an) >= 1)))
    L.prove("E3", _statement_embed_valid((an, ax, ay), (in_, ix, iy)))


@lemma("anc_above_apex")
def _(L):
    an, ax, ay, in_, ix, iy, jn, jx, jy, l = _vars()
    L.assume(z3.Implies(an - l >= 0, pow2(an - l) >= 1))
    L.prove("A1", _statement_anc_above(desc6, (an, ax, ay), l))


@lemma("anc_valid")
def _(L):
    an, ax, ay, in_, ix, iy, jn, jx, jy, l = _vars()
    L.assume(z3.Implies(z3.And(l >= 0, an - l >= 0), z3.And(pow2(an) == pow2(an - l) * pow2(l), pow2(an - l) >= 1, pow2(l) >= 1)))
    L.prove("A2", _statement_anc_valid((an, ax, ay), l))


@lemma("embed_injective")
def _(L):
    an, ax, ay, in_, ix, iy, jn, jx, jy, l = _vars()
    L.prove("E4", _statement_embed_injective((an, ax, ay), (in_, ix, iy), (jn, jx, jy)))
