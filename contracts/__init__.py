"""Sidecar contracts for WorldWideTelescope/toasty, keyed by qualified function name."""
