"""Contracts for toasty/pipeline (C18): publish is crash-safe."""
import z3

from pyvc.contracts_api import contract
from pyvc.core import PyRaise, OutOfSubset, z3num, fresh_name
from pyvc import ops
from pyvc.values import Opaque, StrSeq, StrId, Tok


def install_externals(X):
    @X.register_opaque("pipeio", "put_item")
    def _(interp, obj, args, kwargs):
        # assumed contract of a PipelineIo store: a transfer may fail at any point and then raises;
        # when it returns, the item named by the path components is completely stored
        interp.note_assumption("PipelineIo.put_item either stores the complete item or raises")
        interp.path.event("put_start", args, kwargs.get("source"))
        if interp.path.nondet("put_fails"):
            raise PyRaise("OSError", origin="put_item failed (assumed contract: may fail)")
        interp.path.event("put_done", args, kwargs.get("source"))
        return None

    @X.register_opaque("pipeio", "check_exists")
    def _(interp, obj, args, kwargs):
        b = z3.Bool(fresh_name("exists"))
        interp.path.event("check_exists", args, b)
        return b


@contract("toasty.pipeline.PipelineManager._path")
def _(c):
    c.inline()


@contract("toasty.pipeline.PipelineManager._ensure_dir")
def _(c):
    c.inline()


def _ident(v):
    t = ops.str_ident(v)
    if t is None:
        raise OutOfSubset("no identity for %r" % (v,))
    return t


def publish_trace(m, path, fr, env, outcome, value, exc):
    ev = path.events
    INDEX = ops.strlit("index.wtml")
    listdirs = [e for e in ev if e[0] == "listdir"]
    # -- (1) the transfer list: index.wtml last, same files as listed
    for e in ev:
        if e[0] == "loop_summary" and e[1] == 1 or (e[0] == "loop_iter" and e[1] == 1):
            it = e[2] if e[0] == "loop_summary" else e[3]
            L = listdirs[-1][2] if listdirs else None
            k = z3.Int(fresh_name("k"))
            j = z3.Int(fresh_name("j"))
            sel = lambda s, i: _ident(s.at(i))
            path.oblige(m.oblname("transfer_list/index_wtml_only_last"),
                        z3.ForAll([k], z3.Implies(z3.And(k >= 0, k < it.length, sel(it, k) == INDEX), k == it.length - 1)),
                        kind="trace", assume_after=False)
            if L is not None:
                path.oblige(m.oblname("transfer_list/same_length_as_listing"), ops.equals(m, it.length, L.length),
                            kind="trace", assume_after=False)
                path.oblige(m.oblname("transfer_list/every_listed_file_is_transferred"),
                            z3.ForAll([k], z3.Implies(z3.And(k >= 0, k < L.length),
                                                      z3.Exists([j], z3.And(j >= 0, j < it.length, sel(it, j) == sel(L, k))))),
                            kind="trace", assume_after=False)
            break
    # -- (2) one completed transfer per completed iteration, of that very file, from that very path
    starts = [i for i, e in enumerate(ev) if e[0] == "loop_iter" and e[1] == 1]
    for si in starts:
        k, it = ev[si][2], ev[si][3]
        ends = [i for i in range(si, len(ev)) if ev[i][0] == "loop_iter_end" and ev[i][1] == 1]
        if not ends:
            continue  # iteration left by an exception: nothing claimed
        seg = ev[si:ends[0]]
        puts = [e for e in seg if e[0] == "put_done"]
        opens = [e for e in seg if e[0] == "enter" and e[1] == "open"]
        ok_shape = len(puts) == 1 and len([e for e in seg if e[0] == "put_start"]) == 1 and len(opens) == 1
        path.oblige(m.oblname("transfer/exactly_one_completed_put_per_file"), z3.BoolVal(ok_shape), kind="trace", assume_after=False)
        if ok_shape:
            args, src = puts[0][1], puts[0][2]
            outer = [e for e in ev[:si] if e[0] == "loop_iter" and e[1] == 0]
            uniq = outer[-1][3].at(outer[-1][2]) if outer else None
            good = len(args) == 2 and uniq is not None
            goal = z3.BoolVal(False)
            if good:
                goal = z3.And(_ident(args[0]) == _ident(uniq), _ident(args[1]) == _ident(it.at(k)))
            path.oblige(m.oblname("transfer/put_names_image_and_file"), goal, kind="trace", assume_after=False)
            # the source is the file opened (for reading) at <approved>/<uniq_id>/<filename>
            f = opens[0]
            fobj = src
            same = isinstance(fobj, Opaque) and fobj.attrs.get("path") is f[2]
            mode_ok = isinstance(fobj, Opaque) and fobj.attrs.get("mode") == "rb"
            p = f[2]
            tail_ok = False
            if isinstance(p, StrSeq) and len(p.parts) >= 4:
                a, b, c_, d = p.parts[-4:]
                tail_ok = (isinstance(a, str) and a.endswith("approved/") and isinstance(b, Tok) and b.klass == "strid"
                           and c_ == "/" and isinstance(d, Tok) and d.klass == "strid")
                if tail_ok:
                    path.oblige(m.oblname("transfer/source_is_the_approved_file"),
                                z3.And(b.src == _ident(uniq), d.src == _ident(it.at(k))), kind="trace", assume_after=False)
            path.oblige(m.oblname("transfer/source_opened_for_reading_under_approved"),
                        z3.BoolVal(bool(same and mode_ok and tail_ok)), kind="trace", assume_after=False)
    # -- (3) the move to published/ happens only after the whole transfer loop completed normally
    for i, e in enumerate(ev):
        if e[0] != "rename":
            continue
        before = ev[:i]
        last_outer = max([n for n, x in enumerate(before) if x[0] == "loop_iter" and x[1] == 0] or [-1])
        after_outer = before[last_outer + 1:]
        done_all = any(x[0] == "loop_summary" and x[1] == 1 for x in after_outer)
        no_partial = not any(x[0] == "loop_iter" and x[1] == 1 for x in after_outer)
        path.oblige(m.oblname("move_to_published/only_after_all_transfers"), z3.BoolVal(bool(done_all and no_partial and last_outer >= 0)),
                    kind="trace", assume_after=False)
        src, dst = e[1], e[2]
        shape = (isinstance(src, StrSeq) and isinstance(dst, StrSeq) and isinstance(src.parts[-1], Tok)
                 and isinstance(dst.parts[-1], Tok) and src.parts[-1] == dst.parts[-1]
                 and isinstance(src.parts[-2], str) and src.parts[-2].endswith("/approved/")
                 and isinstance(dst.parts[-2], str) and dst.parts[-2].endswith("/published/"))
        path.oblige(m.oblname("move_to_published/approved_to_published_same_id"), z3.BoolVal(bool(shape)), kind="trace", assume_after=False)
    # -- (4) a path that completed an outer iteration must have moved the image
    for i, e in enumerate(ev):
        if e[0] == "loop_iter_end" and e[1] == 0:
            seg_start = max(n for n, x in enumerate(ev[:i]) if x[0] == "loop_iter" and x[1] == 0)
            has = any(x[0] == "rename" for x in ev[seg_start:i])
            path.oblige(m.oblname("move_to_published/happens_when_all_transfers_succeeded"), z3.BoolVal(has), kind="trace", assume_after=False)


@contract("toasty.pipeline.PipelineManager.publish")
def _(c):
    c.self_type("PipelineManager", _workdir="tok:path", _pipeio="opaque:pipeio")
    c.loop(0, summarise="stateless")     # for uniq_id in os.listdir(todo_dir)
    c.loop(1, summarise="stateless")     # for filename in filenames
    c.may_raise("OSError", "a failed open/transfer propagates to the caller (never swallowed)")
    c.on_path(publish_trace)


def put_item_trace(m, path, fr, env, outcome, value, exc):
    """LocalPipelineIo.put_item writes exactly one file, named prefix/<components...>, and only
    reports success (returns) after the copy completed."""
    ev = path.events
    opens = [e for e in ev if e[0] == "open_start"]
    pth = fr.entry_env.lookup("path")
    prefix = fr.entry_env.lookup("self").fields["_path_prefix"]
    want = m.mk_str([m.to_str(prefix)] + [x for comp in pth for x in ("/", m.to_str(comp))])
    ok_one = len(opens) <= 1
    path.oblige(m.oblname("writes_at_most_one_file"), z3.BoolVal(ok_one), kind="trace", assume_after=False)
    for e in opens:
        same = isinstance(e[1], (str, StrSeq)) and ops.equals(m, e[1], want) is True and e[2] == "wb"
        path.oblige(m.oblname("writes_only_the_named_item"), z3.BoolVal(bool(same)), kind="trace", assume_after=False)
    if outcome == "return":
        done = [e for e in ev if e[0] == "copy_done"]
        good = len(done) == 1 and len(opens) == 1 and done[0][1] is fr.entry_env.lookup("source")
        path.oblige(m.oblname("returns_only_after_complete_copy_of_source"), z3.BoolVal(bool(good)), kind="trace", assume_after=False)


@contract("toasty.pipeline.local_io.LocalPipelineIo._make_item_name")
def _(c):
    c.inline()


@contract("toasty.pipeline.local_io.LocalPipelineIo.put_item")
def _(c):
    c.self_type("LocalPipelineIo", _path_prefix="tok:path")
    c.cases({"path": ("type:tok:name", "type:tok:name")}, {"path": ("type:tok:name",)})
    c.args(source="opaque:file")
    c.may_raise("OSError", "I/O failures propagate")
    c.on_path(put_item_trace)


# ---- refresh: a candidate is treated as "already done" exactly when ITS index.wtml is in the store ---------------
# (with publish's "index.wtml last" this gives: no partially published image is ever skipped)

def _mgr_init_model(interp, env):
    me = env.lookup("self")
    me.fields["_workdir"] = env.lookup("workdir")
    me.fields["_pipeio"] = Opaque("pipeio", "store")
    return None


contract("toasty.pipeline.PipelineManager.__init__")(lambda c: c.model(_mgr_init_model))
contract("toasty.pipeline.PipelineManager.get_image_source")(
    lambda c: c.model(lambda interp, env: Opaque("image_source", "image_source")))


class RefreshPlugin(object):
    def arbitrary_item(self, interp, it, label):
        if isinstance(it, Opaque) and it.kind == "candidates":
            k = z3.Int(fresh_name(label + "_k"))
            cand = Opaque("candidate", fresh_name("candidate"))
            cand.attrs["_g_idx"] = k
            return cand, True, k
        return None


def install_externals_refresh(X):
    X.plugins.insert(0, RefreshPlugin())

    @X.register_opaque("image_source", "query_candidates")
    def _(interp, src, args, kwargs):
        return Opaque("candidates", fresh_name("candidates"))

    @X.register_opaque("candidate", "get_unique_id")
    def _(interp, cand, args, kwargs):
        return StrSeq([Tok("uniq_id[%s]" % (cand.attrs["_g_idx"],), "name")])

    @X.register_opaque("candidate", "save")
    def _(interp, cand, args, kwargs):
        interp.path.event("candidate_save", cand)
        if interp.path.nondet("candidate_not_actionable"):
            raise PyRaise("NotActionableError", origin="the candidate turned out to be unusable")
        return None


_prev_install = install_externals


def install_externals(X):    # noqa: F811  (extends the installer above)
    _prev_install(X)
    install_externals_refresh(X)


def refresh_setup(interp, path):
    from pyvc.values import Inst
    settings = Inst("Settings", module="argparse", fields={"workdir": StrSeq([Tok("workdir", "path")])})
    return {"settings": settings}


def refresh_trace(m, path, fr, env, outcome, value, exc):
    ev = path.events
    for si in [i for i, e in enumerate(ev) if e[0] == "loop_iter" and e[1] == 0]:
        seg = ev[si + 1:]
        if not any(e[0] == "loop_iter_end" and e[1] == 0 for e in seg):
            continue
        checks = [e for e in seg if e[0] == "check_exists"]
        saves = [e for e in seg if e[0] == "candidate_save"]
        cand = fr.last_loop_item.get(0)
        path.oblige(m.oblname("at_most_one_fetch_per_candidate"), z3.BoolVal(len(saves) <= 1), kind="trace", assume_after=False)
        name = m.oblname("done_iff_this_candidates_index_wtml_is_in_the_store")
        ok = bool(checks) and len(checks[0][1]) == 2
        if ok:
            a0, a1 = checks[0][1]
            ok = (isinstance(a0, StrSeq) and len(a0.parts) == 1 and isinstance(a0.parts[0], Tok)
                  and a0.parts[0].name == "uniq_id[%s]" % (cand.attrs["_g_idx"],)
                  and ((isinstance(a1, str) and a1 == "index.wtml") or (isinstance(a1, StrSeq) and a1.is_literal() and a1.literal() == "index.wtml")))
        if not ok:
            path.oblige(name, z3.BoolVal(False), kind="trace", assume_after=False)
            continue
        done = checks[0][2]
        # the candidate is fetched (saved) unless it is done or explicitly flagged; never when it is done
        flagged = z3.BoolVal(False)
        if len(checks) > 1:
            b0, b1 = checks[1][1] if len(checks[1][1]) == 2 else (None, None)
            isflag = (isinstance(b1, str) and b1 == "skip.flag") or (isinstance(b1, StrSeq) and b1.is_literal() and b1.literal() == "skip.flag")
            same_id = isinstance(b0, StrSeq) and b0.parts == a0.parts
            if isflag and same_id:
                flagged = checks[1][2]
            else:
                path.oblige(name, z3.BoolVal(False), kind="trace", assume_after=False)
                continue
        saved = z3.BoolVal(len(saves) == 1)
        path.oblige(name, saved == z3.And(z3.Not(done), z3.Not(flagged)), kind="trace", assume_after=False)


@contract("toasty.pipeline.cli.refresh_impl")
def _(c):
    c.setup(refresh_setup)
    c.loop(0, invariant=[("counters_are_numbers", "n_cand >= 0")],
           types={"n_cand": "int", "n_saved": "int", "n_done": "int", "n_skipped": "int", "n_rejected": "int"})
    c.may_raise("OSError", "file-system errors propagate")
    c.on_path(refresh_trace)
