"""C04 — TOAST tiles partition the sphere, nest exactly, and are route-independent."""
PROPERTY = "C04"
LEVEL = "other"
CONTRACT_MODULES = ["contracts.specfuns", "contracts.lemmas_desc", "contracts.pyramid", "contracts.parallel", "contracts.walk", "contracts.reducer", "contracts.lemmas_embed", "contracts.generator", "contracts.image", "contracts.merge", "contracts.pyramidio", "contracts.study", "contracts.multitan", "contracts.multiwcs", "contracts.toastsample", "contracts.toastgeom", "contracts.toastgen"]
FUNCTIONS = [
    "toasty.toast._div4",
    "toasty.toast.create_single_tile",
    "toasty.toast.toast_tile_for_point",
    "toasty.toast._postfix_corner",
    "toasty.toast.generate_tiles_filtered",
    "toasty.toast.generate_tiles",
    "toasty.pyramid.Pyramid._generator",
]
LEMMAS = ["nested_div_by_two"]
SLOW = ()
TRUSTED_BASE = ["pyvc VC generator; z3/cvc5", "compiled mid(a, b): symmetric great-circle midpoint"]
ASSUMPTIONS = ["areas, partition of the sphere and numerical equality of shared points are floating-point geometry: bounded tier"]
EXPLANATION = "one subdivision step proved structurally: child order/positions, shared edge midpoints and centre, diagonal by orientation"
