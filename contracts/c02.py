"""C02 — Cascade output: every parent tile is the 2x2 downsample of its children mosaic."""
PROPERTY = "C02"
LEVEL = "other"
CONTRACT_MODULES = ['contracts.specfuns', 'contracts.lemmas_desc', 'contracts.pyramid', 'contracts.parallel', 'contracts.walk', 'contracts.reducer', 'contracts.lemmas_embed', 'contracts.generator', 'contracts.image', 'contracts.merge', 'contracts.pyramidio', 'contracts.study', 'contracts.multitan', 'contracts.multiwcs', 'contracts.toastsample', 'contracts.toastgeom', 'contracts.toastgen', 'contracts.datarange', 'contracts.paths', 'contracts.builderc']
FUNCTIONS = ['toasty.merge.averaging_merger', 'toasty.merge.TileMerger.walk_callback', 'toasty.merge.TileMerger._get_min_max_of_children', 'toasty.merge.cascade_images', 'toasty.image.Image.is_completely_masked', 'toasty.image.Image.update_into_maskable_buffer', 'toasty.pyramid.PyramidIO.write_image', 'toasty.builder.Builder.cascade']
LEMMAS = []
SLOW = ()
TRUSTED_BASE = ["pyvc VC generator; z3/cvc5", "numpy contracts of DESIGN.md 3.1 (reshape/nanmean/astype as encoded in pyvc/ndarray.py)"]
ASSUMPTIONS = ["floating point treated as real arithmetic (means are exact reals; the bounded tier compares to 4 eps)"]
EXPLANATION = "stock merger and cascade callback against the block-reduce / placement statement"
