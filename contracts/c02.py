"""C02 — Cascade output: every parent tile is the 2x2 downsample of its children mosaic."""
PROPERTY = "C02"
LEVEL = "other"
CONTRACT_MODULES = ["contracts.specfuns", "contracts.lemmas_desc", "contracts.pyramid", "contracts.image", "contracts.merge", "contracts.pyramidio", "contracts.datarange", "contracts.study", "contracts.parallel", "contracts.multitan", "contracts.toastsample"]
FUNCTIONS = ["toasty.merge.averaging_merger", "toasty.merge.TileMerger.walk_callback", "toasty.merge.TileMerger._get_min_max_of_children", "toasty.merge.cascade_images"]
LEMMAS = []
SLOW = ()
TRUSTED_BASE = ["pyvc VC generator; z3/cvc5", "numpy contracts of DESIGN.md 3.1 (reshape/nanmean/astype as encoded in pyvc/ndarray.py)"]
ASSUMPTIONS = ["floating point treated as real arithmetic (means are exact reals; the bounded tier compares to 4 eps)"]
EXPLANATION = "stock merger and cascade callback against the block-reduce / placement statement"
