"""Contracts for the tile filters (C07): argument order and non-modification for the box filter,
exact chunk edges for the chunked plate-carree map."""
import fractions
import math

import z3

from pyvc.contracts_api import contract
from pyvc.core import OutOfSubset, z3num, fresh_name, is_z3
from pyvc import ops
from pyvc.ops import simp
from pyvc.values import Inst, Opaque, NTuple, FuncVal
from pyvc.ndarray import NdArr, fresh_array
from .toastgeom import fresh_tile

PI = fractions.Fraction(math.pi)


def install_externals(X):
    @X.register("toasty._libtoasty.tile_intersects_latlon_bbox")
    def _(interp, args, kwargs):
        interp.note_assumption("compiled tile_intersects_latlon_bbox(corner_lonlats, lon_min, lon_max, lat_min, lat_max): accepts every "
                               "tile whose corner box meets the given box (pole tiles always); may reorder the longitudes of the array it is GIVEN")
        b = z3.Bool(fresh_name("intersects"))
        interp.path.event("bbox_test", tuple(args), b)
        return b

    @X.register("numpy.asarray")
    def _(interp, args, kwargs):
        a = args[0]
        if isinstance(a, NdArr):
            return a
        if isinstance(a, tuple):
            interp.note_assumption("np.asarray(tuple of pairs) builds a NEW array; np.asarray(ndarray) returns its argument")
            arr = fresh_array((len(a), 2), "f64", "asarray", interp)
            arr.built_from = a
            return arr
        raise OutOfSubset("np.asarray of %r" % (a,))

    @X.register_opaque("chunked_image", "chunk_spec")
    def _(interp, o, args, kwargs):
        cx, cy, cw, ch = [z3.Int(fresh_name(n)) for n in ("cx", "cy", "cw", "ch")]
        interp.note_assumption("chunk_spec(i) of a chunked image returns a non-empty rectangle (cw, ch >= 1)")
        interp.path.assume(z3.And(cw >= 1, ch >= 1))
        interp.path.chunk_spec = (cx, cy, cw, ch)
        return (cx, cy, cw, ch)


def box_setup(interp, path):
    v = {k: z3.Real(fresh_name(k)) for k in ("image_lon_min", "image_lon_max", "image_lat_min", "image_lat_max")}
    return v


def box_trace(m, path, fr, env, outcome, value, exc):
    E = fr.entry_env
    if outcome == "raise":
        return
    ok = isinstance(value, FuncVal)
    path.oblige(m.oblname("returns_a_filter_function"), z3.BoolVal(bool(ok)), kind="trace", assume_after=False)
    if not ok:
        return
    tile = fresh_tile(m, "tile")
    res = m.call_function(value, [tile], {})
    tests = [e for e in path.events if e[0] == "bbox_test"]
    good = len(tests) == 1
    if good:
        a = tests[0][1]
        good = (len(a) == 5 and isinstance(a[0], NdArr) and getattr(a[0], "built_from", None) is tile.get("corners")
                and all(ops.equals(m, a[i + 1], E.lookup(k)) is True for i, k in enumerate(("image_lon_min", "image_lon_max", "image_lat_min", "image_lat_max")))
                and res is tests[0][2])
    path.oblige(m.oblname("box_test_gets_a_fresh_copy_of_the_corners_and_the_bounds_in_order"), z3.BoolVal(bool(good)), kind="trace", assume_after=False)


_bf = contract("toasty.samplers._latlon_tile_filter")


@_bf
def _(c):
    c.setup(box_setup)
    c.requires("image_lon_min < image_lon_max and image_lat_min < image_lat_max", name="non_empty_box")   # the two in-code asserts
    c.model(lambda interp, env: Opaque("tile_filter", fresh_name("tile_filter")))
    c.on_path(box_trace)


# ---- chunk bounds ----

contract("toasty.samplers.ChunkedPlateCarreeSampler.__init__")(lambda c: c.inline())


def chunk_setup(interp, path):
    from pyvc.values import Ext
    img = Opaque("chunked_image", "chunked_image")
    H, W = z3.Int(fresh_name("H")), z3.Int(fresh_name("W"))
    path.assume(z3.And(H >= 1, W >= 1))
    img.attrs["shape"] = (H, W)
    me = interp.construct(Ext("class:toasty.samplers.ChunkedPlateCarreeSampler"), [img], {"planetary": True})
    return {"self": me, "ichunk": z3.Int(fresh_name("ichunk"))}


def chunk_trace(m, path, fr, env, outcome, value, exc):
    ok = outcome == "return" and isinstance(value, tuple) and len(value) == 4 and hasattr(path, "chunk_spec")
    path.oblige(m.oblname("returns_four_bounds"), z3.BoolVal(bool(ok)), kind="trace", assume_after=False)
    if not ok:
        return
    cx, cy, cw, ch = path.chunk_spec
    H, W = fr.entry_env.lookup("self").fields["_image"].attrs["shape"]
    pi = z3.RealVal(str(PI.numerator)) / z3.RealVal(str(PI.denominator))
    Wr, Hr = z3.ToReal(W), z3.ToReal(H)
    lon_l, lon_r, lat_d, lat_u = [z3num(v) for v in value]
    # planetary plate carree: left edge of column 0 at -pi, longitude increasing to the right; top edge of row 0 at +pi/2
    goal = z3.And(lon_l == -pi + z3.ToReal(cx) * 2 * pi / Wr, lon_r == -pi + z3.ToReal(cx + cw) * 2 * pi / Wr,
                  lat_u == pi / 2 - z3.ToReal(cy) * pi / Hr, lat_d == pi / 2 - z3.ToReal(cy + ch) * pi / Hr)
    path.oblige(m.oblname("bounds_are_the_exact_edges_of_the_chunk_rectangle_in_lon_min_lon_max_lat_min_lat_max_order"), goal,
                kind="trace", assume_after=False)


_cb = contract("toasty.samplers.ChunkedPlateCarreeSampler._chunk_bounds")


@_cb
def _(c):
    c.setup(chunk_setup)
    c.on_path(chunk_trace)


def filter_trace(m, path, fr, env, outcome, value, exc):
    calls = [e for e in path.events if e[0] == "call" and e[1].endswith("_latlon_tile_filter")]
    ok = outcome == "return" and len(calls) == 1 and isinstance(value, Opaque) and value.kind == "tile_filter"
    path.oblige(m.oblname("builds_one_box_filter"), z3.BoolVal(bool(ok)), kind="trace", assume_after=False)


contract("toasty.samplers.ChunkedPlateCarreeSampler._chunk_bounds")(lambda c: c.inline())
contract("toasty.samplers.ChunkedPlateCarreeSampler.filter")(lambda c: (c.setup(chunk_setup), c.on_path(filter_trace)))
