"""Contracts for TOAST tile geometry (C04 structure, C12 level-1 selection).  The great-circle
midpoint ``mid`` is external (compiled): it is modelled as an uninterpreted SYMMETRIC function of
its two arguments (assumed contract, DESIGN 3.3)."""
import fractions
import math

import z3

from pyvc.contracts_api import contract
from pyvc.core import OutOfSubset, z3num, fresh_name, is_z3
from pyvc import ops
from pyvc.ops import simp
from pyvc.values import Inst, Opaque, NTuple, EnumVal, PyList
from pyvc.types import register_type

PI = fractions.Fraction(math.pi)


def _pid(p):
    return p.name if isinstance(p, Opaque) else ("#%d" % id(p))


def install_externals(X):
    @X.register("toasty._libtoasty.mid")
    def _(interp, args, kwargs):
        interp.note_assumption("compiled _libtoasty.mid(a, b): great-circle midpoint, symmetric in its arguments (up to rounding)")
        a, b = args
        key = "mid(" + ",".join(sorted([_pid(a), _pid(b)])) + ")"
        pts = interp.path.__dict__.setdefault("mid_points", {})
        if key not in pts:
            p = Opaque("point", key)
            p.attrs["_g_of"] = (a, b)
            pts[key] = p
        return pts[key]


def fresh_tile(interp, name):
    pos = NTuple("Pos", ("n", "x", "y"), [z3.Int(fresh_name("%s.pos.%s" % (name, f))) for f in "nxy"])
    corners = tuple(Opaque("point", fresh_name("%s.c%d" % (name, k))) for k in range(4))
    return NTuple("Tile", ("pos", "corners", "increasing"), [pos, corners, z3.Bool(fresh_name(name + ".increasing"))])


register_type("TileT", fresh_tile)


# ---- _div4 ---------------------------------------------------------------------------------------

def div4_setup(interp, path):
    return {"tile": fresh_tile(interp, "tile")}


def _is(a, b):
    return a is b or (isinstance(a, Opaque) and isinstance(b, Opaque) and a.name == b.name)


def div4_trace(m, path, fr, env, outcome, value, exc):
    ok = outcome == "return" and isinstance(value, PyList) and len(value.items) == 4
    path.oblige(m.oblname("returns_four_children"), z3.BoolVal(bool(ok)), kind="trace", assume_after=False)
    if not ok:
        return
    t = fr.entry_env.lookup("tile")
    ul, ur, lr, ll = t.get("corners")
    kids = value.items
    pos = t.get("pos")
    n, x, y = [z3num(v) for v in pos.vals]
    gp = ops.conj([ops.conj([simp(z3num(k.get("pos").get("n")) == n + 1), simp(z3num(k.get("pos").get("x")) == 2 * x + (i % 2)),
                             simp(z3num(k.get("pos").get("y")) == 2 * y + (i // 2))]) for i, k in enumerate(kids)])
    path.oblige(m.oblname("children_in_order_TL_TR_BL_BR_at_the_child_positions"), gp if not isinstance(gp, bool) else z3.BoolVal(gp),
                kind="trace", assume_after=False)
    c = [k.get("corners") for k in kids]
    # outer corners stay, the four children share edge midpoints and the centre
    outer = _is(c[0][0], ul) and _is(c[1][1], ur) and _is(c[3][2], lr) and _is(c[2][3], ll)
    to, ri, bo, le, ce = c[0][1], c[1][2], c[2][2], c[0][3], c[0][2]
    shared = (_is(c[1][0], to) and _is(c[3][1], ri) and _is(c[3][3], bo) and _is(c[2][0], le)
              and _is(c[1][3], ce) and _is(c[2][1], ce) and _is(c[3][0], ce))
    path.oblige(m.oblname("children_keep_the_parent_corners_and_share_edge_and_centre_points"), z3.BoolVal(bool(outer and shared)),
                kind="trace", assume_after=False)

    def is_mid(p, a, b):
        of = p.attrs.get("_g_of") if isinstance(p, Opaque) else None
        return of is not None and ((_is(of[0], a) and _is(of[1], b)) or (_is(of[0], b) and _is(of[1], a)))

    edges = is_mid(to, ul, ur) and is_mid(ri, ur, lr) and is_mid(bo, lr, ll) and is_mid(le, ll, ul)
    path.oblige(m.oblname("edge_points_are_the_midpoints_of_the_parent_edges"), z3.BoolVal(bool(edges)), kind="trace", assume_after=False)
    inc = t.get("increasing")
    # the centre lies on the diagonal named by the orientation flag: ll-ur if increasing else ul-lr
    on_inc, on_dec = is_mid(ce, ll, ur), is_mid(ce, ul, lr)
    g = z3.If(inc, z3.BoolVal(bool(on_inc)), z3.BoolVal(bool(on_dec)))
    path.oblige(m.oblname("centre_is_the_midpoint_of_the_diagonal_named_by_the_orientation"), g, kind="trace", assume_after=False)
    inh = ops.conj([ops.equals(m, k.get("increasing"), inc) for k in kids])
    path.oblige(m.oblname("orientation_is_inherited"), inh if not isinstance(inh, bool) else z3.BoolVal(inh), kind="trace", assume_after=False)


_d4 = contract("toasty.toast._div4")


@_d4
def _(c):
    c.setup(div4_setup)
    c.on_path(div4_trace)


# ---- level-1 table and level-1 selection (C04 layout, C12) -----------------------------------------

contract("toasty.toast._create_level1_tiles")(lambda c: c.inline())
contract("toasty.toast._toast_tile_containment_score")(lambda c: c.inline())

# documented layout: north pole at the centre, longitude 0 towards the right for sky maps / towards the left for
# planetary maps, increasing counter-clockwise: closed longitude quadrant (in units of pi/2) of each level-1 tile
QUADRANT = {
    "ASTRONOMICAL": {(1, 0): 0, (0, 0): 1, (0, 1): 2, (1, 1): 3},
    "PLANETARY": {(1, 0): 2, (0, 0): 3, (0, 1): 0, (1, 1): 1},
}
L1_CASES = [{"coordsys": "ASTRONOMICAL"}, {"coordsys": "PLANETARY"}]


def _cs(case):
    return EnumVal("ToastCoordinateSystem", case["coordsys"], case["coordsys"].lower())


def point_setup(interp, path):
    lat = z3.Real(fresh_name("lat"))
    return {"depth": 1, "lat": lat, "lon": z3.Real(fresh_name("lon")), "coordsys": _cs(interp._case)}


def point_trace(m, path, fr, env, outcome, value, exc):
    case = m._case
    ok = outcome == "return" and isinstance(value, NTuple) and value.tname == "Tile"
    path.oblige(m.oblname("returns_a_tile"), z3.BoolVal(bool(ok)), kind="trace", assume_after=False)
    if not ok:
        return
    pos = value.get("pos")
    px, py = pos.get("x"), pos.get("y")
    okp = pos.get("n") == 1 and isinstance(px, int) and isinstance(py, int)
    path.oblige(m.oblname("level_1_tile_at_depth_1"), z3.BoolVal(bool(okp)), kind="trace", assume_after=False)
    if not okp:
        return
    # the tile is the one the level-1 table of the REQUESTED system has at that position: same corners, same orientation
    table = m.spec_value("_create_level1_tiles(coordsys)", fr.entry_env)
    mine = [t for t in table.items if t.get("pos").get("x") == px and t.get("pos").get("y") == py]
    from .toastsample import _tg_same_corners, _tg_same
    same = (len(mine) == 1 and _tg_same_corners(m, [m.getitem(value.get("corners"), k) for k in range(4)], mine[0].get("corners"))
            and _tg_same(value.get("increasing"), mine[0].get("increasing")))
    path.oblige(m.oblname("level_1_tile_has_the_corners_and_orientation_of_the_requested_system"), z3.BoolVal(bool(same)),
                kind="trace", assume_after=False)
    lon = fr.entry_env.lookup("lon")
    pi = z3.RealVal(str(PI.numerator)) / z3.RealVal(str(PI.denominator))
    q = z3.Int(fresh_name("q"))
    lp = z3.Real(fresh_name("lon_norm"))
    saved = list(path.pc)
    path.assume(z3.And(lp == lon - 2 * pi * z3.ToReal(q), lp >= 0, lp < 2 * pi))
    k = QUADRANT[case["coordsys"]][(px, py)]
    path.oblige(m.oblname("selected_level_1_tile_covers_the_longitude_in_the_requested_system"),
                z3.Or(z3.And(lp >= k * pi / 2, lp <= (k + 1) * pi / 2),
                      z3.And(lp + 2 * pi >= k * pi / 2, lp + 2 * pi <= (k + 1) * pi / 2)),   # closed quadrant, longitudes modulo 2pi
                kind="trace", assume_after=False)
    path.pc[:] = saved


_tp = contract("toasty.toast.toast_tile_for_point")


@_tp
def _(c):
    c.cases(*L1_CASES)
    c.setup(point_setup)
    c.on_path(point_trace)


# ---- create_single_tile: the descent lands on the requested position ------------------------------------

def _div4_model(interp, env):
    """call-site behaviour of _div4 = its contract: four children at the child positions (geometry opaque here)"""
    t = env.lookup("tile")
    n, x, y = [z3num(v) for v in t.get("pos").vals]
    kids = []
    for k in range(4):
        pos = NTuple("Pos", ("n", "x", "y"), [simp(n + 1), simp(2 * x + (k % 2)), simp(2 * y + (k // 2))])
        corners = tuple(Opaque("point", fresh_name("child%d.c%d" % (k, j))) for j in range(4))
        kids.append(NTuple("Tile", ("pos", "corners", "increasing"), [pos, corners, t.get("increasing")]))
    return PyList(kids)


CST_CASES = [{"coordsys": "ASTRONOMICAL"}, {"coordsys": "PLANETARY"}]


def cst_setup(interp, path):
    pos = NTuple("Pos", ("n", "x", "y"), [z3.Int(fresh_name("pos." + f)) for f in "nxy"])
    return {"pos": pos, "coordsys": _cs(interp._case)}


ANC_X = "pos.x >> (pos.n - cur_n)"
ANC_Y = "pos.y >> (pos.n - cur_n)"

contract("toasty.toast._div4")(lambda c: c.model(_div4_model))
_cst = contract("toasty.toast.create_single_tile")


@_cst
def _(c):
    c.cases(*CST_CASES)
    c.setup(cst_setup)
    c.args(pos="Pos")
    c.requires("pos.n >= 0 and pos.x >= 0 and pos.y >= 0 and pos.x < pow2(pos.n) and pos.y < pow2(pos.n)", name="valid_position")
    c.raises("ValueError", when="pos.n == 0")
    # at the loop head: cur_n levels are done and `children` are the four tiles below the ancestor of pos at level cur_n
    c.loop(0, invariant=[
        ("levels_done", "0 <= cur_n and cur_n < pos.n"),
        ("children_are_below_the_ancestor_of_pos", "all_k(0, 4, lambda k: children[k].pos.n == cur_n + 1 "
         "and children[k].pos.x == 2 * (%s) + k %% 2 and children[k].pos.y == 2 * (%s) + k // 2)" % (ANC_X, ANC_Y)),
    ], types={"children": "list[TileT;4]", "tile": "TileT", "cur_n": "int", "ix": "int", "iy": "int"},
        decreases="pos.n - cur_n")
    c.ensures("result.pos == pos", name="tile_of_the_requested_position")
