"""Contracts for TOAST tile geometry (C04 structure, C12 level-1 selection).  The great-circle
midpoint ``mid`` is external (compiled): it is modelled as an uninterpreted SYMMETRIC function of
its two arguments (assumed contract, DESIGN 3.3)."""
import fractions
import math

import z3

from pyvc.contracts_api import contract
from pyvc.core import OutOfSubset, z3num, fresh_name, is_z3
from pyvc import ops
from pyvc.ops import simp
from pyvc.values import Inst, Opaque, NTuple, EnumVal, PyList
from pyvc.types import register_type

PI = fractions.Fraction(math.pi)


def _pid(p):
    return p.name if isinstance(p, Opaque) else ("#%d" % id(p))


def install_externals(X):
    X.plugins.insert(0, PointPlugin())
    from pyvc import interp as _interp
    _interp.EXT_CONSTANTS.setdefault("numpy.inf", NP_INF)

    @X.register("toasty._libtoasty.mid")
    def _(interp, args, kwargs):
        interp.note_assumption("compiled _libtoasty.mid(a, b): great-circle midpoint, symmetric in its arguments (up to rounding)")
        a, b = args
        key = "mid(" + ",".join(sorted([_pid(a), _pid(b)])) + ")"
        pts = interp.path.__dict__.setdefault("mid_points", {})
        if key not in pts:
            p = Opaque("point", key)
            p.attrs["_g_of"] = (a, b)
            pts[key] = p
        return pts[key]


NP_INF = z3.Real("np_inf")    # numpy.inf in comparisons with containment scores: above every (finite) score


class PointPlugin(object):
    """``corner[k]`` of an abstract corner point: its k-th coordinate, a real determined by the point"""

    def getitem(self, interp, base, idx):
        if isinstance(base, Opaque) and base.kind == "point" and idx in (0, 1):
            return z3.Real("%s[%d]" % (base.name, idx))
        return NotImplemented


def _xyz_model(interp, env):
    """_equ_to_xyz(lat, lon): the unit vector of that direction — identified by (lat, lon)"""
    v = Opaque("xyz", fresh_name("xyz"))
    v.attrs["_g_latlon"] = (env.lookup("lat"), env.lookup("lon"))
    return v


def _half_space_model(interp, env):
    """_left_of_half_space_score(a, b, p): a finite number <= 0 (0 = p definitely to the left of the edge a -> b)"""
    interp.note_assumption("_left_of_half_space_score returns a finite number <= 0 (cross/dot products of unit vectors); "
                           "np.inf compares above every containment score")
    r = z3.Real(fresh_name("half_space_score"))
    interp.path.assume(z3.And(r <= 0, 4 * r > -NP_INF, NP_INF > 0))
    interp.path.event("half_space", env.lookup("point_a"), env.lookup("point_b"), env.lookup("test_point"), r)
    return r


def fresh_tile(interp, name):
    pos = NTuple("Pos", ("n", "x", "y"), [z3.Int(fresh_name("%s.pos.%s" % (name, f))) for f in "nxy"])
    corners = tuple(Opaque("point", fresh_name("%s.c%d" % (name, k))) for k in range(4))
    return NTuple("Tile", ("pos", "corners", "increasing"), [pos, corners, z3.Bool(fresh_name(name + ".increasing"))])


register_type("TileT", fresh_tile)


# ---- _div4 ---------------------------------------------------------------------------------------

def div4_setup(interp, path):
    return {"tile": fresh_tile(interp, "tile")}


def _is(a, b):
    return a is b or (isinstance(a, Opaque) and isinstance(b, Opaque) and a.name == b.name)


def div4_trace(m, path, fr, env, outcome, value, exc):
    ok = outcome == "return" and isinstance(value, PyList) and len(value.items) == 4
    path.oblige(m.oblname("returns_four_children"), z3.BoolVal(bool(ok)), kind="trace", assume_after=False)
    if not ok:
        return
    t = fr.entry_env.lookup("tile")
    ul, ur, lr, ll = t.get("corners")
    kids = value.items
    pos = t.get("pos")
    n, x, y = [z3num(v) for v in pos.vals]
    gp = ops.conj([ops.conj([simp(z3num(k.get("pos").get("n")) == n + 1), simp(z3num(k.get("pos").get("x")) == 2 * x + (i % 2)),
                             simp(z3num(k.get("pos").get("y")) == 2 * y + (i // 2))]) for i, k in enumerate(kids)])
    path.oblige(m.oblname("children_in_order_TL_TR_BL_BR_at_the_child_positions"), gp if not isinstance(gp, bool) else z3.BoolVal(gp),
                kind="trace", assume_after=False)
    c = [k.get("corners") for k in kids]
    # outer corners stay, the four children share edge midpoints and the centre
    outer = _is(c[0][0], ul) and _is(c[1][1], ur) and _is(c[3][2], lr) and _is(c[2][3], ll)
    to, ri, bo, le, ce = c[0][1], c[1][2], c[2][2], c[0][3], c[0][2]
    shared = (_is(c[1][0], to) and _is(c[3][1], ri) and _is(c[3][3], bo) and _is(c[2][0], le)
              and _is(c[1][3], ce) and _is(c[2][1], ce) and _is(c[3][0], ce))
    path.oblige(m.oblname("children_keep_the_parent_corners_and_share_edge_and_centre_points"), z3.BoolVal(bool(outer and shared)),
                kind="trace", assume_after=False)

    def is_mid(p, a, b):
        of = p.attrs.get("_g_of") if isinstance(p, Opaque) else None
        return of is not None and ((_is(of[0], a) and _is(of[1], b)) or (_is(of[0], b) and _is(of[1], a)))

    edges = is_mid(to, ul, ur) and is_mid(ri, ur, lr) and is_mid(bo, lr, ll) and is_mid(le, ll, ul)
    path.oblige(m.oblname("edge_points_are_the_midpoints_of_the_parent_edges"), z3.BoolVal(bool(edges)), kind="trace", assume_after=False)
    inc = t.get("increasing")
    # the centre lies on the diagonal named by the orientation flag: ll-ur if increasing else ul-lr
    on_inc, on_dec = is_mid(ce, ll, ur), is_mid(ce, ul, lr)
    g = z3.If(inc, z3.BoolVal(bool(on_inc)), z3.BoolVal(bool(on_dec)))
    path.oblige(m.oblname("centre_is_the_midpoint_of_the_diagonal_named_by_the_orientation"), g, kind="trace", assume_after=False)
    inh = ops.conj([ops.equals(m, k.get("increasing"), inc) for k in kids])
    path.oblige(m.oblname("orientation_is_inherited"), inh if not isinstance(inh, bool) else z3.BoolVal(inh), kind="trace", assume_after=False)


_d4 = contract("toasty.toast._div4")


@_d4
def _(c):
    c.setup(div4_setup)
    c.on_path(div4_trace)


# ---- level-1 table and level-1 selection (C04 layout, C12) -----------------------------------------

contract("toasty.toast._create_level1_tiles")(lambda c: c.inline())
contract("toasty.toast._toast_tile_containment_score")(lambda c: c.inline())

# documented layout: north pole at the centre, longitude 0 towards the right for sky maps / towards the left for
# planetary maps, increasing counter-clockwise: closed longitude quadrant (in units of pi/2) of each level-1 tile
QUADRANT = {
    "ASTRONOMICAL": {(1, 0): 0, (0, 0): 1, (0, 1): 2, (1, 1): 3},
    "PLANETARY": {(1, 0): 2, (0, 0): 3, (0, 1): 0, (1, 1): 1},
}
L1_CASES = [{"coordsys": "ASTRONOMICAL"}, {"coordsys": "PLANETARY"}]


def _cs(case):
    return EnumVal("ToastCoordinateSystem", case["coordsys"], case["coordsys"].lower())


def point_setup(interp, path):
    lat = z3.Real(fresh_name("lat"))
    return {"depth": 1, "lat": lat, "lon": z3.Real(fresh_name("lon")), "coordsys": _cs(interp._case)}


def point_trace(m, path, fr, env, outcome, value, exc):
    case = m._case
    ok = outcome == "return" and isinstance(value, NTuple) and value.tname == "Tile"
    path.oblige(m.oblname("returns_a_tile"), z3.BoolVal(bool(ok)), kind="trace", assume_after=False)
    if not ok:
        return
    pos = value.get("pos")
    px, py = pos.get("x"), pos.get("y")
    okp = pos.get("n") == 1 and isinstance(px, int) and isinstance(py, int)
    path.oblige(m.oblname("level_1_tile_at_depth_1"), z3.BoolVal(bool(okp)), kind="trace", assume_after=False)
    if not okp:
        return
    # the tile is the one the level-1 table of the REQUESTED system has at that position: same corners, same orientation
    table = m.spec_value("_create_level1_tiles(coordsys)", fr.entry_env)
    mine = [t for t in table.items if t.get("pos").get("x") == px and t.get("pos").get("y") == py]
    from .toastsample import _tg_same_corners, _tg_same
    same = (len(mine) == 1 and _tg_same_corners(m, [m.getitem(value.get("corners"), k) for k in range(4)], mine[0].get("corners"))
            and _tg_same(value.get("increasing"), mine[0].get("increasing")))
    path.oblige(m.oblname("level_1_tile_has_the_corners_and_orientation_of_the_requested_system"), z3.BoolVal(bool(same)),
                kind="trace", assume_after=False)
    lon = fr.entry_env.lookup("lon")
    pi = z3.RealVal(str(PI.numerator)) / z3.RealVal(str(PI.denominator))
    q = z3.Int(fresh_name("q"))
    lp = z3.Real(fresh_name("lon_norm"))
    saved = list(path.pc)
    path.assume(z3.And(lp == lon - 2 * pi * z3.ToReal(q), lp >= 0, lp < 2 * pi))
    k = QUADRANT[case["coordsys"]][(px, py)]
    path.oblige(m.oblname("selected_level_1_tile_covers_the_longitude_in_the_requested_system"),
                z3.Or(z3.And(lp >= k * pi / 2, lp <= (k + 1) * pi / 2),
                      z3.And(lp + 2 * pi >= k * pi / 2, lp + 2 * pi <= (k + 1) * pi / 2)),   # closed quadrant, longitudes modulo 2pi
                kind="trace", assume_after=False)
    path.pc[:] = saved


# ---- the descent below level 1 (C12): at every level the child that best contains the caller's point ------------------

from pyvc.contracts_api import spec  # noqa: E402


@spec
def l1_covers(interp, qx, qy, lon, coordsys):
    """the closed longitude quadrant of the level-1 tile (1, qx, qy) of that system contains lon (given in [0, 2pi))"""
    pi = z3.RealVal(str(PI.numerator)) / z3.RealVal(str(PI.denominator))
    k = QUADRANT[coordsys.name][(qx, qy)]
    lp = z3num(lon)
    return z3.Or(z3.And(lp >= k * pi / 2, lp <= (k + 1) * pi / 2), z3.And(lp + 2 * pi >= k * pi / 2, lp + 2 * pi <= (k + 1) * pi / 2))


contract("toasty.toast._equ_to_xyz")(lambda c: c.model(_xyz_model))
contract("toasty.toast._left_of_half_space_score")(lambda c: c.model(_half_space_model))


def _same_real(a, b):
    try:
        return a is b or z3.is_true(z3.simplify(z3num(a) == z3num(b)))
    except Exception:
        return False


def descent_trace(m, path, fr, env, outcome, value, exc):
    if not m._case.get("descent"):
        return
    ev = path.events
    starts = [i for i, e in enumerate(ev) if e[0] == "loop_iter" and e[1] == 1]
    if starts and any(e[0] == "loop_iter_end" and e[1] == 1 for e in ev[starts[-1]:]):
        seg = ev[starts[-1]:]
        kids_ev = [e for e in seg if e[0] == "div4_kids"]
        hs = [e for e in seg if e[0] == "half_space"]
        tile = env.lookup("tile")
        name_b = m.oblname("descends_into_a_child_with_the_best_containment_score")
        name_a = m.oblname("containment_tests_the_callers_point_against_the_four_edges_of_the_child")
        if len(kids_ev) != 1 or len(hs) % 4 != 0 or len(hs) == 0:
            path.oblige(name_b, z3.BoolVal(False), kind="trace", assume_after=False)
            return
        kids = kids_ev[0][2]
        chosen = [k for k, kid in enumerate(kids) if kid is tile]
        scores = [z3.Sum([e[4] for e in hs[4 * j: 4 * j + 4]]) for j in range(len(hs) // 4)]
        if len(chosen) != 1 or chosen[0] >= len(scores):
            path.oblige(name_b, z3.BoolVal(False), kind="trace", assume_after=False)
        else:
            k = chosen[0]
            best = z3.And(z3.BoolVal(len(scores) == 4), *[sj <= scores[k] for sj in scores])
            path.oblige(name_b, z3.Or(scores[k] == 0, best), kind="trace", assume_after=False)
        # every score is the sum over the directed edges ul->ur->lr->ll->ul of the scored child, for the caller's point
        lat0, lon0 = fr.entry_env.lookup("lat"), fr.entry_env.lookup("lon")
        pi = z3.RealVal(str(PI.numerator)) / z3.RealVal(str(PI.denominator))
        shape_ok, lon_goals = True, []
        for j in range(len(scores)):
            cs = kids[j].get("corners")
            for t, e in enumerate(hs[4 * j: 4 * j + 4]):
                a, b, p = e[1], e[2], e[3]
                la, lb, lp_ = [getattr(v, "attrs", {}).get("_g_latlon") for v in (a, b, p)]
                if la is None or lb is None or lp_ is None:
                    shape_ok = False
                    continue
                ca, cb = cs[t], cs[(t + 1) % 4]
                shape_ok = shape_ok and (_same_real(la[0], m.getitem(ca, 1)) and _same_real(la[1], m.getitem(ca, 0))
                                         and _same_real(lb[0], m.getitem(cb, 1)) and _same_real(lb[1], m.getitem(cb, 0))
                                         and _same_real(lp_[0], lat0))
                lon_goals.append(lp_[1])
        q = z3.Int(fresh_name("q"))
        ln = z3.Real(fresh_name("lon_norm"))
        saved = list(path.pc)
        path.assume(z3.And(ln == z3num(lon0) - 2 * pi * z3.ToReal(q), ln >= 0, ln < 2 * pi))
        path.oblige(name_a, z3.And(z3.BoolVal(bool(shape_ok)), *[z3num(g) == ln for g in lon_goals]), kind="trace", assume_after=False)
        path.pc[:] = saved
    if outcome == "return":
        ok = isinstance(value, NTuple) and value.tname == "Tile"
        path.oblige(m.oblname("returns_a_tile"), z3.BoolVal(bool(ok)), kind="trace", assume_after=False)
        if not ok:
            return
        e2 = Env_with(fr, env, value)
        path.oblige(m.oblname("returned_tile_is_at_the_requested_depth"), m.spec("result.pos.n == depth", e2), kind="trace", assume_after=False)
        lon0 = fr.entry_env.lookup("lon")
        pi = z3.RealVal(str(PI.numerator)) / z3.RealVal(str(PI.denominator))
        q = z3.Int(fresh_name("q"))
        ln = z3.Real(fresh_name("lon_norm"))
        saved = list(path.pc)
        path.assume(z3.And(ln == z3num(lon0) - 2 * pi * z3.ToReal(q), ln >= 0, ln < 2 * pi))
        t1 = fr.loop_entry_env.lookup("tile") if getattr(fr, "loop_entry_env", None) is not None else None
        ok1 = (isinstance(t1, NTuple) and t1.get("pos").get("n") == 1 and isinstance(t1.get("pos").get("x"), int)
               and isinstance(t1.get("pos").get("y"), int))
        if not ok1:
            path.oblige(m.oblname("descent_starts_from_a_level_1_tile"), z3.BoolVal(False), kind="trace", assume_after=False)
        else:
            px, py = t1.get("pos").get("x"), t1.get("pos").get("y")
            e2.vars["t1"] = t1
            k = QUADRANT[m._case["coordsys"]][(px, py)]
            cov = z3.Or(z3.And(ln >= k * pi / 2, ln <= (k + 1) * pi / 2), z3.And(ln + 2 * pi >= k * pi / 2, ln + 2 * pi <= (k + 1) * pi / 2))
            path.oblige(m.oblname("returned_tile_lies_below_a_level_1_tile_covering_the_longitude_in_the_requested_system"),
                        z3.And(m.spec("desc(result.pos, t1.pos)", e2), cov), kind="trace", assume_after=False)
            table = m.spec_value("_create_level1_tiles(coordsys)", fr.entry_env)
            mine = [t for t in table.items if t.get("pos").get("x") == px and t.get("pos").get("y") == py]
            from .toastsample import _tg_same_corners, _tg_same
            same = (len(mine) == 1 and _tg_same_corners(m, [m.getitem(t1.get("corners"), k_) for k_ in range(4)], mine[0].get("corners"))
                    and _tg_same(t1.get("increasing"), mine[0].get("increasing")))
            path.oblige(m.oblname("level_1_tile_has_the_corners_and_orientation_of_the_requested_system"), z3.BoolVal(bool(same)),
                        kind="trace", assume_after=False)
        path.pc[:] = saved


def Env_with(fr, env, value):
    from pyvc.interp import Env
    e = Env(module=fr.module)
    e.vars = dict(fr.entry_env.vars)
    e.vars["result"] = value
    return e


def descent_setup(interp, path):
    case = interp._case
    if not case.get("descent"):
        return point_setup(interp, path)
    depth = z3.Int(fresh_name("depth"))
    path.assume(depth >= 1)
    return {"depth": depth, "lat": z3.Real(fresh_name("lat")), "lon": z3.Real(fresh_name("lon")), "coordsys": _cs(case)}


_tp = contract("toasty.toast.toast_tile_for_point")


@_tp
def _(c):
    c.cases(*(L1_CASES + [dict(k, descent=True) for k in L1_CASES]))
    c.setup(descent_setup)
    c.loop(1, invariant=[
        ("level_between_1_and_depth", "1 <= tile.pos.n and tile.pos.n <= depth"),
        ("below_the_selected_level_1_tile", "is_child(at_loop_entry(tile).pos, Pos(0, 0, 0)) and desc(tile.pos, at_loop_entry(tile).pos)"),
    ], types={"tile": "TileT", "best_score": "real", "child": "TileT", "score": "real"}, decreases="depth - tile.pos.n",
        only_cases=lambda case: bool(case.get("descent")))
    c.on_path(lambda *a: None if a[0]._case.get("descent") else point_trace(*a))
    c.on_path(descent_trace)


# ---- create_single_tile: the descent lands on the requested position ------------------------------------

def _div4_model(interp, env):
    """call-site behaviour of _div4 = its contract: four children at the child positions (geometry opaque here)"""
    t = env.lookup("tile")
    n, x, y = [z3num(v) for v in t.get("pos").vals]
    kids = []
    for k in range(4):
        pos = NTuple("Pos", ("n", "x", "y"), [simp(n + 1), simp(2 * x + (k % 2)), simp(2 * y + (k // 2))])
        corners = tuple(Opaque("point", fresh_name("child%d.c%d" % (k, j))) for j in range(4))
        kids.append(NTuple("Tile", ("pos", "corners", "increasing"), [pos, corners, t.get("increasing")]))
    interp.path.event("div4_kids", t, kids)
    # child/parent marker of the Desc theory: CHECKED here (the definitional axiom of the marker applied to the child
    # positions), then used
    from .specfuns import Child
    for kid in kids:
        cn, cx, cy = [z3num(v) for v in kid.get("pos").vals]
        interp.path.oblige(interp.oblname("div4_children_are_children_of_the_tile"), Child(cn, cx, cy, n, x, y), kind="assert")
    return PyList(kids)


CST_CASES = [{"coordsys": "ASTRONOMICAL"}, {"coordsys": "PLANETARY"}]


def cst_setup(interp, path):
    pos = NTuple("Pos", ("n", "x", "y"), [z3.Int(fresh_name("pos." + f)) for f in "nxy"])
    return {"pos": pos, "coordsys": _cs(interp._case)}


ANC_X = "pos.x >> (pos.n - cur_n)"
ANC_Y = "pos.y >> (pos.n - cur_n)"

contract("toasty.toast._div4")(lambda c: c.model(_div4_model))
_cst = contract("toasty.toast.create_single_tile")


@_cst
def _(c):
    c.cases(*CST_CASES)
    c.setup(cst_setup)
    c.args(pos="Pos")
    c.requires("pos.n >= 0 and pos.x >= 0 and pos.y >= 0 and pos.x < pow2(pos.n) and pos.y < pow2(pos.n)", name="valid_position")
    c.raises("ValueError", when="pos.n == 0")
    # at the loop head: cur_n levels are done and `children` are the four tiles below the ancestor of pos at level cur_n
    c.loop(0, invariant=[
        ("levels_done", "0 <= cur_n and cur_n < pos.n"),
        ("children_are_below_the_ancestor_of_pos", "all_k(0, 4, lambda k: children[k].pos.n == cur_n + 1 "
         "and children[k].pos.x == 2 * (%s) + k %% 2 and children[k].pos.y == 2 * (%s) + k // 2)" % (ANC_X, ANC_Y)),
    ], types={"children": "list[TileT;4]", "tile": "TileT", "cur_n": "int", "ix": "int", "iy": "int"},
        decreases="pos.n - cur_n")
    c.ensures("result.pos == pos", name="tile_of_the_requested_position")
