"""Contracts for PyramidIO (C15 persistence rules, C10 locking discipline, C17 paths)."""
import z3

from pyvc.contracts_api import contract, spec
from pyvc.core import OutOfSubset, PyRaise, z3num, fresh_name, is_z3
from pyvc import ops
from pyvc.values import Inst, Opaque, NTuple, StrSeq, Tok
from . import image as im
from . import merge as _merge  # noqa: F401  (caller-facing read/write contracts, inlined Image helpers)
from .image import MODES, mk_image, _arr


def _pio(fmt="npy", scheme="L/Y/YX"):
    return Inst("PyramidIO", module="toasty.pyramid", fields={
        "_base_dir": "base", "_scheme": "{1}/{3}/{3}_{2}", "_default_format": fmt})


@contract("toasty.pyramid.PyramidIO.tile_path")
def _(c):
    c.trusted("path construction is verified separately (C17); here only: the path is a function of (pos, format)")
    c.returns("tok:path")


@contract("toasty.image.Image.save")
def _(c):
    c.trusted("codec: the file at the path afterwards holds this image in the given format (round trip: bounded tier)")


@contract("toasty.image.ImageLoader.load_path")
def _(c):
    c.trusted("codec: returns the stored image or raises IOError (errno 2 when the file does not exist)")
    c.may_raise("IOError", "missing or unreadable file")
    c.returns("opaque:loaded_image")


# ---- write_image ------------------------------------------------------------------------------

WRITE_CASES = [{"mode": m, "format": f} for m in MODES for f in (None, "fits")]


def write_setup(interp, path):
    case = interp._case
    H, W = z3.Int(fresh_name("H")), z3.Int(fresh_name("W"))
    path.assume(z3.And(H >= 1, W >= 1))
    pos = NTuple("Pos", ("n", "x", "y"), [z3.Int(fresh_name("pos." + f)) for f in "nxy"])
    return {"self": _pio(), "pos": pos, "image": mk_image(interp, "image", case["mode"], H, W), "format": case["format"],
            "mode": None, "min_value": z3.Real(fresh_name("min_value")), "max_value": z3.Real(fresh_name("max_value"))}


def write_trace(m, path, fr, env, outcome, value, exc):
    ev = path.events
    image = fr.entry_env.lookup("image")
    masked = im.all_undefined(m, image)
    paths_ = [e for e in ev if e[0] == "call" and e[1].endswith("PyramidIO.tile_path")]
    saves = [e for e in ev if e[0] == "call" and e[1].endswith("Image.save")]
    unl = [e for e in ev if e[0] == "unlink_start"]
    path.oblige(m.oblname("returns_normally"), z3.BoolVal(outcome == "return"), kind="trace", assume_after=False)
    want_fmt = m._case["format"] or "npy"
    if saves:
        a = saves[0][2]
        same_img = _arr(a["self"]).fn is _arr(image).fn
        ok = (len(saves) == 1 and not unl and len(paths_) == 1 and same_img and a.get("format") == want_fmt
              and paths_[0][2].get("format") == want_fmt and ops.equals(m, paths_[0][2]["pos"], fr.entry_env.lookup("pos")) is not False)
        fwd = ops.conj([ops.equals(m, a.get("min_value"), fr.entry_env.lookup("min_value")),
                        ops.equals(m, a.get("max_value"), fr.entry_env.lookup("max_value"))])
        path.oblige(m.oblname("a_tile_with_a_defined_pixel_is_saved_once_at_its_path"), z3.BoolVal(bool(ok)), kind="trace", assume_after=False)
        path.oblige(m.oblname("data_range_is_forwarded_to_the_file"), fwd, kind="trace", assume_after=False)
        path.oblige(m.oblname("saved_only_if_some_pixel_is_defined"), ops.negate(masked), kind="trace", assume_after=False)
    else:
        ok = len(unl) == 1 and len(paths_) == 1 and paths_[0][2].get("format") == want_fmt
        path.oblige(m.oblname("an_all_undefined_tile_is_not_stored_and_any_old_file_is_removed"), z3.BoolVal(bool(ok)), kind="trace", assume_after=False)
        path.oblige(m.oblname("removed_only_if_all_pixels_are_undefined"), masked, kind="trace", assume_after=False)


@contract("toasty.pyramid.PyramidIO.write_image")
def _(c):
    c.cases(*WRITE_CASES)
    c.setup(write_setup)
    c.on_path(write_trace)


# ---- read_image -------------------------------------------------------------------------------

READ_CASES = [{"default": d, "masked_mode": mm} for d in ("none", "masked", "other") for mm in (None,) + tuple(MODES)]


def read_setup(interp, path):
    case = interp._case
    pos = NTuple("Pos", ("n", "x", "y"), [z3.Int(fresh_name("pos." + f)) for f in "nxy"])
    mm = im.mode_val(case["masked_mode"]) if case["masked_mode"] else None
    return {"self": _pio(), "pos": pos, "default": case["default"], "masked_mode": mm, "format": None}


def read_trace(m, path, fr, env, outcome, value, exc):
    case = m._case
    ev = path.events
    loads = [e for e in ev if e[0] == "call" and e[1].endswith("ImageLoader.load_path")]
    raised = [e for e in ev if e[0] == "call_raised" and e[1].endswith("ImageLoader.load_path")]
    path.oblige(m.oblname("exactly_one_load_of_the_tile_path"), z3.BoolVal(len(loads) == 1), kind="trace", assume_after=False)
    if not raised:
        ok = outcome == "return" and isinstance(value, Opaque) and value.kind == "loaded_image"
        path.oblige(m.oblname("an_existing_tile_is_returned_as_loaded"), z3.BoolVal(bool(ok)), kind="trace", assume_after=False)
        return
    errno = None
    for k, v in env.vars.items():
        if hasattr(v, "errno") and hasattr(v, "ex"):
            errno = v.errno
    if errno is None:
        path.oblige(m.oblname("io_errors_are_examined"), z3.BoolVal(False), kind="trace", assume_after=False)
        return
    missing = errno == 2
    if outcome == "raise" and exc.etype in ("IOError", "OSError"):
        path.oblige(m.oblname("other_io_errors_propagate"), z3.Not(missing), kind="trace", assume_after=False)
        return
    path.oblige(m.oblname("only_a_missing_file_is_treated_as_absent"), missing, kind="trace", assume_after=False)
    d, mm = case["default"], case["masked_mode"]
    if d == "none":
        path.oblige(m.oblname("missing_tile_reads_as_absent"), z3.BoolVal(outcome == "return" and value is None), kind="trace", assume_after=False)
    elif d == "masked" and mm is not None:
        ok = outcome == "return" and isinstance(value, Inst) and value.cls == "Image" and tuple(_arr(value).shape[:2]) == (256, 256)
        path.oblige(m.oblname("missing_tile_reads_as_a_256x256_buffer"), z3.BoolVal(bool(ok)), kind="trace", assume_after=False)
        if ok:
            r, c_ = z3.Int(fresh_name("r")), z3.Int(fresh_name("c"))
            saved = list(path.pc)
            path.assume(z3.And(r >= 0, r < 256, c_ >= 0, c_ < 256))
            path.oblige(m.oblname("missing_tile_reads_as_all_undefined"), im.pix_blank(m, value, r, c_), kind="trace", assume_after=False)
            path.pc[:] = saved
            want = {"RGB": "RGBA"}.get(mm, mm)
            path.oblige(m.oblname("masked_buffer_has_the_maskable_mode"), z3.BoolVal(value.fields["_mode"].name == want), kind="trace", assume_after=False)
    else:
        path.oblige(m.oblname("bad_default_request_raises_value_error"), z3.BoolVal(outcome == "raise" and exc.etype == "ValueError"),
                    kind="trace", assume_after=False)


@contract("toasty.pyramid.PyramidIO.read_image")
def _(c):
    c.cases(*READ_CASES)
    c.setup(read_setup)
    c.may_raise("IOError", "I/O errors other than 'no such file' propagate")
    c.may_raise("ValueError", "unknown default / missing masked_mode")
    c.on_path(read_trace)


# ---- update_image: the locking discipline (C10) ----------------------------------------------

UPDATE_CASES = [{"format": f, "default": d} for f in (None, "fits") for d in ("none", "masked")]


def update_setup(interp, path):
    case = interp._case
    pos = NTuple("Pos", ("n", "x", "y"), [z3.Int(fresh_name("pos." + f)) for f in "nxy"])
    interp._case = dict(case, mode="F32")
    return {"self": _pio(), "pos": pos, "default": case["default"], "masked_mode": im.mode_val("F32"), "format": case["format"]}


def update_trace(m, path, fr, env, outcome, value, exc):
    ev = path.events
    pos = fr.entry_env.lookup("pos")
    want_fmt = m._case["format"] or "npy"
    names = []
    for e in ev:
        if e[0] in ("enter", "exit") and e[1] == "lock":
            names.append(e[0] + "_lock")
        elif e[0] == "call" and e[1].endswith("PyramidIO.read_image"):
            names.append("read")
        elif e[0] == "call" and e[1].endswith("PyramidIO.write_image"):
            names.append("write")
        elif e[0] == "yield":
            names.append("yield")
        elif e[0] == "with_body_raised":
            names.append("body_raised")
    body_raised = "body_raised" in names
    if outcome == "return":
        path.oblige(m.oblname("lock_held_from_before_the_read_until_after_the_write"),
                    z3.BoolVal(names == ["enter_lock", "read", "yield", "write", "exit_lock"]), kind="trace", assume_after=False)
    elif body_raised:
        path.oblige(m.oblname("lock_released_and_nothing_written_when_the_body_raises"),
                    z3.BoolVal(names == ["enter_lock", "read", "yield", "body_raised", "exit_lock"]), kind="trace", assume_after=False)
    # an updater never removes a lock file: while someone holds it, deleting it lets two critical sections overlap
    unl = [e for e in ev if e[0] in ("unlink", "unlink_start") and isinstance(e[1], StrSeq) and e[1].parts and e[1].parts[-1] == ".lock"]
    path.oblige(m.oblname("never_deletes_a_lock_file"), z3.BoolVal(not unl), kind="trace", assume_after=False)
    # it enters the critical section only through a successful acquisition (never after a timed-out wait)
    if "read" in names:
        before = ev[:[i for i, e in enumerate(ev) if e[0] == "call" and e[1].endswith("PyramidIO.read_image")][0]]
        acq = [i for i, e in enumerate(before) if e[0] == "enter" and e[1] == "lock"]
        path.oblige(m.oblname("reads_only_while_holding_the_lock"), z3.BoolVal(bool(acq)), kind="trace", assume_after=False)
    # the lock key is a function of the tile only: tile_path(pos) in the default format + '.lock'
    locks = [e for e in ev if e[0] == "enter" and e[1] == "lock"]
    tps = [e for e in ev if e[0] == "call" and e[1].endswith("PyramidIO.tile_path")]
    if locks:
        key = locks[0][2]
        first_tp = tps[0][2] if tps else {}
        ok = (isinstance(key, StrSeq) and len(key.parts) == 2 and key.parts[1] == ".lock" and isinstance(key.parts[0], Tok)
              and ops.equals(m, first_tp.get("pos"), pos) is True and first_tp.get("format") is None)
        path.oblige(m.oblname("lock_key_depends_on_the_tile_only"), z3.BoolVal(bool(ok)), kind="trace", assume_after=False)
    reads = [e for e in ev if e[0] == "call" and e[1].endswith("PyramidIO.read_image")]
    writes = [e for e in ev if e[0] == "call" and e[1].endswith("PyramidIO.write_image")]
    if reads and writes:
        r, w = reads[0][2], writes[0][2]
        ok = (ops.equals(m, r["pos"], pos) is True and ops.equals(m, w["pos"], pos) is True
              and r.get("format") == want_fmt and w.get("format") == want_fmt and r.get("default") == m._case["default"])
        path.oblige(m.oblname("reads_and_writes_the_same_tile_in_the_same_format"), z3.BoolVal(bool(ok)), kind="trace", assume_after=False)
        ys = [e for e in ev if e[0] == "yield"]
        y = ys[0][1] if len(ys) == 1 else None
        same = len(ys) == 1 and ((y is None and w["image"] is None) or
                                 (isinstance(y, Inst) and isinstance(w["image"], Inst) and _arr(y).fn is _arr(w["image"]).fn))
        path.oblige(m.oblname("what_was_handed_to_the_caller_is_what_gets_written"), z3.BoolVal(bool(same)), kind="trace", assume_after=False)


@contract("toasty.pyramid.PyramidIO.update_image")
def _(c):
    c.cases(*UPDATE_CASES)
    c.setup(update_setup)
    c.may_raise("BodyError", "an exception of the caller's with-body propagates")
    c.may_raise("IOError", "propagated from read_image")
    c.may_raise("ValueError", "propagated from read_image")
    c.may_raise("Timeout", "a bounded wait for the lock may give up (never observed on the pinned tree: it waits without bound)")
    c.on_path(update_trace)
