"""Spec functions shared by the contracts (evaluated on symbolic values by the D-tier; the
R-tier has concrete twins in rt/oracles.py)."""
import z3

from pyvc.contracts_api import spec
from pyvc import ops
from pyvc.core import z3num
from pyvc.values import NTuple


@spec
def pow2(interp, k):
    if isinstance(k, int):
        return 2 ** k if k >= 0 else ops.pow2(z3.IntVal(k))
    return ops.pow2(z3num(k))


@spec
def ilog2(interp, v):
    return ops.ilog2(z3num(v))


@spec
def ispow2(interp, v):
    v = z3num(v)
    return z3.And(ops.ilog2(v) >= 0, v == ops.pow2(ops.ilog2(v)))


@spec
def T(interp, d):
    """depth2tiles: number of tiles of a pyramid of depth d, (4**(d+1)-1)/3; T(-1) = 0."""
    d = z3num(d)
    return (ops.pow2(2 * d + 2) - 1) / 3


def _f(p, name):
    return z3num(p.get(name))


def desc_arith(d, s):
    """Arithmetic definition: d is s or a descendant of s."""
    P = ops.pow2(_f(d, "n") - _f(s, "n"))
    return z3.And(_f(d, "n") >= _f(s, "n"),
                  _f(s, "x") * P <= _f(d, "x"), _f(d, "x") < (_f(s, "x") + 1) * P,
                  _f(s, "y") * P <= _f(d, "y"), _f(d, "y") < (_f(s, "y") + 1) * P)


@spec
def desc_def(interp, d, s):
    return desc_arith(d, s)


I = z3.IntSort()
Desc = z3.Function("Desc", I, I, I, I, I, I, z3.BoolSort())     # opaque twin of desc_arith
Child = z3.Function("Child", I, I, I, I, I, I, z3.BoolSort())   # marker: first position is a child of the second


def _six(a, b):
    return [_f(a, "n"), _f(a, "x"), _f(a, "y"), _f(b, "n"), _f(b, "x"), _f(b, "y")]


@spec
def desc(interp, d, s):
    """d is s or a descendant of s — opaque in sequence-level obligations; its algebra comes
    from the lemma-backed axioms of the 'Desc' theory."""
    return Desc(*_six(d, s))


@spec
def is_child(interp, c, p):
    return Child(*_six(c, p))


def child_arith(cn, cx, cy, pn, px, py):
    return z3.And(cn == pn + 1, cx / 2 == px, cy / 2 == py)


def desc6(en, ex, ey, sn, sx, sy):
    P = ops.pow2(en - sn)
    return z3.And(en >= sn, sx * P <= ex, ex < (sx + 1) * P, sy * P <= ey, ey < (sy + 1) * P)


def desc_axioms():
    en, ex, ey, cn, cx, cy, pn, px, py, dn, dx, dy = z3.Ints("en ex ey cn cx cy pn px py dn dx dy")
    e, c, p, d = (en, ex, ey), (cn, cx, cy), (pn, px, py), (dn, dx, dy)
    ax = []
    # A1 child step
    ax.append(z3.ForAll(list(e + c + p), z3.Implies(z3.And(Desc(*e, *c), Child(*c, *p)), Desc(*e, *p)),
                        patterns=[z3.MultiPattern(Desc(*e, *c), Child(*c, *p))]))
    # A2 facts about a child/parent pair
    ax.append(z3.ForAll(list(c + p), z3.Implies(Child(*c, *p), z3.And(Desc(*c, *c), Desc(*p, *p), z3.Not(Desc(*p, *c)),
                                                                     Desc(*c, *p))),
                        patterns=[Child(*c, *p)]))
    # A3 siblings have disjoint descendants
    ax.append(z3.ForAll(list(e + c + d + p),
                        z3.Implies(z3.And(Desc(*e, *c), Child(*c, *p), Child(*d, *p), z3.Or(cx != dx, cy != dy)),
                                   z3.Not(Desc(*e, *d))),
                        patterns=[z3.MultiPattern(Desc(*e, *c), Child(*c, *p), Child(*d, *p))]))
    # A4 levels
    ax.append(z3.ForAll(list(e + p), z3.Implies(Desc(*e, *p), z3.And(en >= pn, z3.Implies(en == pn, z3.And(ex == px, ey == py)))),
                        patterns=[Desc(*e, *p)]))
    # A5 transitivity
    ax.append(z3.ForAll(list(e + c + p), z3.Implies(z3.And(Desc(*e, *c), Desc(*c, *p)), Desc(*e, *p)),
                        patterns=[z3.MultiPattern(Desc(*e, *c), Desc(*c, *p))]))
    # A6 descendants of the root are the valid positions
    ax.append(z3.ForAll(list(e), z3.Implies(Desc(en, ex, ey, 0, 0, 0),
                                             z3.And(en >= 0, ex >= 0, ey >= 0, ex < ops.pow2(en), ey < ops.pow2(en))),
                        patterns=[Desc(en, ex, ey, 0, 0, 0)]))
    # definition of the marker
    ax.append(z3.ForAll(list(c + p), Child(*c, *p) == child_arith(*c, *p), patterns=[Child(*c, *p)]))
    return ax


from pyvc.theories import register_theory  # noqa: E402
_LEMS = ["desc_child_step", "desc_child_pair", "desc_siblings_disjoint", "desc_levels", "desc_transitive", "desc_root"]
register_theory("Desc", desc_axioms, lemmas=_LEMS)
register_theory("Child", desc_axioms, lemmas=_LEMS)


@spec
def valid_pos(interp, p):
    n, x, y = z3num(p.get("n")), z3num(p.get("x")), z3num(p.get("y"))
    return z3.And(n >= 0, x >= 0, y >= 0, x < ops.pow2(n), y < ops.pow2(n))
