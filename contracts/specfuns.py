"""Spec functions shared by the contracts (evaluated on symbolic values by the D-tier; the
R-tier has concrete twins in rt/oracles.py)."""
import z3

from pyvc.contracts_api import spec
from pyvc import ops
from pyvc.core import z3num
from pyvc.values import NTuple


@spec
def pow2(interp, k):
    if isinstance(k, int):
        return 2 ** k if k >= 0 else ops.pow2(z3.IntVal(k))
    return ops.pow2(z3num(k))


@spec
def ilog2(interp, v):
    return ops.ilog2(z3num(v))


@spec
def ispow2(interp, v):
    v = z3num(v)
    return z3.And(ops.ilog2(v) >= 0, v == ops.pow2(ops.ilog2(v)))


@spec
def T(interp, d):
    """depth2tiles: number of tiles of a pyramid of depth d, (4**(d+1)-1)/3; T(-1) = 0."""
    d = z3num(d)
    return (ops.pow2(2 * d + 2) - 1) / 3


@spec
def desc(interp, d, s):
    """d is s or a descendant of s (positions)."""
    P = ops.pow2(z3num(d.get("n")) - z3num(s.get("n")))
    return z3.And(z3num(d.get("n")) >= z3num(s.get("n")),
                  z3num(s.get("x")) * P <= z3num(d.get("x")), z3num(d.get("x")) < (z3num(s.get("x")) + 1) * P,
                  z3num(s.get("y")) * P <= z3num(d.get("y")), z3num(d.get("y")) < (z3num(s.get("y")) + 1) * P)


@spec
def valid_pos(interp, p):
    n, x, y = z3num(p.get("n")), z3num(p.get("x")), z3num(p.get("y"))
    return z3.And(n >= 0, x >= 0, y >= 0, x < ops.pow2(n), y < ops.pow2(n))
