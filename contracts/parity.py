"""Contracts for the parity functions of toasty/image.py (C16): over the reals, with the assumed WCS
contract  intermediate = CD . (p - CRPIX)  (p the 1-based FITS pixel),  CD_ij = CDELT_i * PC_ij."""
import z3

from pyvc.contracts_api import contract, lemma
from pyvc.core import OutOfSubset, z3num, fresh_name
from pyvc import ops
from pyvc.ops import simp
from pyvc.values import Inst, Opaque, PyDict, NTuple
from . import image as im
from . import multitan as _mt  # noqa: F401  (call-site models of the two helpers)
from .image import mk_image, _arr

KEYS = ("CDELT1", "CDELT2", "PC1_1", "PC1_2", "PC2_1", "PC2_2", "CRPIX1", "CRPIX2", "CRVAL1", "CRVAL2")
PC_DEFAULT = {"PC1_1": 1, "PC1_2": 0, "PC2_1": 0, "PC2_2": 1}


def mk_wcs(interp, name, pcs_present=True):
    """An opaque WCS whose header has the linear terms as symbolic reals (PC cards optional)."""
    hdr = {}
    for k in KEYS:
        if k.startswith("PC") and not pcs_present:
            continue
        hdr[k] = z3.Real(fresh_name("%s.%s" % (name, k)))
    hdr["CTYPE1"] = "RA---TAN"
    hdr["CTYPE2"] = "DEC--TAN"
    w = Opaque("wcs", fresh_name(name))
    w.attrs["_g_header"] = hdr
    return w


def cd_of(hdr):
    """CD matrix of a header in either form."""
    if "CD1_1" in hdr:
        return [[z3num(hdr["CD1_1"]), z3num(hdr["CD1_2"])], [z3num(hdr["CD2_1"]), z3num(hdr["CD2_2"])]]
    pc = lambda k: z3num(hdr.get(k, PC_DEFAULT[k]))
    return [[z3num(hdr["CDELT1"]) * pc("PC1_1"), z3num(hdr["CDELT1"]) * pc("PC1_2")],
            [z3num(hdr["CDELT2"]) * pc("PC2_1"), z3num(hdr["CDELT2"]) * pc("PC2_2")]]


def det(cd):
    return cd[0][0] * cd[1][1] - cd[0][1] * cd[1][0]


def interm(hdr, x, y):
    """intermediate world coordinates of the 0-based pixel (x, y)"""
    cd = cd_of(hdr)
    dx, dy = (x + 1) - z3num(hdr["CRPIX1"]), (y + 1) - z3num(hdr["CRPIX2"])
    return (cd[0][0] * dx + cd[0][1] * dy, cd[1][0] * dx + cd[1][1] * dy)


def mk_pil(interp, arr, name="pil"):
    """a PIL image object: identified with the array that ``np.asarray`` makes of it"""
    p = Opaque("pil", fresh_name(name))
    p.attrs["_g_array"] = arr
    p.attrs["height"], p.attrs["width"] = arr.shape[0], arr.shape[1]
    return p


def observed_array(interp, img):
    """what ``Image.asarray()`` returns for this object state (the cached array if there is one, else the PIL data)"""
    a = img.fields.get("_array")
    if a is not None:
        return a
    return img.fields["_pil"].attrs["_g_array"]


def install_externals(X):
    prev_asarray = X.calls.get("numpy.asarray")

    @X.register("numpy.asarray")
    def _(interp, args, kwargs):
        if args and isinstance(args[0], Opaque) and args[0].kind == "pil":
            interp.note_assumption("np.asarray(PIL image) is the image's pixel array; Image.transpose(FLIP_TOP_BOTTOM) reverses its rows")
            return args[0].attrs["_g_array"]
        if prev_asarray is not None:
            return prev_asarray(interp, args, kwargs)
        from pyvc.ndarray import NdArr
        if args and isinstance(args[0], NdArr) and not kwargs:
            return args[0]
        raise OutOfSubset("np.asarray of %r" % (args[:1],))

    @X.register_opaque("pil", "getbands")
    def _(interp, p, args, kwargs):
        a = p.attrs["_g_array"]
        return tuple("band%d" % k for k in range(a.shape[2] if a.ndim == 3 else 1))

    @X.register_opaque("pil", "transpose")
    def _(interp, p, args, kwargs):
        how = args[0] if args else None
        if not (getattr(how, "name", "") or "").endswith("FLIP_TOP_BOTTOM"):
            raise OutOfSubset("PIL transpose(%r)" % (how,))
        from pyvc.values import SliceVal
        return mk_pil(interp, interp.getitem(p.attrs["_g_array"], SliceVal(None, None, -1)), "pil_flipped")

    @X.register_opaque("wcs", "to_header")
    def _(interp, w, args, kwargs):
        interp.note_assumption("astropy WCS.to_header() of a linear celestial WCS returns CDELT/PC (PC cards omitted when default) "
                               "with CDELT_i*PC_ij == CD_ij; WCS(header) builds the WCS of that header")
        return PyDict(dict(w.attrs["_g_header"]))

    @X.register("astropy.wcs.WCS")
    def _(interp, args, kwargs):
        w = Opaque("wcs", fresh_name("wcs"))
        h = args[0]
        w.attrs["_g_header"] = dict(h.items) if isinstance(h, PyDict) else {}
        interp.path.event("wcs_new", w)
        return w


PAR_CASES = [{"pcs": True}, {"pcs": False}]


def sign_setup(interp, path):
    return {"wcs": mk_wcs(interp, "wcs", interp._case["pcs"])}


def sign_trace(m, path, fr, env, outcome, value, exc):
    hdr = fr.entry_env.lookup("wcs").attrs["_g_header"]
    d = det(cd_of(hdr))
    ok = outcome == "return"
    g = z3.BoolVal(False)
    if ok:
        g = z3num(value) == z3.If(d < 0, 1, -1)
    path.oblige(m.oblname("sign_is_plus_one_iff_the_cd_determinant_is_negative"), g, kind="trace", assume_after=False)


_s = contract("toasty.image._wcs_to_parity_sign")


@_s
def _(c):
    c.cases(*PAR_CASES)
    c.setup(sign_setup)
    c.on_path(sign_trace)


def flip_setup(interp, path):
    return {"wcs": mk_wcs(interp, "wcs", interp._case["pcs"]), "image_height": z3.Int(fresh_name("H"))}


def flip_trace(m, path, fr, env, outcome, value, exc):
    ok = outcome == "return" and isinstance(value, Opaque) and value.kind == "wcs"
    path.oblige(m.oblname("returns_a_wcs"), z3.BoolVal(bool(ok)), kind="trace", assume_after=False)
    if not ok:
        return
    h0 = fr.entry_env.lookup("wcs").attrs["_g_header"]
    h1 = value.attrs["_g_header"]
    H = z3.ToReal(fr.entry_env.lookup("image_height"))
    x, y = z3.Real(fresh_name("x")), z3.Real(fresh_name("y"))
    a0, b0 = interm(h0, x, y)
    try:
        a1, b1 = interm(h1, x, H - 1 - y)
        d1 = det(cd_of(h1))
        shape = True
    except (KeyError, OutOfSubset):
        shape = False
    path.oblige(m.oblname("new_header_is_a_linear_wcs"), z3.BoolVal(shape), kind="trace", assume_after=False)
    if not shape:
        return
    path.oblige(m.oblname("pixel_x_y_keeps_its_sky_position_at_x_height_minus_1_minus_y"), z3.And(a1 == a0, b1 == b0), kind="trace", assume_after=False)
    path.oblige(m.oblname("cd_determinant_is_negated"), d1 == -det(cd_of(h0)), kind="trace", assume_after=False)
    same_other = all(ops.equals(m, h1.get(k), h0.get(k)) is True for k in ("CRVAL1", "CRVAL2", "CTYPE1", "CTYPE2", "CRPIX1"))
    path.oblige(m.oblname("reference_point_and_projection_unchanged"), z3.BoolVal(bool(same_other)), kind="trace", assume_after=False)
    mixed = any(k in h1 for k in ("CDELT1", "CDELT2", "PC1_1", "PC1_2", "PC2_1", "PC2_2"))
    path.oblige(m.oblname("no_mixture_of_cd_and_cdelt_pc_cards"), z3.BoolVal(not mixed), kind="trace", assume_after=False)


_f = contract("toasty.image._flip_wcs_parity")


@_f
def _(c):
    c.cases(*PAR_CASES)
    c.setup(flip_setup)
    c.on_path(flip_trace)


# ---- Image / ImageDescription: rows reversed with the WCS; ensure_negative_parity ----

OBJ_CASES = [{"pcs": p, "kind": k, "mode": "F32"} for p in (True, False) for k in ("Image", "ImageDescription")]
# images backed by a PIL object, with and without the array cache that asarray() fills
OBJ_CASES += [{"pcs": True, "kind": "Image", "mode": "RGB", "backing": "pil", "cached": cch} for cch in (False, True)]
# descriptions of colour images carry the planes as a third axis of `shape` (rows stay the FIRST axis)
OBJ_CASES += [{"pcs": p, "kind": "ImageDescription", "mode": "RGB", "planes": 3} for p in (True, False)]


def obj_setup(interp, path):
    case = interp._case
    H, W = z3.Int(fresh_name("H")), z3.Int(fresh_name("W"))
    path.assume(z3.And(H >= 1, W >= 1))
    wcs = mk_wcs(interp, "wcs", case["pcs"])
    if case["kind"] == "Image":
        me = mk_image(interp, "image", case.get("mode", "F32"), H, W)
        me.fields["_wcs"] = wcs
        if case.get("backing") == "pil":
            me.fields["_pil"] = mk_pil(interp, me.fields["_array"])
            if not case["cached"]:
                me.fields["_array"] = None
    else:
        me = Inst("ImageDescription", module="toasty.image", fields={"mode": None, "shape": (H, W) + ((case["planes"],) if case.get("planes") else ()), "wcs": wcs})
    return {"self": me}


def _wcs_of(obj):
    return obj.fields["_wcs"] if obj.cls == "Image" else obj.fields["wcs"]


def _height_of(obj):
    return observed_array(None, obj).shape[0] if obj.cls == "Image" else obj.fields["shape"][0]


def flip_obj_trace(m, path, fr, env, outcome, value, exc):
    if outcome != "return":
        path.oblige(m.oblname("does_not_raise_with_a_wcs"), z3.BoolVal(False), kind="trace", assume_after=False)
        return
    old, new = fr.entry_env.lookup("self"), env.lookup("self")
    flips = [e for e in path.events if e[0] == "call" and e[1].endswith("_flip_wcs_parity")]
    ok = len(flips) == 1 and flips[0][2]["wcs"].name == _wcs_of(old).name
    g = ops.equals(m, flips[0][2]["image_height"], _height_of(old)) if ok else False
    path.oblige(m.oblname("wcs_reflected_about_this_images_height"), g if not isinstance(g, bool) else z3.BoolVal(g), kind="trace", assume_after=False)
    path.oblige(m.oblname("returns_self"), z3.BoolVal(value is new), kind="trace", assume_after=False)
    if old.cls == "Image":
        # observed through Image.asarray(), as the property says: the cached array if any, else the PIL data
        a_old, a_new = observed_array(m, old), observed_array(m, new)
        H = a_old.shape[0]
        r, c_ = z3.Int(fresh_name("r")), z3.Int(fresh_name("c"))
        saved = list(path.pc)
        path.assume(z3.And(r >= 0, r < z3num(H), c_ >= 0, c_ < z3num(a_old.shape[1])))
        path.oblige(m.oblname("rows_are_reversed"), im.pix_same(m, a_new, r, c_, a_old, simp(z3num(H) - 1 - r), c_), kind="trace", assume_after=False)
        path.pc[:] = saved


def ensure_trace(m, path, fr, env, outcome, value, exc):
    if outcome != "return":
        return
    old, new = fr.entry_env.lookup("self"), env.lookup("self")
    h0 = _wcs_of(old).attrs["_g_header"]
    d0 = det(cd_of(h0))
    flips = [e for e in path.events if e[0] == "call" and e[1].endswith("_flip_wcs_parity")]   # one per flip_parity()
    # flipped exactly when the parity was +1 (determinant negative): result parity is -1, and a second call would not flip
    path.oblige(m.oblname("flips_exactly_the_positive_parity_inputs"), (d0 < 0) if flips else z3.Not(d0 < 0), kind="trace", assume_after=False)
    path.oblige(m.oblname("at_most_one_flip"), z3.BoolVal(len(flips) <= 1), kind="trace", assume_after=False)


for _cls in ("Image", "ImageDescription"):
    contract("toasty.image.%s.get_parity_sign" % _cls)(lambda c: c.inline())
    contract("toasty.image.%s.height" % _cls)(lambda c: c.inline())
    contract("toasty.image.%s.width" % _cls)(lambda c: c.inline())

_CASES_I = [c for c in OBJ_CASES if c["kind"] == "Image"]
_CASES_D = [c for c in OBJ_CASES if c["kind"] == "ImageDescription"]
contract("toasty.image.Image.flip_parity")(lambda c: (c.cases(*_CASES_I), c.setup(obj_setup), c.on_path(flip_obj_trace)))
contract("toasty.image.ImageDescription.flip_parity")(lambda c: (c.inline(), c.cases(*_CASES_D), c.setup(obj_setup), c.on_path(flip_obj_trace)))
contract("toasty.image.Image.ensure_negative_parity")(lambda c: (c.cases(*_CASES_I), c.setup(obj_setup), c.on_path(ensure_trace)))
contract("toasty.image.ImageDescription.ensure_negative_parity")(lambda c: (c.cases(*_CASES_D), c.setup(obj_setup), c.on_path(ensure_trace)))
