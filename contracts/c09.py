"""C09 — Tiling images on a common TAN grid equals tiling the assembled mosaic."""
PROPERTY = "C09"
LEVEL = "other"
CONTRACT_MODULES = ["contracts.specfuns", "contracts.lemmas_desc", "contracts.pyramid", "contracts.parallel", "contracts.walk", "contracts.reducer", "contracts.lemmas_embed", "contracts.generator", "contracts.image", "contracts.merge", "contracts.pyramidio", "contracts.study", "contracts.multitan", "contracts.multiwcs", "contracts.toastsample", "contracts.toastgeom", "contracts.toastgen", "contracts.parity"]
FUNCTIONS = [
    "toasty.multi_tan.MultiTanProcessor._tile_serial",
    "toasty.multi_tan._mp_tile_worker",
    "toasty.multi_tan.MultiTanProcessor._tile_parallel",
    "toasty.pyramid.PyramidIO.update_image",
    "toasty.image.Image.update_into_maskable_buffer",
    "toasty.image.ImageDescription.flip_parity",
    "toasty.image.ImageDescription.ensure_negative_parity",
    "toasty.image._flip_wcs_parity",
    "toasty.image._wcs_to_parity_sign",
]
LEMMAS = []
SLOW = ()
TRUSTED_BASE = ["pyvc VC generator; z3/cvc5", "numpy contracts (pyvc/ndarray.py)",
                "parity sign / WCS flip contracts (C16); read_image(default='masked') yields a 256x256 buffer of the pyramid's mode"]
ASSUMPTIONS = ["order independence and equality with the pasted mosaic follow from the per-input placement proved here and the "
               "update semantics of C15 (undefined never overwrites, agreeing overlaps commute); that composition and the global "
               "pixelization arithmetic are covered by the bounded tier"]
EXPLANATION = "serial body and worker body proved against one display-orientation placement statement for both input and tile parities"
