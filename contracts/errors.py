"""C19: exceptional postconditions (placeholder module; clauses are attached in parallel.py)."""
