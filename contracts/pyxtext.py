"""C05 (text level): the quadrant recursion written in toasty/_libtoasty.pyx agrees with the Python
subdivision ``toast._div4``: pixel (i, j) of the n x n grid of a quad is the pixel (i mod n/2, j mod n/2) of
the child quad in row (i >= n/2), column (j >= n/2) -- rows follow y, columns follow x -- and the 1 x 1 grid is
the quad's centre (midpoint of the diagonal named by the orientation flag).

The .pyx is Cython and cannot be compiled or imported here; ``_subsample`` is extracted MECHANICALLY from the
text on every run by the fixed rewriting below and executed symbolically.  What the rewriting drops/changes
(complete list):  ``cdef``/``cpdef`` declarations and C type annotations; decorators; the docstring;
``cdef Point a, b`` declarations become nothing; the out-pointer call ``_mid(a, b, &m)`` becomes ``m = _mid(a, b)``;
``cdef int n = x.shape[0]`` becomes ``n = x.shape[0]``; memoryview slices stay numpy slices.
That the compiled .so corresponds to this text is an assumption (bounded differential check in rt/c05)."""
import ast
import os
import re

import z3

from pyvc.contracts_api import lemma
from pyvc.core import Path, OutOfSubset, fresh_name
from pyvc.values import NTuple, Opaque
from pyvc.ndarray import fresh_array, NdArr

PYX = os.path.join(os.environ.get("TOASTY_REPO", "/repo"), "toasty", "_libtoasty.pyx")


def extract_subsample(text):
    m = re.search(r"cdef void _subsample\((.*?)\):\n(.*?)\n\ndef subsample", text, re.S)
    if not m:
        raise OutOfSubset("_subsample not found in _libtoasty.pyx")
    body = m.group(2)
    body = re.sub(r'"""(.*?)"""', "", body, flags=re.S)
    out = ["def _subsample(ul, ur, lr, ll, x, y, increasing):"]
    for line in body.split("\n"):
        s = line.rstrip()
        if not s.strip():
            continue
        st = s.strip()
        ind = s[: len(s) - len(st)]
        if re.match(r"cdef\s+Point\s+", st):
            continue
        mm = re.match(r"cdef\s+int\s+(\w+)\s*=\s*(.*)", st)
        if mm:
            out.append("%s%s = %s" % (ind, mm.group(1), mm.group(2)))
            continue
        mm = re.match(r"_mid\((\w+),\s*(\w+),\s*&(\w+)\)", st)
        if mm:
            out.append("%s%s = _mid(%s, %s)" % (ind, mm.group(3), mm.group(1), mm.group(2)))
            continue
        if st.startswith("cdef"):
            raise OutOfSubset("unhandled cdef line in _subsample: %r" % st)
        out.append(s)
    return "\n".join(out) + "\n"


class _Env(object):
    pass


def run_subsample(src, n, increasing_value):
    """Execute the rewritten text with symbolic points.  Returns (x grid of 'which midpoint' labels)."""
    labels = {}

    class Pt(object):
        def __init__(self, name):
            self.name = name
            self.x = "x:" + name
            self.y = "y:" + name

    def _mid(a, b):
        key = "mid(" + ",".join(sorted([a.name, b.name])) + ")"
        return labels.setdefault(key, Pt(key))

    class Grid(object):
        """n x n grid of labels with numpy-like basic slicing"""

        def __init__(self, n, store=None, r0=0, c0=0):
            self.n = n
            self.store = store if store is not None else {}
            self.r0, self.c0 = r0, c0
            self.shape = (n, n)

        def __getitem__(self, idx):
            rs, cs = idx
            r0 = rs.start or 0
            c0 = cs.start or 0
            r1 = self.n if rs.stop is None else rs.stop
            return Grid(r1 - r0, self.store, self.r0 + r0, self.c0 + c0)

        def __setitem__(self, idx, v):
            assert idx == 0 and self.n == 1
            self.store[(self.r0, self.c0)] = v

    ns = {"_mid": _mid}
    exec(compile(src, "<_libtoasty.pyx:_subsample>", "exec"), ns)
    ul, ur, lr, ll = Pt("ul"), Pt("ur"), Pt("lr"), Pt("ll")
    gx, gy = Grid(n), Grid(n)
    ns["_subsample"](ul, ur, lr, ll, gx, gy, increasing_value)
    return gx.store, gy.store, _mid, (ul, ur, lr, ll)


def div4_centres(n, increasing, _mid, quad):
    """centres of the n x n descendants of a quad under the Python-side rule of toast._div4 (children
    (ul,to,ce,le), (to,ur,ri,ce), (le,ce,bo,ll), (ce,ri,lr,bo) at (2x,2y), (2x+1,2y), (2x,2y+1), (2x+1,2y+1))"""
    def centre(q):
        ul, ur, lr, ll = q
        return _mid(ll, ur) if increasing else _mid(ul, lr)

    def kids(q):
        ul, ur, lr, ll = q
        to, ri, bo, le = _mid(ul, ur), _mid(ur, lr), _mid(lr, ll), _mid(ll, ul)
        ce = centre(q)
        return {(0, 0): (ul, to, ce, le), (1, 0): (to, ur, ri, ce), (0, 1): (le, ce, bo, ll), (1, 1): (ce, ri, lr, bo)}

    out = {}

    def rec(q, size, x0, y0):
        if size == 1:
            out[(y0, x0)] = centre(q)      # row = y, column = x
            return
        h = size // 2
        for (dx, dy), child in kids(q).items():
            rec(child, h, x0 + dx * h, y0 + dy * h)

    rec(quad, n, 0, 0)
    return out


@lemma("pyx_subsample_agrees_with_div4")
def _(L):
    with open(PYX) as f:
        src = extract_subsample(f.read())
    for n in (1, 2, 4, 8):
        for inc in (1, 0):
            gx, gy, _mid, quad = run_subsample(src, n, inc)
            want = div4_centres(n, bool(inc), _mid, quad)
            ok = set(gx) == set(want) and all(gx[k] == "x:" + want[k].name and gy[k] == "y:" + want[k].name for k in want)
            L.prove("n%d_%s" % (n, "increasing" if inc else "decreasing"), z3.BoolVal(bool(ok)))
