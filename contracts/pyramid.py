"""Contracts for toasty/pyramid.py: position algebra (C13), helpers (C08)."""
from pyvc.contracts_api import contract
from . import specfuns  # noqa: F401


@contract("toasty.pyramid.next_highest_power_of_2")
def _(c):
    c.args(n="int")
    c.returns("int")
    c.loop(0, invariant=[("pow2", "ispow2(p) and p >= 256"),
                         ("smallest", "p == 256 or 2 * n > p")],
           decreases="ite(n - p > 0, n - p, 0)")
    c.ensures("result >= n and result >= 256", name="contains")
    c.ensures("ispow2(result)", name="power_of_two")
    c.ensures("result == 256 or 2 * n > result", name="smallest")


@contract("toasty.pyramid.depth2tiles")
def _(c):
    c.args(depth="int")
    c.requires("depth >= -1")
    c.returns("int")
    c.ensures("result == T(depth)", name="closed_form")


@contract("toasty.pyramid.tiles_at_depth")
def _(c):
    c.args(depth="int")
    c.requires("depth >= 0")
    c.returns("int")
    c.ensures("result == pow2(2 * depth)", name="closed_form")


@contract("toasty.pyramid.pos_parent")
def _(c):
    c.args(pos="Pos")
    c.returns("tuple[Pos,int,int]")
    c.raises("ValueError", when="pos.n < 1")
    c.ensures("result[0].n == pos.n - 1", name="level")
    c.ensures("2 * result[0].x + result[1] == pos.x and 0 <= result[1] <= 1", name="x_split")
    c.ensures("2 * result[0].y + result[2] == pos.y and 0 <= result[2] <= 1", name="y_split")


@contract("toasty.pyramid.pos_children")
def _(c):
    c.args(pos="Pos")
    c.returns("list[Pos;4]")
    c.ensures("len(result) == 4", name="four")
    c.ensures("all_k(0, 4, lambda k: result[k].n == pos.n + 1 and result[k].x == 2 * pos.x + k % 2 "
              "and result[k].y == 2 * pos.y + k // 2)", name="order_TL_TR_BL_BR")
    c.ensures("all_k(0, 4, lambda k: is_child(result[k], pos))", name="children_marked")


@contract("toasty.pyramid.is_subtile")
def _(c):
    c.args(deeper_pos="Pos", shallower_pos="Pos")
    c.requires("deeper_pos.x >= 0 and deeper_pos.y >= 0 and shallower_pos.n >= 0")
    c.returns("bool")
    c.raises("ValueError", when="deeper_pos.n < shallower_pos.n")
    c.decreases("deeper_pos.n - shallower_pos.n")
    c.ensures("result == desc_def(deeper_pos, shallower_pos)", name="equals_desc")


# ---------------------------------------------------------------------------
# generators of positions (C13)

POSTFIX_SEQ = [
    ("length", "len(Y) == ite(pos.n > depth, 0, T(depth - pos.n))"),
    ("in_scope", "forall(lambda k: implies(0 <= k and k < len(Y), desc(Y[k], pos) and Y[k].n <= depth), trigger=lambda k: Y[k].n)"),
    ("distinct", "forall(lambda i, j: implies(0 <= i and i < j and j < len(Y), Y[i] != Y[j]), trigger=lambda i, j: (Y[i].n, Y[j].n))"),
    ("root_last", "implies(pos.n <= depth, len(Y) >= 1 and Y[len(Y) - 1] == pos)"),
    # deepest-first: no item is followed by one of its strict descendants (with coverage this
    # is "all four children of a position are yielded before the position itself")
    ("descendants_first", "forall(lambda i, j: implies(0 <= i and i < j and j < len(Y), "
                          "not (desc(Y[j], Y[i]) and Y[j] != Y[i])), trigger=lambda i, j: (Y[i].n, Y[j].n))"),
]


@contract("toasty.pyramid._postfix_pos")
def _(c):
    c.args(pos="Pos", depth="int")
    c.requires("pos.n >= 0 and pos.x >= 0 and pos.y >= 0", name="nonnegative_position")
    c.yields("Pos")
    c.decreases("ite(depth + 1 - pos.n > 0, depth + 1 - pos.n, 0)")
    uses = {"length": ["length", "four", "order_TL_TR_BL_BR"], "in_scope": ["in_scope", "four", "order_TL_TR_BL_BR", "children_marked"],
            "distinct": ["in_scope", "distinct", "four", "order_TL_TR_BL_BR", "children_marked"],
            "root_last": ["root_last", "length", "four", "order_TL_TR_BL_BR"],
            "descendants_first": ["in_scope", "descendants_first", "four", "order_TL_TR_BL_BR", "children_marked"]}
    for name, expr in POSTFIX_SEQ:
        c.yields_seq(expr, name=name, uses=uses[name])


@contract("toasty.pyramid.generate_pos")
def _(c):
    c.args(depth="int")
    c.requires("depth >= 0")
    c.yields("Pos")
    c.yields_seq("len(Y) == T(depth)", name="length_closed_form")
    c.yields_seq("forall(lambda k: implies(0 <= k and k < len(Y), valid_pos(Y[k]) and Y[k].n <= depth), trigger=lambda k: Y[k].n)", name="in_scope")
    c.yields_seq("forall(lambda i, j: implies(0 <= i and i < j and j < len(Y), Y[i] != Y[j]), trigger=lambda i, j: (Y[i].n, Y[j].n))", name="distinct")
    c.yields_seq("Y[len(Y) - 1] == Pos(0, 0, 0)", name="root_last")
    c.yields_seq("forall(lambda i, j: implies(0 <= i and i < j and j < len(Y), "
                 "not (desc(Y[j], Y[i]) and Y[j] != Y[i])), trigger=lambda i, j: (Y[i].n, Y[j].n))", name="descendants_first")
