"""Contracts for toasty/multi_tan.py (C09): per-input placement with parity reconciliation, for the
serial body and the worker body against ONE statement: in display orientation (row 0 on top) the
tile pixel (ty+k, tx+l) takes the input's display pixel (iy+k, ix+l) when that is defined, and
nothing else changes."""
import z3

from pyvc.contracts_api import contract
from pyvc.core import OutOfSubset, z3num, fresh_name
from pyvc import ops
from pyvc.ops import simp
from pyvc.values import Inst, Opaque, NTuple
from pyvc.mpmodel import new_queue
from pyvc.types import register_type
from . import image as im
from . import merge as _merge  # noqa: F401
from . import pyramidio as _pio  # noqa: F401
from . import study as _study
from . import parallel as _par
from .image import mk_image, _arr

# ---- parity of an image: carried by its (opaque) WCS -------------------------------------------------

def _venv(interp):
    """environment of the function under verification (also when the current frame is an inlined helper)"""
    for f_ in reversed(interp.frames):
        if getattr(f_, "env", None) is not None:
            return f_.env
    from pyvc.interp import Env
    return Env(module=interp.frame.module if interp.frame is not None else None)


def _parity_model(interp, env):
    """call-site behaviour of _wcs_to_parity_sign = its contract (contracts/parity.py, C16)"""
    wcs = env.lookup("wcs")
    interp.note_assumption("_wcs_to_parity_sign / _flip_wcs_parity are used through their contracts (proved in C16)")
    if "_g_parity" in wcs.attrs:
        return wcs.attrs["_g_parity"]
    from .parity import cd_of, det
    return simp(z3.If(det(cd_of(wcs.attrs["_g_header"])) < 0, 1, -1))


def _flip_model(interp, env):
    """call-site behaviour of _flip_wcs_parity = its contract: CD column 2 negated, CRPIX2 -> H+1-CRPIX2"""
    wcs = env.lookup("wcs")
    new = Opaque("wcs", fresh_name("wcs_flipped"))
    if "_g_parity" in wcs.attrs:
        new.attrs["_g_parity"] = simp(-z3num(wcs.attrs["_g_parity"]))
    if "_g_header" in wcs.attrs:
        from .parity import cd_of
        h = dict(wcs.attrs["_g_header"])
        cd = cd_of(h)
        for k in ("CDELT1", "CDELT2", "PC1_1", "PC1_2", "PC2_1", "PC2_2"):
            h.pop(k, None)
        h["CD1_1"], h["CD1_2"], h["CD2_1"], h["CD2_2"] = cd[0][0], -cd[0][1], cd[1][0], -cd[1][1]
        h["CRPIX2"] = z3.ToReal(z3num(env.lookup("image_height"))) + 1 - z3num(h["CRPIX2"])
        new.attrs["_g_header"] = h
    new.attrs["_g_flipped_from"] = wcs
    new.attrs["_g_height"] = env.lookup("image_height")
    return new


contract("toasty.image._wcs_to_parity_sign")(lambda c: (c.trusted("C16"), c.model(_parity_model)))
contract("toasty.image._flip_wcs_parity")(lambda c: (c.trusted("C16"), c.model(_flip_model)))
for _qn in ("toasty.image.Image.get_parity_sign", "toasty.image.Image.flip_parity"):
    contract(_qn)(lambda c: c.inline())


def _read_model(interp, env):
    """read_image as seen by an updater: with default='masked' a missing tile reads as an all-undefined
    buffer, so the result is always a 256x256 image of the pyramid's mode (arbitrary content)."""
    d = env.lookup("default")
    if d == "masked":
        return mk_image(interp, "basis", None, 256, 256, buffer_for=interp._case["mode"])
    return _merge._tile_or_none(interp, "tile")


contract("toasty.pyramid.PyramidIO.read_image")(lambda c: c.model(_read_model))
contract("toasty.pyramid.PyramidIO.update_image")(lambda c: c.inline())


class TanPlugin(object):
    """one (image, descriptor) item of zip(collection.images(), self._descs) / of the work queue"""

    def arbitrary_item(self, interp, it, label):
        if isinstance(it, Opaque) and it.kind == "zip":
            return make_item(interp), True, z3.Int(fresh_name(label + "_k"))
        return None


    def length(self, interp, x):
        if isinstance(x, Opaque) and x.kind == "descs":
            if "_g_len" not in x.attrs:
                x.attrs["_g_len"] = z3.Int(fresh_name("n_descs"))
                interp.path.assume(x.attrs["_g_len"] >= 0)
            return x.attrs["_g_len"]
        return NotImplemented


def make_item(interp):
    case = interp._case
    tiling = _study._fresh_tiling(interp, "sub_tiling")
    interp.path.assume(interp.spec(_study.INV.replace("self.", "t."), _venv(interp), extra={"t": tiling}))
    image = mk_image(interp, "image", case["mode"], tiling.fields["_height"], tiling.fields["_width"])
    wcs = Opaque("wcs", fresh_name("wcs"))
    wcs.attrs["_g_parity"] = case["image_parity"]
    image.fields["_wcs"] = wcs
    desc = Inst("MultiTanDescriptor", module="toasty.multi_tan", fields={"sub_tiling": tiling})
    interp.path.tan_item = (image, desc, NdSnapshot(image))
    return (image, desc)


class NdSnapshot(object):
    """the input image as it was handed over (before any parity flip)"""

    def __init__(self, image):
        from pyvc.ndarray import snapshot_fn
        a = _arr(image)
        self.fn = snapshot_fn(a)
        self.shape = a.shape
        self.mode = image.fields["_mode"]


def install_externals(X):
    X.plugins.insert(0, TanPlugin())


register_type("queue[tan_item]", lambda interp, name: new_queue(name, item_type="tan_item"))
register_type("tan_item", lambda interp, name: make_item(interp))

CASES = [{"mode": m, "image_parity": p, "bottom_up": bu} for m in ("F32", "I16", "RGBA") for p in (-1, 1) for bu in (False, True)]


def _pio_inst(case):
    return Inst("PyramidIO", module="toasty.pyramid", fields={
        "_base_dir": "base", "_scheme": "{1}/{3}/{3}_{2}", "_default_format": "fits" if case["bottom_up"] else "npy"})


def placement_trace(loop_positions):
    def hook(m, path, fr, env, outcome, value, exc):
        case = m._case
        ev = path.events
        for si in [i for i, e in enumerate(ev) if e[0] == "loop_iter" and e[1] == loop_positions]:
            seg = ev[si + 1:]
            if not any(e[0] == "loop_iter_end" and e[1] == loop_positions for e in seg):
                continue
            pos, w, h, ix, iy, tx, ty = fr.last_loop_item[loop_positions]
            names = []
            for e in seg:
                if e[0] in ("enter", "exit") and e[1] == "lock":
                    names.append(e[0] + "_lock")
                elif e[0] == "call" and e[1].endswith("PyramidIO.read_image"):
                    names.append("read")
                elif e[0] == "call" and e[1].endswith("PyramidIO.write_image"):
                    names.append("write")
            path.oblige(m.oblname("placement/one_locked_read_modify_write_per_populated_tile"),
                        z3.BoolVal(names == ["enter_lock", "read", "write", "exit_lock"]), kind="trace", assume_after=False)
            if names != ["enter_lock", "read", "write", "exit_lock"]:
                continue
            rd = [e for e in seg if e[0] == "call" and e[1].endswith("PyramidIO.read_image")][0][2]
            wr = [e for e in seg if e[0] == "call" and e[1].endswith("PyramidIO.write_image")][0][2]
            okp = ops.conj([ops.equals(m, rd["pos"], pos), ops.equals(m, wr["pos"], pos)])
            path.oblige(m.oblname("placement/updates_the_tile_of_that_position"), okp if not isinstance(okp, bool) else z3.BoolVal(okp),
                        kind="trace", assume_after=False)
            image, desc, orig = path.tan_item
            B0 = path.read_results[-1]       # what was read (arbitrary earlier content)
            B = wr["image"]
            bu = case["bottom_up"]
            p0 = case["image_parity"]
            H = orig.shape[0]
            src = Inst("Image", module="toasty.image", fields={"_array": _Fn(orig), "_mode": orig.mode})
            R, C = z3.Int(fresh_name("R")), z3.Int(fresh_name("C"))
            saved = list(path.pc)
            path.assume(z3.And(R >= 0, R < 256, C >= 0, C < 256))
            br = simp(255 - R) if bu else R                     # buffer row of display row R
            inside = z3.And(R >= z3num(ty), R < z3num(ty) + z3num(h), C >= z3num(tx), C < z3num(tx) + z3num(w))
            dr = simp(z3num(iy) + (R - z3num(ty)))              # display row of the input
            sr = dr if p0 == -1 else simp(z3num(H) - 1 - dr)    # array row of the input as handed over
            sc = simp(z3num(ix) + (C - z3num(tx)))
            sundef = im.pix_undef(m, src, sr, sc)
            g_out = ops.implies(z3.Not(inside), im.pix_same(m, B, br, C, B0, br, C))
            g_undef = ops.implies(ops.conj([inside, sundef]), im.pix_same(m, B, br, C, B0, br, C))
            if case["mode"] == "I16":
                takes = ops.implies(ops.conj([inside, ops.negate(sundef), im.pix_undef(m, B0, br, C)]), im.pix_takes_source(m, B, br, C, src, sr, sc))
            else:
                takes = ops.implies(ops.conj([inside, ops.negate(sundef)]), im.pix_takes_source(m, B, br, C, src, sr, sc))
            path.oblige(m.oblname("placement/outside_the_rectangle_the_tile_is_unchanged"), g_out, kind="trace", assume_after=False, drop=_merge.DROP)
            path.oblige(m.oblname("placement/undefined_input_pixels_change_nothing"), g_undef, kind="trace", assume_after=False, drop=_merge.DROP)
            path.oblige(m.oblname("placement/defined_input_pixel_lands_on_its_display_position"), takes, kind="trace", assume_after=False, drop=_merge.DROP)
            path.pc[:] = saved
    return hook


class _Fn(object):
    """array-like view of a snapshot (at/shape/ndim)"""

    def __init__(self, snap):
        self.snap = snap
        self.shape = snap.shape
        self.ndim = len(snap.shape)

    def at(self, idx):
        return self.snap.fn(tuple(idx))


def serial_setup(interp, path):
    case = interp._case
    coll = Opaque("collection", "collection")
    me = Inst("MultiTanProcessor", module="toasty.multi_tan", fields={"_collection": coll, "_descs": Opaque("descs", "descs"),
                                                                   "_n_todo": z3.Int(fresh_name("n_todo"))})
    return {"self": me, "pio": _pio_inst(case), "cli_progress": False}


_ts = contract("toasty.multi_tan.MultiTanProcessor._tile_serial")


@_ts
def _(c):
    c.cases(*CASES)
    c.setup(serial_setup)
    c.loop(0, summarise="stateless")
    c.loop(1, summarise="stateless")
    c.may_raise("IOError", "tile I/O errors propagate")
    c.may_raise("ValueError", "propagated from read_image")
    c.on_path(placement_trace(1))


def worker_setup(interp, path):
    case = interp._case
    return {"queue": new_queue("queue", item_type="tan_item"), "done_event": Opaque("event", fresh_name("done_event")),
            "pio": _pio_inst(case), "_kwargs": None}


_tw = contract("toasty.multi_tan._mp_tile_worker")


@_tw
def _(c):
    c.cases(*CASES)
    c.setup(worker_setup)
    c.loop(0, invariant=[("true", "True")])
    c.loop(1, summarise="stateless")
    c.may_raise("IOError", "tile I/O errors terminate the worker (exit code != 0)")
    c.may_raise("ValueError", "propagated from read_image")
    c.on_path(placement_trace(1))
    # C03 guarantee: each received (image, descriptor) is tiled exactly once; exit only on time-out with the flag read first
    c.on_path(_par.worker_trace("queue", lambda seg, item: sum(1 for e in seg if e[0] in ("loop_summary", "loop_iter") and e[1] == 1) == 1))


# ---- C03: the producer of the parallel tiling stage (one put per (image, descriptor), shutdown order) ----------
def producer_setup(interp, path):
    case = interp._case
    coll = Opaque("collection", "collection")
    me = Inst("MultiTanProcessor", module="toasty.multi_tan", fields={"_collection": coll, "_descs": Opaque("descs", "descs"),
                                                                   "_n_todo": z3.Int(fresh_name("n_todo"))})
    par = z3.Int(fresh_name("parallel"))
    path.assume(par >= 1)
    from pyvc.values import PyDict
    return {"self": me, "pio": _pio_inst(case), "cli_progress": False, "parallel": par, "kwargs": PyDict({})}


@contract("toasty.multi_tan.MultiTanProcessor._tile_parallel")
def _(c):
    c.cases(CASES[0])
    c.setup(producer_setup)
    c.local(workers="emptylist => proclist", queue="opaque:queue => queue[tan_item]", done_event="opaque:event => event")
    c.loop(0, summarise="stateless")
    c.loop(1, summarise="stateless")
    c.may_raise("WorkerFailedError", "a failed worker makes the stage fail visibly")
    c.on_path(_par.producer_trace("toasty.multi_tan._mp_tile_worker",
                                  lambda env: (env.lookup("queue"), env.lookup("done_event"), env.lookup("pio"), env.lookup("kwargs")),
                                  item_of=lambda it: it, queue_name="queue"))
