"""C13 — Quadtree enumeration and tile counts are consistent and match what is visited."""
PROPERTY = "C13"
LEVEL = "other"
CONTRACT_MODULES = ['contracts.specfuns', 'contracts.lemmas_desc', 'contracts.pyramid', 'contracts.parallel', 'contracts.walk', 'contracts.reducer', 'contracts.lemmas_embed', 'contracts.generator', 'contracts.image', 'contracts.merge', 'contracts.pyramidio', 'contracts.study', 'contracts.multitan', 'contracts.multiwcs', 'contracts.toastsample', 'contracts.toastgeom', 'contracts.toastgen', 'contracts.paths', 'contracts.datarange', 'contracts.builderc']
FUNCTIONS = ['toasty.pyramid.pos_parent', 'toasty.pyramid.pos_children', 'toasty.pyramid.is_subtile', 'toasty.pyramid.depth2tiles', 'toasty.pyramid.tiles_at_depth', 'toasty.pyramid._postfix_pos', 'toasty.pyramid.generate_pos', 'toasty.pyramid.Pyramid.count_leaf_tiles', 'toasty.pyramid.Pyramid.count_live_tiles', 'toasty.pyramid.Pyramid.count_operations', 'toasty.pyramid.Pyramid._generator', 'toasty.pyramid._make_position_filter', 'toasty.pyramid.Pyramid.subpyramid', 'toasty.toast._postfix_corner', 'toasty.toast.generate_tiles_filtered', 'toasty.toast.generate_tiles', 'toasty.pyramid.Pyramid.walk', 'toasty.pyramid.Pyramid._walk_serial', 'toasty.pyramid.Pyramid._walk_parallel', 'toasty.pyramid.Pyramid.visit_leaves', 'toasty.pyramid.Pyramid._visit_leaves_serial', 'toasty.toast.sample_layer', 'toasty.toast.sample_layer_filtered', 'toasty.merge.cascade_images']
LEMMAS = ["desc_child_step", "desc_child_pair", "desc_siblings_disjoint", "desc_levels", "desc_transitive",
          "desc_root", "pow2_add", "ops_plus_leaves_equals_live",
          "embed_preserves_desc", "embed_below_apex", "embed_valid", "anc_above_apex", "anc_valid", "embed_injective"]
SLOW = ("_postfix_pos/yields_seq",)
TRUSTED_BASE = [
    "pyvc VC generator: python subset semantics as stated in DESIGN.md 2.2 (ints unbounded, floor // and %)",
    "z3 and cvc5 as SMT back ends",
    "pow2 facts used by instantiation (positivity, doubling, monotonicity, pow2(2k) mod 3 == 1) follow from "
    "pow2(0)=1, pow2(k+1)=2*pow2(k) by induction; only the listed lemmas are machine-checked",
]
ASSUMPTIONS = [
    "the reduction iterator (PyramidReductionIterator.__next__/set_data/_ensure_levels) is used through an ASSUMED protocol: "
    "each position of the enumeration at or below the apex delivered once, children before parents, child_data = the values set for "
    "the delivered children (default otherwise), result() = the apex's value; its implementation is exercised by the bounded tier only",
    "coverage (every in-scope position is yielded) is not discharged as a VC: it follows from the discharged clauses "
    "length == T(depth-n), in_scope and distinct by the pigeonhole principle over the finite scope; the bounded tier "
    "checks it by enumeration",
]
EXPLANATION = ("Position algebra; the recursive generators by induction (callee contract = induction hypothesis); the generic "
               "sub-pyramid enumeration as the embedded full enumeration followed by the apex's ancestors (lemma-backed embedding "
               "facts); position filter and subpyramid filter composition; TOAST enumeration with its recursive count; the three "
               "counters against the reduction-iterator protocol (assumed; its implementation is bounded tier).")
