"""C08 — Study tiling is a lossless, centred partition of the image into 256-pixel tiles."""
PROPERTY = "C08"
LEVEL = "proof"
CONTRACT_MODULES = ["contracts.specfuns", "contracts.lemmas_desc", "contracts.pyramid", "contracts.parallel", "contracts.walk", "contracts.reducer", "contracts.lemmas_embed", "contracts.generator", "contracts.image", "contracts.merge", "contracts.pyramidio", "contracts.study", "contracts.multitan", "contracts.multiwcs", "contracts.toastsample", "contracts.toastgeom", "contracts.toastgen"]
FUNCTIONS = [
    "toasty.pyramid.next_highest_power_of_2",
    "toasty.study.StudyTiling.__init__",
    "toasty.study.StudyTiling.count_populated_positions",
    "toasty.study.StudyTiling.generate_populated_positions",
    "toasty.study.StudyTiling.compute_for_subimage",
    "toasty.study.StudyTiling.image_to_tile",
    "toasty.study.StudyTiling.tile_image",
    "toasty.image.Image.fill_into_maskable_buffer",
    "toasty.pyramid.PyramidIO.write_image",
    "toasty.image.Image.is_completely_masked",
]
LEMMAS = []
SLOW = ()
TRUSTED_BASE = [
    "pyvc VC generator (this repository's /verif/pyvc): python subset semantics as stated in DESIGN.md 2.2",
    "z3 4.x/5.1 and cvc5 1.0 as SMT back ends",
    "python ints are unbounded (z3 Int); // and % follow floor semantics",
    "np.log2 exact on powers of two (int(np.log2(2**k)) == k)",
]
ASSUMPTIONS = []
EXPLANATION = ("Contracts on the real StudyTiling code discharged for all widths/heights/offsets; "
               "file read-back through real codecs is the bounded tier.")
