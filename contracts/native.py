"""Concrete twins of the spec functions + native evaluation of contract clauses on the real
objects (used by replay and by the R-tier monitors).  Clauses containing unbounded
quantifiers are not natively evaluable and are skipped (reported as such)."""
import importlib


def pow2(k):
    if k < 0:
        raise ValueError("pow2 of negative")
    return 2 ** k


def ilog2(v):
    return v.bit_length() - 1 if v > 0 else -1


def ispow2(v):
    return v > 0 and (v & (v - 1)) == 0


def T(d):
    return (4 ** (d + 1) - 1) // 3 if d >= -1 else 0


def desc(d, s):
    if d.n < s.n:
        return False
    P = 2 ** (d.n - s.n)
    return s.x * P <= d.x < (s.x + 1) * P and s.y * P <= d.y < (s.y + 1) * P


def valid_pos(p):
    return p.n >= 0 and 0 <= p.x < 2 ** p.n and 0 <= p.y < 2 ** p.n


def implies(a, b):
    return (not a) or bool(b)


def iff(a, b):
    return bool(a) == bool(b)


def ite(c, a, b):
    return a if c else b


def all_k(lo, hi, f):
    return all(f(k) for k in range(lo, hi))


class NotEvaluable(Exception):
    pass


def forall(*a, **k):
    raise NotEvaluable("unbounded quantifier")


exists = forall

NATIVE_NS = dict(pow2=pow2, ilog2=ilog2, ispow2=ispow2, T=T, desc=desc, valid_pos=valid_pos, implies=implies, iff=iff,
                 ite=ite, all_k=all_k, forall=forall, exists=exists)


def eval_clause(expr, ns):
    env = dict(NATIVE_NS)
    env.update(ns)
    try:
        return bool(eval(compile(expr.strip(), "<clause>", "eval"), {"__builtins__": __builtins__}, env))
    except NotEvaluable:
        return None


def resolve(qualname):
    """'toasty.pyramid.Pyramid.walk' -> (owner class or None, python object)."""
    parts = qualname.split(".")
    for k in range(len(parts), 0, -1):
        try:
            mod = importlib.import_module(".".join(parts[:k]))
        except ImportError:
            continue
        obj, owner = mod, None
        for p in parts[k:]:
            owner = obj
            obj = getattr(obj, p)
        return (owner if isinstance(owner, type) else None), obj
    raise ImportError(qualname)
