"""C05 — A tile's 256x256 pixel grid is the centres of the tiles eight levels deeper."""
PROPERTY = "C05"
LEVEL = "other"
CONTRACT_MODULES = ["contracts.specfuns", "contracts.lemmas_desc", "contracts.pyramid", "contracts.image", "contracts.merge",
                    "contracts.pyramidio", "contracts.study", "contracts.parallel", "contracts.multitan", "contracts.toastsample",
                    "contracts.toastgeom", "contracts.pyxtext"]
FUNCTIONS = ["toasty.toast.toast_tile_get_coords", "toasty.toast._level0_tile_get_coords", "toasty.toast._div4"]
LEMMAS = ["pyx_subsample_agrees_with_div4"]
SLOW = ()
TRUSTED_BASE = ["pyvc VC generator; z3/cvc5", "compiled mid symmetric; the .so corresponds to the .pyx text (cannot be rebuilt offline)",
                "mechanical rewriting of the Cython text listed in contracts/pyxtext.py"]
ASSUMPTIONS = ["text-level agreement is checked by symbolic execution of the rewritten _subsample for grid sizes 1, 2, 4, 8 and both "
               "orientations (the recursion is uniform in n; 256 = 2^8 follows the same rule) - a bounded check of the text, not an induction",
               "latitude containment of pixel centres is floating-point geometry: bounded tier"]
EXPLANATION = ("toast_tile_get_coords forwards exactly this tile's corners/orientation; the level-0 grid is the four level-1 "
               "subdivisions at half resolution, each in its own quadrant; one Python subdivision step proved; the .pyx recursion text "
               "agrees with the Python subdivision rule (rows = y, columns = x)")
