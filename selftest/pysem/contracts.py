"""Contracts (types only) for the conformance corpora.

corpus.py   : parameters named b* are bools, p* are Pos, the rest ints.
npcorpus.py : array parameters are typed by their name (table below); a, b are ints.
"""
import ast
import os

from pyvc.contracts_api import contract

HERE = os.path.dirname(os.path.abspath(__file__))
FUNCTIONS = []
NP_FUNCTIONS = []

ARRAY_PARAMS = {
    "f2": "ndarray:f32:2x2", "g2": "ndarray:f32:2x2", "f4": "ndarray:f32:4x4", "d4": "ndarray:f64:4x4",
    "u4": "ndarray:u8:4x4", "v4": "ndarray:u8:4x4", "i4": "ndarray:i16:4x4", "j4": "ndarray:i32:4x4",
    "c4": "ndarray:u8:4x4x4", "c3": "ndarray:u8:4x4x3", "h3": "ndarray:f16:2x2x3", "k3": "ndarray:f16:2x2x3",
}


def _scan(fname, prefix, out, arrays):
    tree = ast.parse(open(os.path.join(HERE, fname)).read())
    for n in tree.body:
        if not isinstance(n, ast.FunctionDef):
            continue
        types = {}
        for a in n.args.args:
            if arrays and a.arg in ARRAY_PARAMS:
                types[a.arg] = ARRAY_PARAMS[a.arg]
            elif a.arg.startswith("b") and a.arg != "b":
                types[a.arg] = "bool"
            elif a.arg.startswith("p"):
                types[a.arg] = "Pos"
            else:
                types[a.arg] = "int"
        q = prefix + n.name
        out.append(q)

        def mk(c, types=types):
            c.args(**types)
        contract(q)(mk)


_scan("corpus.py", "pysem.corpus.", FUNCTIONS, False)
_scan("npcorpus.py", "pysem.npcorpus.", NP_FUNCTIONS, True)


# ---- refusal corpus: the engine must answer "out of subset" (selftest/pysem/refuse.py) -------------------------------
REFUSE = ["pysem.refuse.cached_square", "pysem.refuse.remember_last", "pysem.refuse.decorated_increment", "pysem.refuse.Box.recall"]


@contract("pysem.refuse.cached_square")
def _(c):
    c.args(a="int")
    c.ensures("result == a * a", name="square")


@contract("pysem.refuse.remember_last")
def _(c):
    c.args(a="int")
    c.ensures("result == a", name="first_call_behaviour")


@contract("pysem.refuse.decorated_increment")
def _(c):
    c.args(a="int")
    c.ensures("result == a + 1", name="increment")


@contract("pysem.refuse.Box.recall")
def _(c):
    c.self_type("Box")
    c.args(a="int")
    c.ensures("result == a", name="fresh_object_behaviour")
