"""numpy-semantics conformance corpus for the functional-array model of the pyvc engine (pyvc/ndarray.py).

Parameter naming fixes the array type of each argument (see selftest/pysem/contracts.py):
  f2  float32 (2,2)      f4  float32 (4,4)     d4  float64 (4,4)     g2 float32 (2,2) second operand
  u4  uint8   (4,4)      i4  int16   (4,4)     j4  int32 (4,4)       v4 uint8 (4,4) second operand
  c4  uint8   (4,4,4)  (RGBA)    c3 uint8 (4,4,3) (RGB)   h3 float16 (2,2,3)   k3 float16 (2,2,3) second operand
Scalars: a, b ints.  The forms are those the functions of toasty under contract use.
"""
import numpy as np


def fill_nan(f2):
    f2.fill(np.nan)
    return f2


def fill_zero_int(u4):
    u4.fill(0)
    return u4


def isnan_mask(f2):
    return np.isnan(f2)


def not_isnan(f2):
    return ~np.isnan(f2)


def all_nan(f2):
    return bool(np.all(np.isnan(f2)))


def all_zero(u4):
    return bool(np.all(u4 == 0))


def alpha_all_zero(c4):
    return bool(np.all(c4[..., 3] == 0))


def putmask_float(f2, g2):
    valid = ~np.isnan(g2)
    np.putmask(f2, valid, g2)
    return f2


def putmask_int_nonzero(u4, v4):
    valid = v4 != 0
    np.putmask(u4, valid, v4)
    return u4


def putmask_rgba(c4, c3):
    buf = np.zeros((4, 4, 4), dtype=np.uint8)
    buf[..., :3] = c3
    buf[..., 3] = 255
    valid = c4[..., 3] != 0
    valid = np.broadcast_to(valid[..., None], c4.shape)
    np.putmask(buf, valid, c4)
    return buf


def any_nan_axis2(h3, k3):
    valid = ~np.any(np.isnan(k3), axis=2)
    valid = np.broadcast_to(valid[..., None], k3.shape)
    np.putmask(h3, valid, k3)
    return h3


def slice_assign(f4, g2, a, b):
    y = a % 3
    x = b % 3
    f4[y:y + 2, x:x + 2] = g2
    return f4


def slice_read(f4, a, b):
    y = a % 3
    x = b % 3
    return f4[y:y + 2, x:x + 2].copy()


def flip_rows(f4):
    return f4[::-1].copy()


def flip_rows_int(u4):
    return u4[::-1].copy()


def ellipsis_channel(c4):
    return (c4[..., 0].copy(), c4[..., 3].copy(), c4[..., :3].copy())


def downsample_mean(f4):
    s = (2, 2, 2, 2)
    return np.nanmean(f4.reshape(s), axis=(1, 3)).astype(f4.dtype)


def downsample_mean_f64(d4):
    s = (2, 2, 2, 2)
    return np.nanmean(d4.reshape(s), axis=(1, 3)).astype(d4.dtype)


def maximum_int(u4, v4):
    return np.maximum(u4, v4)


def add_u8(u4, v4):
    return u4 + v4


def scale_float(f2, a):
    return f2 * a + 1


def sub_float(f2, g2):
    return f2 - g2


def atleast_2d_noop(f2):
    return np.atleast_2d(f2)


def int_all_any(u4):
    return (bool(np.any(u4 == 255)), bool(np.all(u4 != 7)))


def mask_and_or(f2, g2):
    a = np.isnan(f2)
    b = np.isnan(g2)
    return (a & b, a | b, ~a)


def fill_value_int(i4, a):
    i4.fill(a % 100)
    return i4


def setitem_scalar_all(f4):
    f4[...] = 2.5
    return f4


def setitem_row(f4, a):
    f4[a % 4] = 0.0
    return f4


def negative_index(u4):
    return (int(u4[-1, -1]), u4[-1].copy())


def shape_attrs(c4, f2):
    return (c4.shape, c4.ndim, f2.shape[0], f2.shape[1], c4.shape[2], f2.dtype.kind, c4.dtype.kind, c4.dtype.itemsize)


def consts(a):
    z = np.zeros((2, 2), dtype=np.float32)
    o = np.ones((2, 2), dtype=np.uint8)
    f = np.full((2, 2), np.nan, dtype=np.float32)
    return (z, o, f)


def astype_float(u4):
    return u4.astype(np.float32)


def compare_scalar(i4, a):
    return (i4 == a, i4 != a)


def roll_cols(f4):
    return np.roll(f4, 2, axis=1)


def element_read(u4, a, b):
    return int(u4[a % 4, b % 4])


def element_write(u4, a, b):
    u4[a % 4, b % 4] = 7
    return u4


def copy_is_independent(u4):
    c = u4.copy()
    c.fill(1)
    return (u4, c)


def view_aliases(u4):
    v = u4[1:3, 1:3]
    v.fill(9)
    return u4


def int_update_mask(i4, j4):
    src = i4
    dst = np.maximum(j4, j4)
    valid = (src != 0) & ((dst == 0) | (src > dst))
    np.putmask(dst, valid, src)
    return (valid, dst)


def mask_precedence(i4, j4):
    src = i4
    dst = j4
    a = (src != 0) & (dst == 0) | (src > dst)
    b = ((src != 0) & (dst == 0)) | (src > dst)
    return (a, b)


def isfinite_mask(f2):
    return (np.isfinite(f2), np.isnan(f2), bool(np.all(np.isfinite(f2))), bool(np.any(np.isfinite(f2))))


def putmask_finite(f2, g2):
    valid = np.isfinite(g2)
    np.putmask(f2, valid, g2)
    return f2


def f16_pixel_finite(h3, k3):
    valid = np.all(np.isfinite(k3), axis=2)
    valid = np.broadcast_to(valid[..., None], k3.shape)
    np.putmask(h3, valid, k3)
    return h3
