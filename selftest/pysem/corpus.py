"""Python-semantics conformance corpus for the pyvc engine (NOT code of toasty).

Every function below is run symbolically by the engine and natively by CPython on sampled
arguments; the symbolic paths must admit every native behaviour (vf/conformance.py).  The corpus
exercises each language construct the engine gives a symbolic meaning to, in particular those whose
SMT encoding differs from the naive one (floor division and modulo of negative numbers, shifts,
bit operations, truthiness, value semantics of and/or, chained comparisons, exceptions).
All parameters are ints unless the name starts with b (bool) or p (Pos).
"""
import math
from collections import namedtuple

Pos = namedtuple("Pos", "n x y")

K = 7
TABLE = (3, 1, 4, 1, 5, 9, 2, 6)


def floordiv(a, b):
    return a // b


def mod(a, b):
    return a % b


def floordiv_const(a):
    return (a // 2, a // 3, a // -2, (-a) // 4, a // 256)


def mod_const(a):
    return (a % 2, a % 3, a % -3, (-a) % 4, a % 256)


def divmod_identity(a, b):
    q = a // b
    r = a % b
    return q * b + r == a, (0 <= r < b) if b > 0 else (b < r <= 0)


def true_div_floor(a, b):
    return int(a / b)


def math_floor_ceil(a, b):
    return (math.floor(a / b), math.ceil(a / b))


def shifts(a, k):
    return (a << k, a >> k)


def shift_const(a):
    return (a << 1, a >> 1, a >> 3, 1 << 4, (a >> 1) << 1)


def bit_ops(a, b):
    return (a & b, a | b, a ^ b)


def bit_flags(a):
    f = 0
    for i in range(4):
        if a & (1 << i):
            f |= 1 << (3 - i)
    return f


def power(a):
    return (2 ** 3, a ** 2, 2 ** 10)


def power_sym(k):
    return 2 ** k


def chained(a, b, c):
    return (a < b <= c, a == b == c, a < b > c, a != b)


def bool_values(a, b):
    return (a or b, a and b, not a, (a or 5), (a and 5))


def bool_mixed(a, bflag):
    x = bflag and a
    y = bflag or a
    return (x, y)


def cond_expr(a, b):
    return a if a > b else b


def truthy_int(a):
    if a:
        return 1
    return 0


def optional_truthy(a, bflag):
    v = a if bflag else None
    if v:
        return ("truthy", v)
    if v is None:
        return ("none", 0)
    return ("zero", v)


def optional_or_default(a, bflag):
    v = a if bflag else None
    return v or 17


def is_none_checks(a, bflag):
    v = None if bflag else a
    return (v is None, v is not None, v == None, v != None)   # noqa: E711


def builtins_minmax(a, b, c):
    return (min(a, b), max(a, b), min(a, b, c), max(a, b, c), abs(a), abs(a - b))


def builtins_conv(a, bflag):
    return (int(bflag), bool(a), int(a), bflag + 1, bflag * a)


def tuple_ops(a, b, c):
    t = (a, b, c)
    x, y, z = t
    return (t[0], t[-1], t[1:], len(t), x + z, t == (a, b, c), (a, b) == (b, a), a in t, 99 in t)


def tuple_compare(a, b, c, d):
    return ((a, b) < (c, d), (a, b) <= (c, d), (a, b) == (c, d))


def pos_fields(p):
    return (p.n, p.x, p.y, p[0], p[2], p == Pos(p.n, p.x, p.y), p._replace(x=p.x + 1))


def pos_parent_like(p):
    if p.n < 1:
        raise ValueError("no parent")
    parent = Pos(n=p.n - 1, x=p.x // 2, y=p.y // 2)
    return parent, p.x % 2, p.y % 2


def raises_value(a):
    if a < 0:
        raise ValueError("negative")
    if a > 100:
        raise IndexError("big")
    return a + 1


def zero_division(a, b):
    try:
        return a // b
    except ZeroDivisionError:
        return -12345


def try_finally(a):
    out = []
    try:
        if a % 2:
            raise KeyError("odd")
        out.append(1)
    except KeyError:
        out.append(2)
    finally:
        out.append(3)
    return out


def nested_try(a, b):
    try:
        try:
            return a // b
        except ValueError:
            return -1
    except ZeroDivisionError:
        return -2


def loop_concrete(a):
    s = 0
    for i in range(5):
        if i == a:
            continue
        if i > a + 2:
            break
        s += i * a
    else:
        s += 1000
    return s


def loop_table(a):
    best = None
    for k, v in enumerate(TABLE):
        if v > a and (best is None or v < TABLE[best]):
            best = k
    return best


def comprehension(a, b):
    vals = [a, b, a + b, a - b]
    pos = [v for v in vals if v > 0]
    sq = [v * v for v in vals]
    return (len(pos), sum(sq), any(v == 0 for v in vals), all(v >= 0 for v in vals), max(sq))


def comprehension_truthy(a, b, bflag):
    vals = [a, b, None if bflag else 0, a * b]
    return [v for v in vals if v]


def dict_ops(a):
    d = {"x": a, "y": a + 1}
    d["z"] = d["x"] * 2
    return (d.get("x"), d.get("q"), d.get("q", 5), "z" in d, "w" in d, len(d))


def list_ops(a, b):
    out = []
    out.append(a)
    out.append(b)
    out += [a + b]
    out.insert(0, 7)
    return (out, len(out), out[-1], out[1:3])


def closures(a, b):
    def add(x):
        return x + a
    f = lambda x: x * b        # noqa: E731
    return (add(b), f(a), (lambda: a - b)())


def default_args(a, b=3):
    return a * b + K


def aug_assign(a, b):
    x = a
    x += b
    x *= 2
    x -= 1
    x //= 3
    x %= 5
    return x


def while_concrete(a):
    # the loop runs on a concrete counter only
    i = 0
    acc = a
    while i < 3:
        acc = acc * 2 + i
        i += 1
    return acc


def early_return(a, b):
    for i in (1, 2, 3):
        if a * i == b:
            return i
    return 0


def sign_and_round(a):
    return (round(a / 2), round(a / 4), int(-a / 2), -a // 2)


def compare_bool_int(a, bflag):
    return (bflag == 1, bflag == a, bflag < a, True + bflag)


def ternary_chain(a):
    return "neg" if a < 0 else ("zero" if a == 0 else "pos")


def str_concrete(bflag):
    s = "a" if bflag else "b"
    return (s + "c", s == "a", "x{}y".format(1), "%d-%d" % (1, 2), s.upper())


def swap_unpack(a, b):
    a, b = b, a
    (c, d), e = (a, b), a + b
    return (a, b, c, d, e)


def star_args(a, b):
    def f(*args, **kw):
        return len(args) + len(kw)
    return f(a, b, k=1)


def power_of_two_ceiling(a):
    # like next_highest_power_of_2 but via bit_length
    if a <= 0:
        return 1
    return 1 << (a - 1).bit_length()


def assert_stmt(a):
    assert a != 13, "unlucky"
    return a


def global_const(a):
    return a % K + len(TABLE)


def or_chain_mixed(bflag, bother, a):
    x = bflag or bother or a
    y = bflag and bother and a
    return (x, y, 1 if x else 0, 1 if y else 0)
