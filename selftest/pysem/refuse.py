"""Functions the engine must REFUSE (out of subset): each would verify against the contract below if the engine silently
assumed a fresh process / a fresh object / an undecorated function, and each misbehaves for some history."""
import functools

_CACHE = {}


def cached_square(a):
    if a in _CACHE:
        return _CACHE[a]
    _CACHE[a] = a * a
    return a * a


_LAST = None


def remember_last(a):
    global _LAST
    r = a if _LAST is None else _LAST
    _LAST = a
    return r


def _memo(f):
    seen = {}

    @functools.wraps(f)
    def w(a):
        if a % 2 not in seen:
            seen[a % 2] = f(a)
        return seen[a % 2]
    return w


@_memo
def decorated_increment(a):
    return a + 1


class Box(object):
    _seen = None

    def remember(self, a):
        self._seen = a
        return a

    def recall(self, a):
        if self._seen is None:
            return a
        return self._seen
