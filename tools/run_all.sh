#!/bin/bash
# run every registered quick check sequentially, print one line each + exit codes; validate evidence
cd "$(dirname "$0")/.."
tier=${1:-quick}
for i in 01 02 03 04 05 06 07 08 09 10 11 12 13 14 15 16 17 18 19 20; do
  s=$(date +%s)
  out=$(timeout 1800 ./check C$i --tier $tier 2>&1); rc=$?
  e=$(date +%s)
  echo "C$i rc=$rc $((e-s))s | $(echo "$out" | tail -1 | cut -c1-160)"
  echo "$out" | grep -E "^(VIOLATION|KNOWN-FINDING|UNDECIDED|CHECKER-ERROR)" | cut -c1-220 | head -6
done
.venv/bin/python - <<'PY'
import json, jsonschema, glob
sch = json.load(open('/root/.vp/EVIDENCE.schema.json'))
man = json.load(open('MANIFEST.json'))
for c in man['checks']:
    try:
        ev = json.load(open(c['evidence_file']))
        jsonschema.validate(ev, sch)
        ok = ev['level'] == c['level_claimed']['category']
        print(c['property_id'], 'evidence valid', 'level', ev['level'], '' if ok else '!! claimed ' + c['level_claimed']['category'])
    except Exception as e:
        print(c['property_id'], 'EVIDENCE PROBLEM', str(e)[:200])
PY
