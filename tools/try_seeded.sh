#!/bin/bash
# tools/try_seeded.sh <patch.diff> <PROP> [tier] : apply a seeded change to /repo, run the check, undo it.
patch=$1; prop=$2; tier=${3:-quick}
cd /verif
git -C /repo diff --quiet || { echo "/repo has uncommitted changes; refusing"; exit 9; }
git -C /repo apply "$patch" || { echo "patch does not apply"; exit 8; }
out=$(timeout 2400 ./check $prop --tier $tier 2>&1); rc=$?
git -C /repo checkout -- . 
echo "[$prop $(basename $(dirname $patch))] rc=$rc | $(echo "$out" | tail -1 | cut -c1-150)"
echo "$out" | grep -E "^(VIOLATION|UNDECIDED|CHECKER-ERROR|KNOWN)" | sed 's/replay=[^ ]* //' | cut -c1-230 | sort | uniq -c | sort -rn | head -8
exit $rc
