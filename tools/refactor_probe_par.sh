#!/bin/bash
# tools/refactor_probe_par.sh K <diff>... : the false-alarm probe in K parallel streams, each in its own scratch worktree
# (/tmp/rp/wK, removed at the end).  For each diff: the deductive tier of every property whose verified sources include a
# touched module; prints one summary line per diff (false alarms: 0/1) plus the offending lines.
K=$1; shift
cd /verif
rm -rf /tmp/rp; mkdir -p /tmp/rp
for k in $(seq 1 $K); do git -C /repo worktree add /tmp/rp/w$k HEAD >/dev/null 2>&1 || exit 9; cp /repo/toasty/_libtoasty*.so /tmp/rp/w$k/toasty/; done
i=0
for d in "$@"; do i=$((i+1)); echo "$(readlink -f $d)" >> /tmp/rp/list$(( (i-1) % K + 1 )); done
stream() {
  k=$1; wt=/tmp/rp/w$k
  [ -f /tmp/rp/list$k ] || return
  while read d; do
    mods=$(grep '^+++ b/' $d | sed 's#^+++ b/##; s#/__init__\.py$##; s#\.py$##; s#/#.#g')
    props=$(.venv/bin/python - "$mods" <<'PY'
import json, glob, sys
mods = sys.argv[1].split()
print(" ".join(f.split("/")[-1][:3] for f in sorted(glob.glob("/verif/baseline/C*.json")) if set(json.load(open(f)).get("sources", {})) & set(mods)))
PY
)
    git -C $wt apply $d || { echo "[$(basename $d)] patch does not apply"; continue; }
    bad=0; und=""
    for p in $props; do
      out=$(TOASTY_REPO=$wt PYTHONPATH=$wt timeout 1200 ./check $p --only d 2>&1); rc=$?
      v=$(echo "$out" | grep -cE "^(VIOLATION|CHECKER-ERROR)"); u=$(echo "$out" | grep -c "^UNDECIDED")
      if [ "$v" != "0" ] || [ $rc -ne 0 ]; then bad=1; echo "  !! $(basename $d) $p rc=$rc"; echo "$out" | grep -E "^(VIOLATION|CHECKER-ERROR)" | sed 's/replay=[^ ]* //' | cut -c1-220 | head -4; fi
      [ "$u" != "0" ] && und="$und $p:$u"
    done
    git -C $wt checkout -- .
    echo "[$(basename $d)] props: $(echo $props | wc -w) false alarms: $bad undecided:$und"
  done < /tmp/rp/list$k
}
for k in $(seq 1 $K); do stream $k & done
wait
for k in $(seq 1 $K); do git -C /repo worktree remove --force /tmp/rp/w$k; done
git -C /repo worktree prune; rm -rf /tmp/rp
