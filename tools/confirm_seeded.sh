#!/bin/bash
# confirm_seeded.sh cNN ID : (scratch worktree /tmp/wt2/cNN) demo fails with patch, passes clean; test-suite passes with patch
wt=/tmp/wt2/$1; id=$2; d=$wt/MUTATION/$id; log=/tmp/wt2/confirm_$1.log
cd $wt || exit 9
{
echo "== $1 $id"; git status --short | grep -v MUTATION | head
demo=$d/demo.py; [ -f $demo ] || demo=$d/test_demo.py
run_demo() { if [[ $demo == *test_demo.py ]]; then PYTHONPATH=$wt timeout 600 /venv/bin/python -m pytest -q -p no:cacheprovider $demo >/dev/null 2>&1; else PYTHONPATH=$wt timeout 600 /venv/bin/python $demo >/dev/null 2>&1; fi; echo $?; }
git diff -- toasty > /tmp/wt2/$1.current.diff
cmp -s <(grep -v '^index ' /tmp/wt2/$1.current.diff) <(grep -v '^index ' $d/patch.diff) && echo "patch.diff matches worktree diff" || echo "WARNING patch.diff differs from worktree diff"
echo "demo with patch rc=$(run_demo)"
git apply -R $d/patch.diff && echo "demo clean rc=$(run_demo)"; git apply $d/patch.diff
PYTHONPATH=$wt timeout 1500 /venv/bin/python -m pytest -q -p no:cacheprovider --timeout=900 toasty/tests 2>&1 | tail -1
} > $log 2>&1
