#!/bin/bash
# tools/refactor_probe.sh <diff>... : run each behaviour-preserving diff through the deductive tier of every property whose
# verified sources include a touched module (baseline/CNN.json "sources"); prints the try_refactor.sh summary lines.
cd /verif
for d in "$@"; do
  mods=$(grep '^+++ b/' $d | sed 's#^+++ b/##; s#/__init__\.py$##; s#\.py$##; s#/#.#g')
  props=$(.venv/bin/python - "$mods" <<'PY'
import json, glob, sys
mods = sys.argv[1].split()
out = []
for f in sorted(glob.glob("/verif/baseline/C*.json")):
    src = set(json.load(open(f)).get("sources", {}).keys())
    if src & set(mods):
        out.append(f.split("/")[-1][:3])
print(" ".join(out))
PY
)
  echo "== $(basename $d): $props"
  tools/try_refactor.sh $(readlink -f $d) $props
done
