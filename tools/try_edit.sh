#!/bin/bash
# tools/try_edit.sh <PROP> <file under /repo> <sed-expression> [--only d] : apply a one-off edit to /repo, run the check, undo.
prop=$1; file=$2; expr=$3; shift 3
cd /verif
git -C /repo diff --quiet || { echo "/repo has uncommitted changes; refusing"; exit 9; }
sed -i "$expr" /repo/$file
git -C /repo diff --stat | tail -1
git -C /repo diff --quiet && { echo "edit changed nothing"; exit 8; }
out=$(timeout 2400 ./check $prop "$@" 2>&1); rc=$?
git -C /repo checkout -- .
echo "rc=$rc | $(echo "$out" | tail -1 | cut -c1-150)"
echo "$out" | grep -E "^(VIOLATION|UNDECIDED|CHECKER-ERROR|KNOWN)" | sed 's/replay=[^ ]* //' | cut -c1-230 | sort | uniq -c | sort -rn | head -8
