#!/usr/bin/env python3
"""For every property: functions under contract that CALL a function of the property's list but are not in the list
themselves (forwarding layers).  Heuristic call graph over /repo's AST (by short name); prints suggestions only."""
import ast, glob, importlib, json, os, sys
sys.path.insert(0, "/verif")
REPO = os.environ.get("TOASTY_REPO", "/repo")
under = set()
props = {}
for f in sorted(glob.glob("/verif/contracts/c[0-9][0-9].py")):
    m = importlib.import_module("contracts." + os.path.basename(f)[:-3])
    props[m.PROPERTY] = list(m.FUNCTIONS)
for f in sorted(glob.glob("/verif/baseline/C*.json")):
    under |= {k for k in json.load(open(f)).get("shapes", {}) if k.startswith("toasty.")}
defs = {}
for path in glob.glob(REPO + "/toasty/**/*.py", recursive=True):
    mod = os.path.relpath(path, REPO)[:-3].replace("/", ".").replace(".__init__", "")
    tree = ast.parse(open(path).read())
    def walk(node, prefix):
        for n in node.body:
            if isinstance(n, (ast.FunctionDef, ast.AsyncFunctionDef)):
                defs[prefix + "." + n.name] = n
            elif isinstance(n, ast.ClassDef):
                walk(n, prefix + "." + n.name)
    walk(tree, mod)
short = {}
for q in under:
    short.setdefault(q.split(".")[-1], set()).add(q)
calls = {}
for q in under:
    n = defs.get(q)
    if n is None:
        continue
    out = set()
    for c in ast.walk(n):
        if isinstance(c, ast.Call):
            nm = c.func.attr if isinstance(c.func, ast.Attribute) else (c.func.id if isinstance(c.func, ast.Name) else None)
            if nm in short and nm not in ("__init__",):
                out |= short[nm]
    calls[q] = out - {q}
for pid, fl in sorted(props.items()):
    sug = sorted(q for q, cs in calls.items() if q not in fl and cs & set(fl))
    print(pid, "->", ", ".join("%s (calls %s)" % (q.replace("toasty.", ""), ",".join(sorted(x.split(".")[-1] for x in calls[q] & set(fl)))) for q in sug) or "-")
