#!/bin/bash
# tools/try_refactor.sh <diff> [props...] : apply a behaviour-preserving change to /repo, run the deductive tier of all
# (or the given) properties, report every VIOLATION / CHECKER-ERROR (= false alarm) and count the UNDECIDED lines; undo.
patch=$1; shift
props=${@:-C01 C02 C03 C04 C05 C06 C07 C08 C09 C10 C11 C12 C13 C14 C15 C16 C17 C18 C19 C20}
cd /verif
git -C /repo diff --quiet || { echo "/repo has uncommitted changes; refusing"; exit 9; }
git -C /repo apply "$patch" || { echo "patch does not apply"; exit 8; }
bad=0
for p in $props; do
  out=$(timeout 1200 ./check $p --only d 2>&1); rc=$?
  v=$(echo "$out" | grep -cE "^(VIOLATION|CHECKER-ERROR)")
  u=$(echo "$out" | grep -c "^UNDECIDED")
  if [ "$v" != "0" ] || [ $rc -ne 0 ]; then
    bad=1; echo "  !! $p rc=$rc violations/errors=$v"; echo "$out" | grep -E "^(VIOLATION|CHECKER-ERROR)" | sed 's/replay=[^ ]* //' | cut -c1-220 | head -5
  elif [ "$u" != "0" ]; then
    echo "  .. $p undecided=$u ($(echo "$out" | grep "^UNDECIDED" | grep -v "not generated" | head -1 | cut -c1-150))"
  fi
done
git -C /repo checkout -- .
echo "[$(basename $(dirname $(dirname $patch)))/$(basename $patch)] false alarms: $bad"
