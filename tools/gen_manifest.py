#!/usr/bin/env python3
"""Regenerate MANIFEST.json from the per-property configuration modules contracts/cNN.py."""
import importlib
import json
import os
import sys

HERE = os.path.dirname(os.path.dirname(os.path.abspath(__file__)))
sys.path.insert(0, HERE)

TECH = {
    "proof": "contract-based deductive verification: sidecar contracts on the real functions, VCs generated from the AST of /repo and discharged by z3 (cvc5 for unknowns); bounded run-time evaluation of the same contracts as replay",
    "other": "contract-based deductive verification of the functions within the prover's reach (VCs from the real AST, z3/cvc5) + bounded run-time contract checks (labelled bounded) for the rest",
    "exploration": "bounded run-time evaluation of contracts/oracles on the real code (stand-in; no clause of this property is yet within the deductive prover's reach)",
}


def main():
    props = [json.loads(l) for l in open(os.path.join(HERE, "properties.jsonl"))]
    checks, na, served = [], [], []
    for p in props:
        pid = p["id"]
        try:
            cfg = importlib.import_module("contracts." + pid.lower())
        except ModuleNotFoundError:
            na.append({"property_id": pid, "reason": "no check built"})
            continue
        if getattr(cfg, "NOT_APPLICABLE", None):
            na.append({"property_id": pid, "reason": cfg.NOT_APPLICABLE})
            continue
        level = getattr(cfg, "LEVEL", "other")
        served.append(pid)
        nfun = len(getattr(cfg, "FUNCTIONS", []))
        checks.append({
            "property_id": pid,
            "quick_cmd": "./check %s --tier quick" % pid,
            "thorough_cmd": "./check %s --tier thorough" % pid,
            "evidence_file": "evidence/%s.json" % pid,
            "replay_cmd_template": "./check %s --replay {path}" % pid,
            "engine": "pyvc+rt" if nfun else "rt",
            "level_claimed": {
                "category": level,
                "text": getattr(cfg, "LEVEL_TEXT", getattr(cfg, "EXPLANATION", "")),
                "design_ref": "DESIGN.md section 6, %s" % pid,
            },
            "level_note": getattr(cfg, "LEVEL_NOTE", "; ".join(getattr(cfg, "TRUSTED_BASE", []) + getattr(cfg, "ASSUMPTIONS", []))[:1500] or "see evidence file"),
            "technique": getattr(cfg, "TECHNIQUE", TECH[level]),
        })
    man = {
        "version": 1,
        "setup_cmd": "./setup.sh",
        "hooks": {
            "guard": "TOASTY_VERIF",
            "enable": "no source hooks: contracts, monitors, schedule and fault injection live in /verif and wrap the real code from outside",
            "baseline_off_cmd": "cd /repo && /venv/bin/python -m pytest -ra -q -p no:cacheprovider --timeout=900 --continue-on-collection-errors",
            "source_commits": [],
            "add_only": True,
        },
        "engines": [
            {"name": "pyvc", "path": "pyvc/", "serves_properties": served,
             "kind_free_text": "contract-based deductive verification: VC generation from the real python AST of /repo against sidecar contracts (contracts/), discharged by z3, cvc5 for unknowns"},
            {"name": "rt", "path": "rt/", "serves_properties": served,
             "kind_free_text": "bounded run-time evaluation of contracts/oracles on the real code: replay of counter-models and stand-in where the prover cannot reach; never counted as proved"},
        ],
        "checks": checks,
        "not_applicable": na,
        "notes": "See DESIGN.md. Genuine defects found and repaired are listed in known_findings.json (kind=fixed).",
    }
    with open(os.path.join(HERE, "MANIFEST.json"), "w") as f:
        json.dump(man, f, indent=1)
    print("MANIFEST.json: %d checks, %d not applicable" % (len(checks), len(na)))


if __name__ == "__main__":
    main()
