"""C06 -- TOAST sampling writes the sampler's values at each tile's own pixel centres (bounded tier).

Drives the real ``toasty.toast.sample_layer`` / ``sample_layer_filtered`` (each scenario in a fresh
interpreter under a watchdog), reads the tile files back with numpy / astropy.io.fits / PIL (not
with toasty) and compares every pixel, in display orientation, with the value of the *same*
synthetic sampler evaluated at pixel centres computed by ``rt.c06_geom`` (an independent
unit-vector construction of the TOAST grid written from the projection's description).

Obligations (stable names) and witness keys
-------------------------------------------
All witnesses carry the full scenario (enough for ``replay``):
``depth, coordsys ('astronomical'|'planetary'), pio_format, format (override or None), scheme,
kind ('f64'|'f32'|'rgb'|'rgba'), mode ('clobber'|'update'), parallel (list, one per pass),
passes (list of {leaves: 'all' | [[x,y],...], coef, cap, [delay_s: seconds every sampler call sleeps]}), seed_tag``
plus the clause-specific keys:

* ``rt/sample_layer/runs``            -- the call raised / a worker died / no result
                                         (+ ``error``, ``pass_index``).  depth == 0 lands here on the
                                         pinned tree (AttributeError: tile is None at level 0).
* ``rt/sample_layer/terminates``      -- watchdog expiry (+ ``timeout_s``).
* ``rt/sample_layer/tile_file_exists``-- an expected tile file is missing (+ ``tile`` [n,x,y], ``path``).
* ``rt/sample_layer/no_stray_file``   -- a tile file exists for a position that was not sampled
                                         (+ ``tile``/``path``).
* ``rt/sample_layer/pixel_values``    -- pixel (i,j) differs from sampler(centre of pixel (i,j) of that
                                         tile) (+ ``tile``, ``n_bad``, ``first_bad`` [i,j], ``observed``,
                                         ``expected``, ``hint`` in {'rows reversed', 'matches another
                                         tile', ''}).
* ``rt/sample_layer/mask``            -- defined/undefined pattern differs (update mode, masked samplers)
                                         (+ ``tile``, ``n_bad``, ``first_bad``).
* ``rt/sample_layer/tile_shape``      -- stored array has the wrong shape (+ ``tile``, ``shape``).

Bounds
------
quick   : depths 0..2 x both systems x {npy/f64, fits/f32, fits/f64, png/rgb, png/rgba, jpg/rgb}
          serial, clobber; a covering subset with 2 and 4 workers; depth 3 twice; update mode
          (1-3 passes, random leaf subsets, masked samplers) at depths 1..2 in npy, fits, png;
          format overrides of equal parity; the LXY naming scheme; two slow-sampler scenarios
          (1.3 s per sampler call, depth 2, 2 workers; clobber and update mode); clobbering an existing
          pyramid with a partial-coverage map (3 scenarios, depth 2: whole tiles of the second map undefined).
thorough: the full grid depths 0..3 x workers {1,2,4,7}, depth 4 in two configurations, 60 random
          update scenarios (depth <= 3), 24 random clobber scenarios with random coefficients.

Trusted: numpy .npy, astropy FITS and PIL PNG codecs (read-back); JPEG is lossy, so for jpg only a
coarse criterion is used (mean |error| <= 4 levels and strictly better than the row-reversed
alternative); float tolerance 1e-9 (f64) / 2e-6 (f32); pixels whose pre-quantisation value is
within 1e-6 of a uint8 step or of the mask threshold are not compared.  A ``format=`` override
whose vertical parity differs from the pyramid's default format (png pyramid + format='fits') is
outside the explored domain: the repository's own tests pin that combination to unreversed rows
(DESIGN 6/C06 precondition).
"""
import os
import time
from concurrent.futures import ThreadPoolExecutor

import numpy as np

from rt.common import call_isolated

MOD = "rt.c06"
EXT = {"npy": "npy", "fits": "fits", "png": "png", "jpg": "jpg"}
CAP = 5


# ---------------------------------------------------------------------------------------------
# synthetic samplers (the same definition is evaluated by the code under test on *its* lon/lat
# and by the oracle on the independent pixel centres)

def _value(u, coef):
    a, b, c = (np.asarray(coef[k], dtype=float) for k in ("a", "b", "c"))
    p, q, r = u @ a, u @ b, u @ c
    return p + 0.5 * q * q + 0.25 * r * r * r


def _rgb_pre(u, coef):
    m = np.asarray(coef["m"], dtype=float)            # (3,3)
    return 128.0 + 127.0 * (u @ m.T)                   # (...,3) in [1,255]


def _cap_margin(u, cap):
    """> 0 inside the masked cap, < 0 outside; None -> nothing masked."""
    if cap is None:
        return None
    return u @ np.asarray(cap["dir"], dtype=float) - cap["thr"]


def evaluate(kind, coef, cap, u):
    """Returns (data, defined(bool), ambiguous(bool)) for unit vectors u (...,3)."""
    cm = _cap_margin(u, cap)
    shape = u.shape[:-1]
    defined = np.ones(shape, bool) if cm is None else (cm <= 0)
    amb = np.zeros(shape, bool) if cm is None else (np.abs(cm) < 1e-9)
    if kind in ("f64", "f32"):
        v = _value(u, coef)
        if kind == "f32":
            v = v.astype(np.float32)
        v = np.where(defined, v, np.nan).astype(v.dtype)
        return v, defined, amb
    pre = _rgb_pre(u, coef)
    amb = amb | (np.abs(pre - np.round(pre)) < 1e-6).any(axis=-1)
    rgb = np.clip(np.floor(pre), 0, 255).astype(np.uint8)
    if kind == "rgb":
        return rgb, np.ones(shape, bool), amb
    out = np.zeros(shape + (4,), np.uint8)
    out[..., :3] = rgb
    out[..., 3] = np.where(defined, 255, 0)
    out[~defined] = 0
    return out, defined, amb


def make_sampler(kind, coef, cap, delay_s=0.0):
    """``delay_s``: every call of the sampler takes that much longer (a slow data source: big HEALPix map, chunked
    reader, slow disk); the values are the same."""
    def sampler(lon, lat):
        if delay_s:
            time.sleep(delay_s)
        cl = np.cos(lat)
        u = np.stack([cl * np.cos(lon), cl * np.sin(lon), np.sin(lat)], axis=-1)
        return evaluate(kind, coef, cap, u)[0]
    return sampler


# ---------------------------------------------------------------------------------------------
# helpers that do not use toasty

def tile_relpath(scheme, n, x, y, ext):
    if scheme == "LXY":
        return "L%dX%dY%d.%s" % (n, x, y, ext)
    return os.path.join(str(n), str(y), "%d_%d.%s" % (y, x, ext))


def read_display(path, ext):
    """Read a tile file and return it in display orientation (row 0 = top)."""
    if ext == "npy":
        return np.load(path)
    if ext == "fits":
        from astropy.io import fits
        with fits.open(path) as hdul:
            return np.array(hdul[0].data)[::-1]          # FITS tiles are stored bottom-up
    from PIL import Image as PILImage
    with PILImage.open(path) as im:
        im.load()
        return np.asarray(im)


def list_tile_files(base, scheme):
    found = []
    for root, _dirs, files in os.walk(base):
        for f in files:
            found.append(os.path.relpath(os.path.join(root, f), base))
    return sorted(found)


def _accepted_set(depth, leaves):
    acc = set()
    for (x, y) in leaves:
        for n in range(depth, 0, -1):
            acc.add((n, x >> (depth - n), y >> (depth - n)))
    return acc


# ---------------------------------------------------------------------------------------------
# the isolated scenario

def run_scenario(cfg):
    """Executed in a fresh interpreter: run the passes with the real code, then compare."""
    import warnings
    warnings.simplefilter("ignore")
    import traceback
    from toasty import toast
    from toasty.pyramid import PyramidIO
    from rt import c06_geom as G

    depth = cfg["depth"]
    planetary = cfg["coordsys"] == "planetary"
    coordsys = toast.ToastCoordinateSystem.PLANETARY if planetary else toast.ToastCoordinateSystem.ASTRONOMICAL
    base = cfg["workdir"]
    os.makedirs(base, exist_ok=True)
    pio = PyramidIO(base, scheme=cfg["scheme"], default_format=cfg["pio_format"])
    out_fmt = cfg["format"] or cfg["pio_format"]
    ext = EXT[out_fmt]
    kind = cfg["kind"]
    problems = []

    for k, ps in enumerate(cfg["passes"]):
        sampler = make_sampler(kind, ps["coef"], ps["cap"], float(ps.get("delay_s") or 0.0))
        par = cfg["parallel"][k]
        try:
            entry = cfg.get("entry")        # None: the toast functions directly; else through Builder.toast_base
            if entry:
                from toasty.builder import Builder
                bkw = {"is_planet": True} if (entry == "builder_is_planet" and planetary) else {"coordsys": coordsys}
            if cfg["mode"] == "clobber":
                if entry:
                    Builder(pio).toast_base(sampler, depth, parallel=par, **bkw)
                else:
                    toast.sample_layer(pio, sampler, depth, coordsys=coordsys, format=cfg["format"], parallel=par)
            else:
                if ps["leaves"] == "all":
                    filt = lambda t: True
                else:
                    acc = _accepted_set(depth, [tuple(l) for l in ps["leaves"]])
                    filt = lambda t, acc=acc: (t.pos.n, t.pos.x, t.pos.y) in acc
                if entry:
                    Builder(pio).toast_base(sampler, depth, tile_filter=filt, parallel=par, **bkw)
                else:
                    toast.sample_layer_filtered(pio, filt, sampler, depth, coordsys=coordsys, parallel=par)
        except BaseException as e:   # the property forbids any failure here
            problems.append({"obligation": "rt/sample_layer/runs", "pass_index": k,
                             "error": "%s: %s" % (type(e).__name__, e),
                             "where": traceback.format_exc().strip().splitlines()[-3:]})
            return {"problems": problems, "tiles": 0}

    # expected content per leaf
    side = 2 ** depth
    all_leaves = [(x, y) for y in range(side) for x in range(side)]
    expected_files = {}
    optional_files = set()
    exp_cache = {}
    masked_over = 0
    for (x, y) in all_leaves:
        u = None
        cur = None         # (data, defined, amb)
        for ps in cfg["passes"]:
            touched = ps["leaves"] == "all" or [x, y] in ps["leaves"] or (x, y) in ps["leaves"]
            if cfg["mode"] == "clobber":
                touched = True
            if not touched:
                continue
            if u is None:
                u = G.tile_pixel_vectors(depth, x, y, planetary)
            d, de, am = evaluate(kind, ps["coef"], ps["cap"], u)
            if cur is None or cfg["mode"] == "clobber":
                cur = (d.copy(), de.copy(), am.copy())
            else:
                cd, cde, cam = cur
                sel = de
                cd[sel] = d[sel]
                cur = (cd, cde | de, cam | am)
        if cur is None:
            continue
        rel = tile_relpath(cfg["scheme"], depth, x, y, ext)
        if (cur[1] & ~cur[2]).any():
            expected_files[rel] = (x, y)     # at least one surely-defined pixel: the file must exist
        else:
            optional_files.add(rel)          # completely masked tiles are (by design) not stored
            if cfg["mode"] == "clobber" and len(cfg["passes"]) > 1 and not cur[1].any():
                masked_over += 1             # an earlier clobbering pass wrote this tile; whatever is there now must be all-undefined
        exp_cache[rel] = cur + ((x, y),)

    present = [f for f in list_tile_files(base, cfg["scheme"]) if not f.endswith(".lock")]
    present_set = set(present)
    for rel, (x, y) in sorted(expected_files.items()):
        if rel not in present_set:
            problems.append({"obligation": "rt/sample_layer/tile_file_exists", "tile": [depth, x, y], "path": rel})
    for rel in present:
        if rel not in expected_files and rel not in optional_files:
            problems.append({"obligation": "rt/sample_layer/no_stray_file", "path": rel, "tile": None})

    n_cmp = 0
    for rel in sorted(present_set & (set(expected_files) | optional_files)):
        exp, de, am, (x, y) = exp_cache[rel]
        try:
            obs = read_display(os.path.join(base, rel), ext)
        except Exception as e:
            problems.append({"obligation": "rt/sample_layer/runs", "tile": [depth, x, y], "pass_index": None,
                             "error": "unreadable tile file: %s: %s" % (type(e).__name__, e)})
            continue
        n_cmp += 1
        pr = compare_tile(cfg, kind, ext, exp, de, am, obs)
        if pr is not None:
            pr["tile"] = [depth, x, y]
            if pr["obligation"] == "rt/sample_layer/pixel_values":
                pr["hint"] = diagnose(cfg, kind, ext, obs, exp_cache, rel)
            problems.append(pr)
    return {"problems": problems, "tiles": n_cmp, "files": len(present), "masked_over": masked_over}


def _tol(kind):
    return 1e-9 if kind == "f64" else 2e-6


def compare_tile(cfg, kind, ext, exp, de, am, obs):
    update = cfg["mode"] == "update"
    if kind in ("f64", "f32"):
        if obs.shape != (256, 256):
            return {"obligation": "rt/sample_layer/tile_shape", "shape": list(obs.shape)}
        obs = obs.astype(np.float64)
        odef = ~np.isnan(obs)
        badm = (odef != de) & ~am
        if badm.any():
            i, j = np.argwhere(badm)[0]
            return {"obligation": "rt/sample_layer/mask", "n_bad": int(badm.sum()), "first_bad": [int(i), int(j)]}
        both = odef & de & ~am
        bad = both & (np.abs(np.where(both, obs, 0) - np.where(both, exp.astype(np.float64), 0)) > _tol(kind))
        if bad.any():
            i, j = np.argwhere(bad)[0]
            return {"obligation": "rt/sample_layer/pixel_values", "n_bad": int(bad.sum()), "first_bad": [int(i), int(j)],
                    "observed": float(obs[i, j]), "expected": float(exp[i, j])}
        return None
    # colour kinds
    if obs.ndim != 3 or obs.shape[:2] != (256, 256) or obs.shape[2] not in (3, 4):
        return {"obligation": "rt/sample_layer/tile_shape", "shape": list(obs.shape)}
    if ext == "jpg":
        o = obs[..., :3].astype(float)
        e = exp[..., :3].astype(float)
        err = np.abs(o - e).mean()
        err_flip = np.abs(o[::-1] - e).mean()
        if err > 4.0 or err >= err_flip:
            return {"obligation": "rt/sample_layer/pixel_values", "n_bad": int((np.abs(o - e) > 8).sum()),
                    "first_bad": [0, 0], "observed": float(err), "expected": "mean |err| <= 4 and < %.2f (row-reversed)" % err_flip}
        return None
    has_alpha = obs.shape[2] == 4
    if update or kind == "rgba":
        if not has_alpha:
            return {"obligation": "rt/sample_layer/tile_shape", "shape": list(obs.shape)}
    if has_alpha:
        odef = obs[..., 3] != 0
        badm = (odef != de) & ~am
        if badm.any():
            i, j = np.argwhere(badm)[0]
            return {"obligation": "rt/sample_layer/mask", "n_bad": int(badm.sum()), "first_bad": [int(i), int(j)]}
        sel = odef & de & ~am
        bad = sel & ((obs[..., :3] != exp[..., :3]).any(axis=-1) | (obs[..., 3] != 255))
    else:
        bad = ~am & (obs[..., :3] != exp[..., :3]).any(axis=-1)
    if bad.any():
        i, j = np.argwhere(bad)[0]
        return {"obligation": "rt/sample_layer/pixel_values", "n_bad": int(bad.sum()), "first_bad": [int(i), int(j)],
                "observed": [int(v) for v in obs[i, j]], "expected": [int(v) for v in exp[i, j]]}
    return None


def diagnose(cfg, kind, ext, obs, exp_cache, rel):
    """Cheap hint for the reader of a violation: which wrong thing does the tile look like?"""
    try:
        exp, de, am, _ = exp_cache[rel]

        def close(a, b):
            if kind in ("f64", "f32"):
                return np.nanmax(np.abs(a.astype(float) - b.astype(float))) <= 1e-5 and (np.isnan(a) == np.isnan(b)).all()
            return (np.abs(a[..., :3].astype(int) - b[..., :3].astype(int)) <= 1).mean() > 0.999
        if close(obs[::-1], exp):
            return "rows reversed"
        for other, (e2, _d, _a, xy) in exp_cache.items():
            if other != rel and close(obs, e2):
                return "matches tile %s" % (list(xy),)
        return ""
    except Exception:
        return ""


# ---------------------------------------------------------------------------------------------
# scenario generation

def _unit(rng):
    v = np.array([rng.gauss(0, 1) for _ in range(3)])
    return (v / np.linalg.norm(v)).tolist()


def rand_coef(rng):
    m = np.array([_unit(rng) for _ in range(3)])
    return {"a": [rng.uniform(-1, 1) for _ in range(3)], "b": [rng.uniform(-1, 1) for _ in range(3)],
            "c": [rng.uniform(-1, 1) for _ in range(3)], "m": m.tolist()}


def rand_cap(rng):
    return {"dir": _unit(rng), "thr": rng.uniform(-0.4, 0.9)}


FIXED_COEF = {"a": [0.31, -0.74, 0.52], "b": [0.9, 0.2, -0.4], "c": [-0.3, 0.8, 0.6],
              "m": [[0.6, 0.64, 0.48], [-0.8, 0.36, 0.48], [0.0, -0.6, 0.8]]}

COMBOS = [("npy", "f64"), ("fits", "f32"), ("fits", "f64"), ("png", "rgb"), ("png", "rgba"), ("jpg", "rgb")]


def clobber_cfg(depth, coordsys, pio_format, kind, parallel, coef=None, fmt=None, scheme="L/Y/YX", tag=""):
    return {"depth": depth, "coordsys": coordsys, "pio_format": pio_format, "format": fmt, "scheme": scheme,
            "kind": kind, "mode": "clobber", "parallel": [parallel],
            "passes": [{"leaves": "all", "coef": coef or FIXED_COEF, "cap": None}], "seed_tag": tag}


def update_cfg(rng, depth, coordsys, pio_format, kind, parallels, npasses, scheme="L/Y/YX", tag=""):
    side = 2 ** depth
    passes = []
    for k in range(npasses):
        if depth == 0 or rng.random() < 0.3:
            leaves = "all"
        else:
            allv = [[x, y] for y in range(side) for x in range(side)]
            kk = rng.randint(1, max(1, len(allv) - 1))
            leaves = sorted(rng.sample(allv, kk))
        cap = rand_cap(rng) if kind != "rgb" and rng.random() < 0.8 else None
        passes.append({"leaves": leaves, "coef": rand_coef(rng), "cap": cap})
    return {"depth": depth, "coordsys": coordsys, "pio_format": pio_format, "format": None, "scheme": scheme,
            "kind": kind, "mode": "update", "parallel": [parallels[k % len(parallels)] for k in range(npasses)],
            "passes": passes, "seed_tag": tag}


def build_scenarios(ctx):
    rng = ctx.rng
    sc = []
    cs2 = ("astronomical", "planetary")
    if not ctx.thorough:
        for depth in (0, 1, 2):
            for cs in cs2:
                for (pf, kind) in COMBOS:
                    sc.append(clobber_cfg(depth, cs, pf, kind, 1))
        i = 0
        for depth in (1, 2):
            for (pf, kind) in COMBOS:
                for par in (2, 4):
                    sc.append(clobber_cfg(depth, cs2[i % 2], pf, kind, par))
                    i += 1
        sc.append(clobber_cfg(0, "astronomical", "npy", "f64", 2))
        sc.append(clobber_cfg(3, "astronomical", "fits", "f32", 4))
        sc.append(clobber_cfg(3, "planetary", "png", "rgb", 2))
        sc.append(clobber_cfg(2, "planetary", "png", "f64", 1, fmt="npy"))
        sc.append(clobber_cfg(2, "astronomical", "npy", "rgb", 2, fmt="png"))
        sc.append(clobber_cfg(2, "astronomical", "npy", "f64", 1, scheme="LXY"))
        sc.append(clobber_cfg(1, "planetary", "fits", "f32", 2, scheme="LXY"))
        # clobbering really destroys: two clobber passes, only the second must remain
        c2 = clobber_cfg(2, "astronomical", "fits", "f64", 1, coef=rand_coef(rng))
        c2["passes"].append({"leaves": "all", "coef": rand_coef(rng), "cap": None})
        c2["parallel"] = [1, 2]
        sc.append(c2)
        for n, (pf, kind) in enumerate([("npy", "f64"), ("fits", "f32"), ("png", "rgba"), ("png", "rgb"),
                                        ("fits", "f64"), ("npy", "rgba"), ("npy", "f32"), ("png", "rgba")]):
            depth = 1 + (n % 2)
            sc.append(update_cfg(rng, depth, cs2[n % 2], pf, kind, [(1, 2, 4)[n % 3], 1], 1 + n % 3, tag="u%d" % n))
        sc.append(update_cfg(rng, 0, "astronomical", "npy", "f64", [1], 1, tag="u-depth0"))
        sc.extend(slow_sampler_cfgs(False))
    else:
        for depth in (0, 1, 2, 3):
            for cs in cs2:
                for (pf, kind) in COMBOS:
                    for par in (1, 2, 4, 7):
                        if depth == 3 and pf == "jpg":
                            continue
                        sc.append(clobber_cfg(depth, cs, pf, kind, par))
        sc.append(clobber_cfg(4, "astronomical", "fits", "f32", 4))
        sc.append(clobber_cfg(4, "planetary", "png", "rgb", 7))
        for n in range(24):
            pf, kind = COMBOS[n % 5]
            fmt = None
            if n % 6 == 0:
                pf, kind, fmt = "png", "f64", "npy"
            if n % 6 == 3:
                pf, kind, fmt = "npy", "rgba", "png"
            sc.append(clobber_cfg(rng.randint(1, 3), cs2[n % 2], pf, kind, rng.choice([1, 2, 3, 5]), coef=rand_coef(rng),
                                  fmt=fmt, scheme=("LXY" if n % 4 == 1 else "L/Y/YX"), tag="r%d" % n))
        ucombos = [("npy", "f64"), ("fits", "f32"), ("png", "rgba"), ("png", "rgb"), ("fits", "f64"), ("npy", "rgba"),
                   ("npy", "f32")]
        for n in range(60):
            pf, kind = ucombos[n % len(ucombos)]
            sc.append(update_cfg(rng, rng.randint(1, 3), cs2[n % 2], pf, kind,
                                 [rng.choice([1, 2, 4]), rng.choice([1, 3])], rng.randint(1, 3),
                                 scheme=("LXY" if n % 5 == 2 else "L/Y/YX"), tag="u%d" % n))
        sc.append(update_cfg(rng, 0, "planetary", "fits", "f32", [1], 1, tag="u-depth0"))
        sc.extend(slow_sampler_cfgs(True))
    sc.extend(reclobber_cfgs(rng, ctx.thorough))
    sc.extend(builder_cfgs(ctx))
    return sc


def builder_cfgs(ctx):
    """The same obligations through the Builder entry point (``Builder.toast_base`` forwards sampler, depth, coordinate system,
    filter and worker count to sample_layer / sample_layer_filtered): both coordinate systems, with and without a tile
    filter.  Own generator, so the older scenario streams are unchanged."""
    import random
    rng = random.Random("c06/builder/%s" % getattr(ctx, "seed", 0))
    out = []
    combos = [("npy", "f64"), ("fits", "f32")] + ([("png", "rgba"), ("npy", "f32")] if ctx.thorough else [])
    for n, (pf, kind) in enumerate(combos):
        for cs, entry in (("astronomical", "builder_coordsys"), ("planetary", "builder_coordsys"), ("planetary", "builder_is_planet")):
            c = clobber_cfg(1 + n % 2, cs, pf, kind, 1 + n % 2, coef=rand_coef(rng), tag="builder-clobber")
            c["entry"] = entry
            out.append(c)
            u = update_cfg(rng, 2, cs, pf, kind, [1, 2], 2 if ctx.thorough else 1, tag="builder-update")
            u["entry"] = entry
            out.append(u)
    return out


def reclobber_cfgs(rng, thorough):
    """Clobbering mode over an EXISTING pyramid with a partial-coverage map: pass 1 samples a map defined everywhere, pass 2
    (again sample_layer: "data in any existing tiles will be ignored and destroyed") samples a map that is undefined on a
    spherical cap larger than a hemisphere (u.dir > -0.3), so whole tiles of the second map are undefined.  Every pixel of
    every tile must then be the second sampler's value at that pixel -- undefined where the second map is undefined; a tile
    file that survives from pass 1 shows defined pixels there (obligation rt/sample_layer/mask).  A third scenario shifts the
    cap between passes 2 and 3."""
    out = []
    combos = [("fits", "f32"), ("npy", "f64"), ("png", "rgba")] + ([("fits", "f64"), ("npy", "rgba"), ("npy", "f32")] if thorough else [])
    axes = [[1.0, 0.0, 0.0], [0.0, 1.0, 0.0], [0.0, 0.0, 1.0], [-0.6, 0.0, -0.8], [0.0, -1.0, 0.0], [0.48, 0.6, 0.64]]
    for n, (pf, kind) in enumerate(combos):
        for depth in ((1, 2, 3) if thorough else (2,)):
            c = clobber_cfg(depth, ("astronomical", "planetary")[n % 2], pf, kind, 1, coef=rand_coef(rng), tag="reclobber-%d" % n)
            c["passes"].append({"leaves": "all", "coef": rand_coef(rng), "cap": {"dir": axes[(n + depth) % len(axes)], "thr": -0.3}})
            c["parallel"] = [1, (1, 2, 4)[n % 3]]
            if n == 1 or (thorough and depth == 2):
                c["passes"].append({"leaves": "all", "coef": rand_coef(rng), "cap": {"dir": axes[(n + depth + 1) % len(axes)], "thr": -0.3}})
                c["parallel"].append(1)
            out.append(c)
    return out


SLOW_S = 1.3


def slow_sampler_cfgs(thorough):
    """'The result does not depend on the number of worker processes' with a sampler that needs 1.3 s per tile (longer than
    the 1 s time-outs of the stage's hand-off) and more tiles (16 at depth 2) than workers + queue slots: the dispatcher's
    queue stays full for more than a second at a time.  Clobber mode (sample_layer) and update mode
    (sample_layer_filtered, all leaves), 2 workers (thorough: also 3 workers and 5 workers at depth 3)."""
    def slow(cfg):
        for ps in cfg["passes"]:
            ps["delay_s"] = SLOW_S
        return cfg
    out = [slow(clobber_cfg(2, "astronomical", "npy", "f64", 2, tag="slow-sampler")),
           slow({"depth": 2, "coordsys": "planetary", "pio_format": "fits", "format": None, "scheme": "L/Y/YX", "kind": "f32", "mode": "update",
                 "parallel": [2], "passes": [{"leaves": "all", "coef": FIXED_COEF, "cap": {"dir": [0.0, 0.6, 0.8], "thr": 0.5}}],
                 "seed_tag": "slow-sampler-update"})]
    if thorough:
        out.append(slow(clobber_cfg(2, "planetary", "png", "rgb", 3, tag="slow-sampler")))
        out.append(slow(clobber_cfg(3, "astronomical", "fits", "f64", 5, tag="slow-sampler")))
    return out


# ---------------------------------------------------------------------------------------------

def _timeout_for(cfg):
    return 60 + 25 * (4 ** max(cfg["depth"] - 2, 0)) * len(cfg["passes"])


def run_batch(cfgs):
    """Isolated entry point: several scenarios in one interpreter (start-up cost is ~1.3 s)."""
    return [run_scenario(c) for c in cfgs]


def execute_batch(cfgs, workdirs):
    """-> list of (status, result, secs, timeout) per scenario.  A batch that times out or crashes is
    re-run scenario by scenario so that the failure is attributed to the right one."""
    cs = []
    for cfg, wd in zip(cfgs, workdirs):
        c = dict(cfg)
        c["workdir"] = wd
        cs.append(c)
    t = sum(_timeout_for(c) for c in cfgs)
    status, res, secs = call_isolated(MOD, "run_batch", {"cfgs": cs}, t)
    if status == "ok":
        return [("ok", r, secs / len(cs), _timeout_for(c)) for r, c in zip(res, cfgs)]
    if len(cs) == 1:
        return [(status, res, secs, t)]
    out = []
    import shutil
    for c, wd in zip(cfgs, workdirs):
        shutil.rmtree(wd, ignore_errors=True)
        out.extend(execute_batch([c], [wd]))
    return out


def execute(cfg, workdir):
    return execute_batch([cfg], [workdir])[0]


def witness_of(cfg, extra):
    w = {k: cfg[k] for k in ("depth", "coordsys", "pio_format", "format", "scheme", "kind", "mode", "parallel",
                             "passes", "seed_tag")}
    if cfg.get("entry"):
        w["entry"] = cfg["entry"]
    w.update(extra)
    return w


def judge(cfg, status, res, t):
    """-> list of (obligation, extra-witness, message)"""
    out = []
    if status == "timeout":
        out.append(("rt/sample_layer/terminates", {"timeout_s": t},
                    "sampling did not return within %d s (depth %d, workers %s)" % (t, cfg["depth"], cfg["parallel"])))
    elif status == "crash":
        out.append(("rt/sample_layer/runs", {"error": "interpreter exited: " + str(res)[-600:], "pass_index": None},
                    "the sampling process died"))
    else:
        for p in res["problems"]:
            obl = p.pop("obligation")
            msg = {
                "rt/sample_layer/runs": "sampling raised: %s" % p.get("error"),
                "rt/sample_layer/tile_file_exists": "no file for tile %s" % p.get("tile"),
                "rt/sample_layer/no_stray_file": "unexpected file %s" % p.get("path"),
                "rt/sample_layer/pixel_values": "tile %s: %s pixels differ from sampler(pixel centre); first %s observed %s expected %s %s"
                                                 % (p.get("tile"), p.get("n_bad"), p.get("first_bad"), p.get("observed"),
                                                    p.get("expected"), p.get("hint", "")),
                "rt/sample_layer/mask": "tile %s: %s pixels defined/undefined wrongly" % (p.get("tile"), p.get("n_bad")),
                "rt/sample_layer/tile_shape": "tile %s has shape %s" % (p.get("tile"), p.get("shape")),
            }[obl]
            out.append((obl, p, msg))
    return out


def run(ctx):
    scenarios = build_scenarios(ctx)
    ctx.bound("depths %s; coordinate systems astronomical+planetary; (pyramid format, sampler kind) in %s; "
              "worker counts %s; %d scenarios" % ("0..4" if ctx.thorough else "0..3", COMBOS,
                                                   "{1,2,3,4,5,7}" if ctx.thorough else "{1,2,4}", len(scenarios)))
    ctx.bound("update mode: 1..3 passes of sample_layer_filtered with random ancestor-closed leaf subsets and samplers "
              "masked on a random spherical cap; clobber mode: sample_layer (one scenario with two passes)")
    ctx.bound("format= override only between formats of equal vertical parity (png<->npy)")
    n_re = len([c for c in scenarios if c["seed_tag"].startswith("reclobber")])
    ctx.bound("clobbering an existing pyramid with a partial-coverage map: %d scenarios (%s, depth %s): sample_layer of a map defined "
              "everywhere, then sample_layer of a map undefined on a cap larger than a hemisphere (whole tiles undefined); one "
              "scenario per depth with a third pass and a shifted cap" % (n_re, "fits/f32, npy/f64, png/rgba" + (", fits/f64, npy/rgba, npy/f32" if ctx.thorough else ""),
                                                                       "1..3" if ctx.thorough else "2"))
    n_slow = len([c for c in scenarios if any(ps.get("delay_s") for ps in c["passes"])])
    ctx.bound("slow sampler: %d scenarios in which every sampler call takes %.1f s (longer than the 1 s time-outs of the worker hand-off), "
              "depth 2 (16 tiles > workers + 2*workers queue slots) with 2 workers, sample_layer and sample_layer_filtered%s"
              % (n_slow, SLOW_S, "; 3 workers; depth 3 with 5 workers" if ctx.thorough else ""))
    ctx.assume("numpy .npy / astropy FITS / PIL PNG codecs read back what was written; JPEG compared coarsely")
    ctx.assume("rt.c06_geom (unit-vector construction of the TOAST grid from its description) defines the pixel centres; "
               "agreement with toasty's own lon/lat grid is not assumed but observed (tolerance 1e-9)")
    ctx.note("format override with a different vertical parity (png pyramid, format='fits') is not explored: "
             "toasty/tests/test_toast.py pins it to unreversed rows")
    per_obl = {}
    # serial scenarios are batched (interpreter start-up dominates them); parallel ones run alone so that
    # a hang is attributed to exactly one scenario
    order = sorted(range(len(scenarios)), key=lambda i: -(4 ** scenarios[i]["depth"]) * len(scenarios[i]["passes"]))
    batches, cur, cost = [], [], 0
    for i in order:
        cfg = scenarios[i]
        if max(cfg["parallel"]) > 1:
            batches.append([i])
            continue
        c = (4 ** cfg["depth"]) * len(cfg["passes"])
        if cur and (cost + c > 40 or len(cur) >= 6):
            batches.append(cur)
            cur, cost = [], 0
        cur.append(i)
        cost += c
    if cur:
        batches.append(cur)
    batches.sort(key=lambda b: -sum((4 ** scenarios[i]["depth"]) * len(scenarios[i]["passes"]) for i in b))
    results = {}

    def work(batch):
        import shutil
        wds = [os.path.join(ctx.workdir, "s%04d" % i) for i in batch]
        rs = execute_batch([scenarios[i] for i in batch], wds)
        for wd in wds:
            shutil.rmtree(wd, ignore_errors=True)
        return list(zip(batch, rs))

    t0 = time.time()
    with ThreadPoolExecutor(max_workers=12) as ex:
        for pairs in ex.map(work, batches):
            for idx, r in pairs:
                results[idx] = r
    tiles = 0
    masked_over = 0
    for idx, cfg in enumerate(scenarios):
        status, res, secs, t = results[idx]
        key = (cfg["depth"], cfg["coordsys"], cfg["pio_format"], cfg["format"], cfg["scheme"], cfg["kind"], cfg["mode"],
               tuple(cfg["parallel"]), cfg["seed_tag"], len(cfg["passes"]))
        ctx.case(key)
        if status == "ok":
            tiles += res.get("tiles", 0)
            masked_over += res.get("masked_over", 0)
        if idx % 17 == 0:
            ctx.sample({"scenario": {k: cfg[k] for k in ("depth", "coordsys", "pio_format", "kind", "mode", "parallel")},
                        "status": status, "tiles_compared": (res or {}).get("tiles") if status == "ok" else None,
                        "secs": round(secs, 2)})
        for obl, extra, msg in judge(cfg, status, res, t):
            n = per_obl.get(obl, 0)
            per_obl[obl] = n + 1
            if n < CAP:
                ctx.violation(obl, witness_of(cfg, extra), msg)
    ctx.monitor("tiles_compared_with_oracle", tiles)
    ctx.monitor("tiles_of_an_earlier_clobbering_pass_wholly_undefined_in_the_last_one", masked_over)
    ctx.note("scenarios run: %d in %.1f s; tiles compared pixel-by-pixel: %d; problems per obligation: %s"
             % (len(scenarios), time.time() - t0, tiles, per_obl))


def replay(obligation, witness):
    import tempfile
    import shutil
    cfg = {k: witness[k] for k in ("depth", "coordsys", "pio_format", "format", "scheme", "kind", "mode", "parallel",
                                    "passes", "seed_tag")}
    if witness.get("entry"):
        cfg["entry"] = witness["entry"]
    wd = tempfile.mkdtemp(prefix="c06_replay_")
    try:
        status, res, secs, t = execute(cfg, os.path.join(wd, "p"))
    finally:
        shutil.rmtree(wd, ignore_errors=True)
    found = judge(cfg, status, res, t)
    same = [f for f in found if f[0] == obligation]
    if same:
        return False, "still fails: %s" % same[0][2]
    if found:
        return False, "fails differently now: %s: %s" % (found[0][0], found[0][2])
    return True, "scenario now satisfies the oracle (%s tiles compared)" % (res or {}).get("tiles")
