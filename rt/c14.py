"""C14 bounded run-time driver: FITS pyramids carry the leaves' true data range upwards.

Writes FITS leaf tiles with toasty (``PyramidIO.write_image`` or ``tile_study_image``), runs
the real cascade (``cascade_images`` / ``Builder.cascade`` + ``write_index_rel_wtml``), then
reads the DATAMIN / DATAMAX cards of *every* tile file with astropy directly and compares
them with a brute-force minimum / maximum over the finite values of the generated leaf
arrays beneath that tile; the ImageSet's data range and the DataMin / DataMax attributes of
index_rel.wtml are compared with the range of all leaves.

Obligations that can be reported.  Witness keys of all: via ("merge"|"builder"|"study"),
mode, depth, leaves [[x, y, content-kind], ...] (via=study: width, height, content instead),
seed, workers, filter; failures on one tile add tile=[n,x,y], card.
Update histories (a leaf file is saved again after its pixels changed; the ground truth of a leaf
is then the data astropy reads from the leaf FILE, and leaf-cards is also checked after every pass):
  via=history    mode, depth, cascade ("merge"|"builder"), negative, passes = [[ [x, y, content-kind,
                 how, op, span], ...], ...] with how in write | save | rw | update and op in fill | merge
                 (see run_history: Image.save after ImageLoader.load_path, PyramidIO.read_image +
                 write_image, the PyramidIO.update_image context manager)
  via=chunked    mode, depth, height (map = height x 2 height), chunk [h, w]: a plate-carree map sampled
                 chunk by chunk (ChunkedPlateCarreeSampler + Builder.toast_base(tile_filter=...)) into a
                 TOAST FITS pyramid -- a leaf crossing a chunk border is updated once per chunk
  via=multi_tan  mosaic [H, W], pieces [[y0, x0, h, w], ...], bottom_up: overlapping FITS pieces of one
                 mosaic tiled by MultiTanProcessor.tile -- a leaf is updated once per piece touching it
  rt/cascade/fits-range/leaf-cards      a leaf tile's cards differ from its own finite range
  rt/cascade/fits-range/parent-cards    a tile above the leaves: card missing or different
                                        from the range of the leaves beneath it
  rt/Builder.cascade/imageset-range     imgset.data_min / data_max after Builder.cascade
  rt/Builder.write_index_rel_wtml/wtml-range   DataMin / DataMax attributes of the WTML
  rt/cascade/fits-range/raises          tiling, cascade or WTML writing raised
  rt/cascade/fits-range/terminates      (parallel) no return within the watchdog, twice
  rt/cascade/fits-range/serial-equals-parallel   cards differ between worker counts
Comparison is to single precision: |card - expected| <= 2.4e-7 * |expected|.

Bounds
  quick   : depth 1: all 15 non-empty leaf subsets x {F32, F64}; depth 2: 60 random sparse
            subsets; depth 3: 12; integer FITS (U8/I16/I32, some negative): 20; 16 study
            tilings (random NaN-rich images up to 1100 px, both axes) through
            tile_study_image + Builder.cascade; 24 of the pyramids re-run with 2 and 4
            workers.  Leaf contents: 5-60 % NaN, no NaN, single finite pixel, ~1 % finite,
            NaN blocks/rows, all-NaN leaves (never stored), constant leaves, extremes planted
            on tile border pixels (half of the float leaves), leaves of very
            different scales (1e-3 .. 300, negative values).
            Zero-extremum family (the sign boundary of "minimum and maximum finite data value":
            the true extremum of a subtree is exactly 0 although no average of the data is):
            36 float pyramids (depth 1..3) whose leaves are one-signed -- strictly positive data
            with a single exactly-zero pixel in some leaves (true minimum 0), strictly negative
            data with a single zero pixel (true maximum 0), clipped / count-like data with many
            zeros, and pyramids mixing positive, negative and generic leaves -- plus 6 study
            tilings of such images; 10 of them are always among the pyramids re-run with 2 and
            4 workers.
            Update histories: 72 single-leaf histories = {save, rw, update} x {F32, F64, I16} x value spans
            {1->50 (widen), 50->1 (narrow), 1->50->0.02, 50->0.02->1} x {every pixel replaced, merge of a
            full image}; 20 random histories (2-4 passes, <= 10 leaves, depth 1..3, F32/F64/I16/I32/U8);
            4 chunked plate-carree maps (64|96 x 128|192 px, 1..6 chunks, depth 1..2); 5 multi_tan
            tilings (2-5 overlapping pieces, mosaics <= 700 px); one of each kind re-run in parallel.
  thorough: depth 2: 1500; depth 3: 250; depth 4: 8; integer: 300; study: 200 (up to 2100 px);
            zero-extremum family: 400 pyramids + 40 study tilings; 200 (+40 zero-extremum)
            pyramids x workers {2, 3, 4}.  Update histories: the 72 + 600 random histories, 100 chunked maps
            (up to 128 x 256 px), 60 multi_tan tilings, 30 of them x workers {2, 3, 4}.
Trusted: astropy.io.fits header/data round trip; the XML attribute names DataMin / DataMax
(omitted by wwt_data_formats when the value is 0).
Not covered: MultiWcsProcessor.tile (same PyramidIO.update_image path as multi_tan, a run costs > 10 s);
leaves containing +-inf (the statement speaks of NaNs; np.nanmin of such a leaf
is not finite and toasty then writes no card).
"""
import contextlib
import io
import os
import shutil
import tempfile

import numpy as np

from rt import c15_modes as M

MOD = "rt.c14"
O_LEAF = "rt/cascade/fits-range/leaf-cards"
O_PARENT = "rt/cascade/fits-range/parent-cards"
O_IMGSET = "rt/Builder.cascade/imageset-range"
O_WTML = "rt/Builder.write_index_rel_wtml/wtml-range"
O_RAISE = "rt/cascade/fits-range/raises"
O_TERM = "rt/cascade/fits-range/terminates"
O_SP = "rt/cascade/fits-range/serial-equals-parallel"

KINDS = ["mixed", "mixed", "full", "blocks", "sparse", "single", "allundef", "constant"]
# one-signed contents: the extremum towards zero is either bounded away from 0 or exactly 0
SIGN_KINDS = ("pos", "poszero", "clip", "neg", "negzero", "negclip")
POS_FAMILY = ["pos", "pos", "poszero", "poszero", "clip", "allundef"]
NEG_FAMILY = ["neg", "neg", "negzero", "negzero", "negclip", "allundef"]
RTOL = 2.4e-7


def signed_array(mode, h, w, nprng, kind):
    """One-signed float content.  'pos': values in [s, 2s) (s in {1e-3, 1, 300}), 0-40 % NaN;
    'poszero': the same with ONE pixel exactly 0 whose aligned 2x2 block is otherwise finite (so
    no 2x2 average is 0); 'clip': ~30 % of the pixels exactly 0 (clipped / count data);
    'neg', 'negzero', 'negclip': the negated arrays (the zero is then the maximum)."""
    dt = M.DTYPES[mode][0]
    scale = float(nprng.choice([1.0, 1e-3, 300.0]))
    a = (1.0 + nprng.random((h, w))) * scale
    if kind in ("clip", "negclip"):
        a[nprng.random((h, w)) < 0.3] = 0.0
    a[nprng.random((h, w)) < float(nprng.uniform(0.0, 0.4))] = np.nan
    if kind in ("poszero", "negzero"):
        i, j = int(nprng.integers(0, h)), int(nprng.integers(0, w))
        i0, j0 = i - i % 2, j - j % 2
        blk = a[i0:i0 + 2, j0:j0 + 2]
        blk[...] = (1.0 + nprng.random(blk.shape)) * scale
        a[i, j] = 0.0
    elif kind in ("pos", "neg") and not np.isfinite(a).any():
        a[0, 0] = scale
    if kind.startswith("neg"):
        a = -a
    return a.astype(dt)


def leaf_array(spec, x, y, kind):
    nprng = np.random.default_rng([spec["seed"], x, y])
    mode = spec["mode"]
    if kind in SIGN_KINDS:
        return signed_array(mode, 256, 256, nprng, kind)
    if kind == "constant":
        dt = M.DTYPES[mode][0]
        v = nprng.integers(1, 100) if mode in M.INT_MODES else (nprng.random() - 0.5) * 10
        return np.full((256, 256), v, dt)
    a = M.random_array(mode, 256, 256, nprng, kind=kind, negative=bool(spec.get("negative")))
    if mode not in M.INT_MODES and kind != "allundef" and nprng.random() < 0.5:
        # the extreme values sit on border pixels of the tile
        fin = a[np.isfinite(a)]
        spots = [(0, 0), (0, 255), (255, 0), (255, 255), (0, int(nprng.integers(256))), (int(nprng.integers(256)), 255)]
        i, j = nprng.choice(len(spots), 2, replace=False)
        a[spots[i]] = fin.min() - abs(fin.min()) * 0.5 - 1e-3
        a[spots[j]] = fin.max() + abs(fin.max()) * 0.5 + 1e-3
    return a


def finite_range(arrs):
    """Brute-force (min, max) over the finite values of a list of arrays; None if none."""
    lo = hi = None
    for a in arrs:
        a = np.asarray(a, dtype=np.float64).ravel()
        a = a[np.isfinite(a)]
        if a.size:
            lo = float(a.min()) if lo is None else min(lo, float(a.min()))
            hi = float(a.max()) if hi is None else max(hi, float(a.max()))
    return None if lo is None else (lo, hi)


def close(card, exp):
    try:
        card = float(card)
    except (TypeError, ValueError):
        return False
    return abs(card - exp) <= RTOL * abs(exp) + 1e-300


# ----------------------------------------------------------------------------- update histories
# A leaf tile is not only written once: the multi-image tilers, the chunked TOAST sampler and user code load an existing
# FITS tile, change its pixels and save it again.  The statement quantifies over what is in the files, whatever their
# history, so for these scenarios the ground truth of a leaf is the data array astropy reads from the leaf FILE (after the
# step / after all passes); what the changes do to the pixels (C15 / the samplers' business) plays no role.

HOWS = ("write", "save", "rw", "update")
OPS = ("fill", "merge")
AMPS = (0.02, 1.0, 50.0)


def pass_array(spec, k, x, y, kind, amp):
    """New data brought to leaf (x, y) by pass ``k``: mask pattern of ``kind``; floating point: values in
    (-0.3 amp, 0.7 amp); integer modes: values in 1 .. max(2, 100 amp) (negated at random when spec['negative'])."""
    mode = spec["mode"]
    nprng = np.random.default_rng([spec["seed"], x, y, k])
    pat = M.random_array(mode, 256, 256, nprng, kind=kind)
    und = M.undef_mask(mode, pat)
    dt = M.DTYPES[mode][0]
    if mode in M.INT_MODES:
        hi = int(min(max(2, 100 * amp), np.iinfo(dt).max))
        a = nprng.integers(1, hi + 1, (256, 256)).astype(np.int64)
        if spec.get("negative") and mode != "U8":
            a = np.where(nprng.random((256, 256)) < 0.5, -a, a)
        a = a.astype(dt)
        a[und] = 0
    else:
        a = ((nprng.random((256, 256)) - 0.3) * amp).astype(dt)
        a[und] = np.nan
    return a


def _tile_file(base, n, x, y):
    return os.path.join(base, str(n), str(y), "%d_%d.fits" % (y, x))


def _check_leaf_file(base, depth, x, y, fail, when):
    """leaf-cards clause on ONE file, right now: cards == finite range of the data in that file."""
    data, hdr = M.read_tile_file(_tile_file(base, depth, x, y), "fits")
    if data is None or M.mode_of_array(data) is None or np.all(M.undef_mask(M.mode_of_array(data), data)):
        return
    exp = finite_range([data])
    if exp is None:
        return
    for card, e in (("DATAMIN", exp[0]), ("DATAMAX", exp[1])):
        if card not in hdr:
            fail(O_LEAF, "%s: leaf (%d,%d,%d) has no %s card; its data span [%r, %r]" % (when, depth, x, y, card, exp[0], exp[1]),
                 tile=[depth, x, y], card=card)
        elif not close(hdr[card], e):
            fail(O_LEAF, "%s: leaf (%d,%d,%d): %s = %r, finite %s of the data in that file = %r" % (
                when, depth, x, y, card, hdr[card], "minimum" if card == "DATAMIN" else "maximum", e), tile=[depth, x, y], card=card)


def run_history(spec, pio, base, fail):
    """via=history.  spec['passes'] = [[ [x, y, kind, how, op, amp], ... ], ...]; passes run one after the other.
      how  'write'   pio.write_image(pos, Image.from_array(new))                       (a fresh tile, clobbering)
           'save'    img = ImageLoader().load_path(file); change img; img.save(file)   (format: the image's own, fits)
           'rw'      img = pio.read_image(pos, default='masked'); change; pio.write_image(pos, img)
           'update'  with pio.update_image(pos, default='masked') as img: change
      op   'fill'    new.fill_into_maskable_buffer(img, ...)    every pixel replaced (the range can shrink)
           'merge'   new.update_into_maskable_buffer(img, ...)  defined pixels of ``new`` land in img
    After every pass each touched leaf file is checked; returns the number of saves onto an existing file."""
    from toasty.image import Image, ImageLoader
    from toasty.pyramid import Pos
    depth = spec["depth"]
    rewrites = 0
    everything = (slice(None),) * 4
    for k, updates in enumerate(spec["passes"]):
        for x, y, kind, how, op, amp in updates:
            pos = Pos(depth, x, y)
            new = Image.from_array(pass_array(spec, k, x, y, kind, amp), default_format="fits")
            path = _tile_file(base, depth, x, y)
            existed = os.path.exists(path)
            tmode = new.mode

            def change(img):
                if op == "fill":
                    new.fill_into_maskable_buffer(img, *everything)
                else:
                    new.update_into_maskable_buffer(img, *everything)

            if how == "save" and op == "fill" and kind == "allundef":
                how = "rw"      # Image.save would store an all-undefined image as a file; pyramid writers never do (write_image unlinks)
            if how == "write" or (how == "save" and not existed):
                pio.write_image(pos, new)
                continue
            rewrites += int(existed)
            if how == "save":
                img = ImageLoader().load_path(path)
                change(img)
                img.save(path)
            elif how == "rw":
                img = pio.read_image(pos, default="masked", masked_mode=tmode)
                change(img)
                pio.write_image(pos, img)
            elif how == "update":
                with pio.update_image(pos, default="masked", masked_mode=tmode) as img:
                    change(img)
            else:
                raise ValueError(how)
        for x, y in sorted(set((u[0], u[1]) for u in updates)):
            _check_leaf_file(base, depth, x, y, fail, "after pass %d" % k)
    pio.clean_lockfiles(depth)
    return rewrites


class FakeChunkedImage(object):
    """An in-memory stand-in for toasty.jpeg2000.ChunkedJPEG2000Reader (shape, n_chunks, chunk_spec, chunk_data)."""

    def __init__(self, data, ch, cw, order):
        self._data, self._ch, self._cw = data, ch, cw
        H, W = data.shape
        self._per_row = (W + cw - 1) // cw
        self._n = ((H + ch - 1) // ch) * self._per_row
        self._order = order

    shape = property(lambda self: self._data.shape)
    n_chunks = property(lambda self: self._n)

    def chunk_spec(self, i):
        i = self._order[i]
        H, W = self._data.shape
        y0, x0 = self._ch * (i // self._per_row), self._cw * (i % self._per_row)
        return x0, y0, min(self._cw, W - x0), min(self._ch, H - y0)

    def chunk_data(self, i):
        x0, y0, w, h = self.chunk_spec(i)
        return self._data[y0:y0 + h, x0:x0 + w]


def run_chunked(spec, pio, builder):
    """via=chunked: a plate-carree float map (H x 2H, 5-40 % NaN, every chunk with its own level and spread) is sampled into
    a FITS TOAST pyramid chunk after chunk, the way test_earth_plate_carree_jpeg2000_chunked_planetary does it:
    Builder.toast_base(chunker.sampler(i), depth, is_planet=True, tile_filter=chunker.filter(i)) for every chunk i.
    A TOAST leaf crossing a chunk border is updated once per chunk."""
    from toasty.samplers import ChunkedPlateCarreeSampler
    nprng = np.random.default_rng(spec["seed"])
    H, W = spec["height"], 2 * spec["height"]
    ch, cw = spec["chunk"]
    dt = M.DTYPES[spec["mode"]][0]
    data = nprng.random((H, W))
    n_chunks = ((H + ch - 1) // ch) * ((W + cw - 1) // cw)
    for j in range((H + ch - 1) // ch):
        for i in range((W + cw - 1) // cw):
            level = float(nprng.choice([-40.0, -1.0, 0.0, 3.0, 200.0]))
            spread = float(nprng.choice([0.01, 1.0, 30.0]))
            blk = data[j * ch:(j + 1) * ch, i * cw:(i + 1) * cw]
            blk[...] = level + spread * blk
    data[nprng.random((H, W)) < float(nprng.uniform(0.05, 0.4))] = np.nan
    data = data.astype(dt)
    order = [int(v) for v in np.random.default_rng(spec["seed"] + 1).permutation(n_chunks)]
    chunker = ChunkedPlateCarreeSampler(FakeChunkedImage(data, ch, cw, order), planetary=True)
    for i in range(chunker.n_chunks):
        builder.toast_base(chunker.sampler(i), spec["depth"], is_planet=True, tile_filter=chunker.filter(i), parallel=spec["workers"])
    pio.clean_lockfiles(spec["depth"])
    return chunker.n_chunks


def run_multi_tan(spec, pio, builder, base):
    """via=multi_tan: rectangular pieces [y0, x0, h, w] cut out of one mosaic (a steep ramp plus noise, a negative
    corner, NaN holes) are stored as FITS files on a common TAN grid and tiled by MultiTanProcessor.tile; pieces share leaf
    tiles, so a leaf is updated once per piece that touches it.  Overlapping pieces agree pixel by pixel."""
    from astropy.io import fits
    from astropy.wcs import WCS
    from toasty import collection, multi_tan
    H, W = spec["mosaic"]
    nprng = np.random.default_rng(spec["seed"])
    yy, xx = np.mgrid[0:H, 0:W]
    mos = (nprng.random((H, W)) + 60.0 * xx / W - 25.0 * yy / H - 5.0).astype(np.float32)
    mos[nprng.random((H, W)) < 0.05] = np.nan
    src = tempfile.mkdtemp(prefix="src_", dir=os.path.dirname(base))
    try:
        g1, g2 = W / 2 + 0.5, H / 2 + 0.5
        paths = []
        for k, (y0, x0, h, w) in enumerate(spec["pieces"]):
            sub = mos[y0:y0 + h, x0:x0 + w]
            wc = WCS(naxis=2)
            wc.wcs.ctype = ["RA---TAN", "DEC--TAN"]
            wc.wcs.crval = [10, 20]
            if spec.get("bottom_up"):
                sub = sub[::-1]
                wc.wcs.crpix = [g1 - x0, h + 1 - (g2 - y0)]
                wc.wcs.cdelt = [-0.001, 0.001]
            else:
                wc.wcs.crpix = [g1 - x0, g2 - y0]
                wc.wcs.cdelt = [-0.001, -0.001]
            p = os.path.join(src, "piece%d.fits" % k)
            fits.PrimaryHDU(np.ascontiguousarray(sub), header=wc.to_header()).writeto(p, overwrite=True)
            paths.append(p)
        proc = multi_tan.MultiTanProcessor(collection.load(paths))
        proc.compute_global_pixelization(builder)
        proc.tile(pio, parallel=spec["workers"], cli_progress=False)
    finally:
        shutil.rmtree(src, ignore_errors=True)
    return len(paths)


def leaves_from_files(base, depth, mode):
    """Data of every leaf file (read with astropy).  As for the written-once pyramids, a leaf whose pixels are all undefined
    (all NaN / all zero for integer data; Image.save stores such an image when asked to, PyramidIO.write_image does not) is
    not a tile: nothing is claimed about it and it does not make the pyramid non-empty."""
    out = {}
    for y in range(2 ** depth):
        for x in range(2 ** depth):
            data, _hdr = M.read_tile_file(_tile_file(base, depth, x, y), "fits")
            if data is not None and M.mode_of_array(data) is not None and not np.all(M.undef_mask(M.mode_of_array(data), data)):
                out[(x, y)] = data
    return out


def range_case(spec, workdir):
    """Returns {'fails': [...], 'cards': {"n/x/y": [min, max]}, 'tiles': int}."""
    import warnings
    warnings.simplefilter("ignore")
    from toasty.builder import Builder
    from toasty.image import Image
    from toasty.merge import averaging_merger, cascade_images
    from toasty.pyramid import PyramidIO, Pos

    base = tempfile.mkdtemp(prefix="c14_", dir=workdir)
    fails = []

    def fail(obl, msg, **extra):
        if len(fails) < 8:
            fails.append({"obligation": obl, "message": msg, "extra": extra})

    try:
        pio = PyramidIO(base, default_format="fits")
        via = spec["via"]
        builder = None
        rewrites = None
        try:
            with contextlib.redirect_stdout(io.StringIO()):
                if via == "study":
                    from toasty.study import tile_study_image
                    W, H = spec["width"], spec["height"]
                    nprng = np.random.default_rng(spec["seed"])
                    if spec.get("content") in SIGN_KINDS:
                        image = signed_array(spec["mode"], H, W, nprng, spec["content"])
                    else:
                        image = M.random_array(spec["mode"], H, W, nprng, kind=spec.get("content", "mixed"))
                    builder = Builder(pio)
                    tiling = tile_study_image(Image.from_array(image.copy(), default_format="fits"), pio)
                    tiling.apply_to_imageset(builder.imgset)
                    depth = builder.imgset.tile_levels
                    p2n = 256 * 2 ** depth
                    gx0, gy0 = (p2n - W) // 2, (p2n - H) // 2

                    def beneath(n, x, y):
                        s = p2n >> n     # canvas extent of a level-n tile
                        r0, r1 = max(s * y, gy0), min(s * y + s, gy0 + H)
                        c0, c1 = max(s * x, gx0), min(s * x + s, gx0 + W)
                        if r0 >= r1 or c0 >= c1:
                            return []
                        return [image[r0 - gy0:r1 - gy0, c0 - gx0:c1 - gx0]]
                elif via in ("history", "chunked", "multi_tan"):
                    if via == "history":
                        depth = spec["depth"]
                        rewrites = run_history(spec, pio, base, fail)
                        if spec.get("cascade") == "builder":
                            builder = Builder(pio)
                            builder.imgset.tile_levels = depth
                    elif via == "chunked":
                        builder = Builder(pio)
                        rewrites = run_chunked(spec, pio, builder) - 1
                        depth = spec["depth"]
                    else:
                        builder = Builder(pio)
                        rewrites = run_multi_tan(spec, pio, builder, base) - 1
                        depth = builder.imgset.tile_levels
                    leaves = leaves_from_files(base, depth, spec["mode"])     # ground truth: what is in the leaf files now

                    def beneath(n, x, y):
                        k = depth - n
                        return [a for (lx, ly), a in leaves.items() if lx >> k == x and ly >> k == y]
                else:
                    depth = spec["depth"]
                    leaves = {}
                    for x, y, kind in spec["leaves"]:
                        arr = leaf_array(spec, x, y, kind)
                        pio.write_image(Pos(depth, x, y), Image.from_array(arr.copy(), default_format="fits"))
                        if not np.all(M.undef_mask(spec["mode"], arr)):
                            leaves[(x, y)] = arr     # an all-undefined (all-NaN / all-zero) leaf is not a tile

                    def beneath(n, x, y):
                        k = depth - n
                        return [a for (lx, ly), a in leaves.items() if lx >> k == x and ly >> k == y]
                    if via == "builder":
                        builder = Builder(pio)
                        builder.imgset.tile_levels = depth
                everything = finite_range(beneath(0, 0, 0))
                kw = {"parallel": spec["workers"]}
                if spec.get("filter") == "all":
                    kw["tile_filter"] = lambda t: True
                if builder is None:
                    cascade_images(pio, depth, averaging_merger, **kw)
                elif everything is not None:
                    builder.cascade(**kw)
                    builder.write_index_rel_wtml()
                else:
                    builder = None   # empty pyramid: Builder.cascade has no root tile to read
        except BaseException as e:
            if isinstance(e, KeyboardInterrupt):
                raise
            return {"fails": [{"obligation": O_RAISE, "message": "%s: %s" % (type(e).__name__, e), "extra": {}}], "cards": {}, "tiles": 0}

        cards = {}
        tiles = 0
        for n in range(depth, -1, -1):
            for y in range(2 ** n):
                for x in range(2 ** n):
                    path = os.path.join(base, str(n), str(y), "%d_%d.fits" % (y, x))
                    data, hdr = M.read_tile_file(path, "fits")
                    if data is None:
                        continue
                    exp = finite_range(beneath(n, x, y))
                    if exp is None:
                        continue      # existence of such a tile is C02's business
                    tiles += 1
                    cards["%d/%d/%d" % (n, x, y)] = [hdr.get("DATAMIN"), hdr.get("DATAMAX")]
                    obl = O_LEAF if n == depth else O_PARENT
                    for card, e in (("DATAMIN", exp[0]), ("DATAMAX", exp[1])):
                        if card not in hdr:
                            fail(obl, "tile (%d,%d,%d) has no %s card; leaves beneath it span [%r, %r]" % (n, x, y, card, exp[0], exp[1]), tile=[n, x, y], card=card)
                        elif not close(hdr[card], e):
                            fail(obl, "tile (%d,%d,%d): %s = %r, finite %s over the leaves beneath it = %r" % (
                                n, x, y, card, hdr[card], "minimum" if card == "DATAMIN" else "maximum", e), tile=[n, x, y], card=card)
        if builder is not None and everything is not None:
            got = (builder.imgset.data_min, builder.imgset.data_max)
            if not (close(got[0], everything[0]) and close(got[1], everything[1])):
                fail(O_IMGSET, "ImageSet data range %r, full-resolution data span %r" % (got, everything))
            import xml.etree.ElementTree as ET
            root = ET.parse(os.path.join(base, "index_rel.wtml")).getroot()
            sets = [el for el in root.iter("ImageSet")]
            if not sets:
                fail(O_WTML, "index_rel.wtml has no ImageSet element")
            for el in sets[:1]:
                got = (float(el.get("DataMin", "0")), float(el.get("DataMax", "0")))
                if not (close(got[0], everything[0]) and close(got[1], everything[1])):
                    fail(O_WTML, "WTML DataMin/DataMax %r, full-resolution data span %r" % (got, everything))
        return {"fails": fails, "cards": cards, "tiles": tiles, "rewrites": rewrites}
    finally:
        shutil.rmtree(base, ignore_errors=True)


def is_zero_family(spec):
    return spec.get("content") in SIGN_KINDS or any(l[2] in SIGN_KINDS for l in spec.get("leaves") or [])


def batch(specs, workdir):
    return {"results": [range_case(s, workdir) for s in specs]}


def base_key(s):
    import json
    d = dict(s)
    for k in ("workers", "filter"):
        d.pop(k, None)
    return json.dumps(d, sort_keys=True)


def rand_leaves(rng, depth, p=None):
    side = 2 ** depth
    p = rng.choice([0.08, 0.3, 0.6, 1.0]) if p is None else p
    leaves = [[x, y, rng.choice(KINDS)] for y in range(side) for x in range(side) if rng.random() < p]
    if not leaves:
        leaves = [[rng.randrange(side), rng.randrange(side), "mixed"]]
    return leaves


def run(ctx):
    import json
    import concurrent.futures
    from rt.common import call_isolated
    rng = ctx.rng
    report = M.Reporter(ctx)
    serial = []

    def mk(mode, depth, leaves, **kw):
        s = {"via": rng.choice(["merge", "builder", "builder"]), "mode": mode, "depth": depth, "leaves": leaves,
             "seed": rng.randrange(2 ** 31), "workers": 1, "filter": None, "negative": False}
        if mode in ("I16", "I32") and rng.random() < 0.5:
            s["negative"] = True
        s.update(kw)
        return s

    n2, n3, n4, nint, nstudy, npar, smax = (1500, 250, 8, 300, 200, 200, 2100) if ctx.thorough else (60, 12, 0, 20, 16, 24, 1100)
    for mode in ("F32", "F64"):
        for sub in range(1, 16):
            serial.append(mk(mode, 1, [[k % 2, k // 2, rng.choice(KINDS)] for k in range(4) if sub >> k & 1]))
    for _ in range(n2):
        serial.append(mk(rng.choice(["F32", "F64"]), 2, rand_leaves(rng, 2)))
    for _ in range(n3):
        serial.append(mk(rng.choice(["F32", "F64"]), 3, rand_leaves(rng, 3)))
    for _ in range(n4):
        serial.append(mk(rng.choice(["F32", "F64"]), 4, rand_leaves(rng, 4, p=rng.choice([0.03, 0.15]))))
    for _ in range(nint):
        d = rng.choice([1, 2, 2, 3])
        serial.append(mk(rng.choice(["U8", "I16", "I32"]), d, rand_leaves(rng, d)))
    for _ in range(nstudy):
        serial.append({"via": "study", "mode": rng.choice(["F32", "F64"]), "width": rng.choice([rng.randint(1, smax), 256, 257, 512, 513]),
                       "height": rng.choice([rng.randint(1, smax), 255, 256, 1025 if smax > 1100 else 300]),
                       "content": rng.choice(["mixed", "blocks", "sparse", "full", "single"]), "seed": rng.randrange(2 ** 31), "workers": 1, "filter": None})
    serial.append(mk("F32", 2, [[1, 2, "allundef"], [3, 3, "allundef"]]))   # nothing is ever stored
    # zero-extremum family: the extremum of a subtree is exactly 0 (sign boundary of the data range)
    nzero, nzstudy, nzpar = (400, 40, 40) if ctx.thorough else (36, 6, 10)
    zero = []

    def zleaves(depth, fam, p):
        side = 2 ** depth
        lv = [[x, y, rng.choice(fam)] for y in range(side) for x in range(side) if rng.random() < p]
        if not any(k.endswith("zero") for _, _, k in lv):
            x, y = rng.randrange(side), rng.randrange(side)
            lv = [l for l in lv if l[:2] != [x, y]] + [[x, y, next(k for k in fam if k.endswith("zero"))]]
        return sorted(lv)

    for i in range(nzero):
        depth = (1, 2, 2, 3)[i % 4] if i >= 4 else (1, 1, 2, 2)[i]
        fam = [POS_FAMILY, NEG_FAMILY, POS_FAMILY, NEG_FAMILY, POS_FAMILY + NEG_FAMILY + KINDS][i % 5]
        p = 1.0 if i < 4 else rng.choice([0.3, 0.6, 1.0])
        zero.append(mk(rng.choice(["F32", "F64"]), depth, zleaves(depth, fam, p)))
    for i in range(nzstudy):
        zero.append({"via": "study", "mode": rng.choice(["F32", "F64"]), "width": rng.choice([rng.randint(2, smax), 300, 513]),
                     "height": rng.choice([rng.randint(2, smax), 257, 600]), "content": ("poszero", "negzero", "clip")[i % 3],
                     "seed": rng.randrange(2 ** 31), "workers": 1, "filter": None})
    serial.extend(zero)
    ctx.bound("zero-extremum family (float FITS): %d pyramids of depth 1..3 with one-signed leaves -- positive data with a single exactly-zero "
              "pixel (true minimum 0), negative data with a single zero pixel (true maximum 0), clipped data with many zeros, and "
              "pyramids mixing positive / negative / generic leaves -- and %d study tilings of such images; %d of them re-run in parallel" % (
                  nzero, nzstudy, min(nzpar, len(zero))))
    ctx.bound("float FITS pyramids: depth 1 all 15 non-empty leaf subsets x {F32,F64}; depth 2: %d random subsets; depth 3: %d; depth 4: %d; "
              "integer FITS pyramids: %d; study tilings (tile_study_image -> Builder.cascade -> WTML), extents <= %d: %d" % (n2, n3, n4, nint, smax, nstudy))
    # update histories: leaves saved again after their pixels changed (see run_history / run_chunked / run_multi_tan)
    hist = []

    def hspec(mode, depth, passes, **kw):
        h = {"via": "history", "mode": mode, "depth": depth, "passes": passes, "cascade": rng.choice(["merge", "builder"]),
             "seed": rng.randrange(2 ** 31), "workers": 1, "filter": None, "negative": mode in ("I16", "I32") and rng.random() < 0.5}
        h.update(kw)
        return h

    # (i) one leaf, every save path x {widen, narrow, widen-then-narrow, narrow-then-widen} x {fill, merge of a full image}
    for how in ("save", "rw", "update"):
        for mode in ("F32", "F64", "I16"):
            for amps in ((1.0, 50.0), (50.0, 1.0), (1.0, 50.0, 0.02), (50.0, 0.02, 1.0)):
                for op in OPS:
                    x, y = rng.randrange(2), rng.randrange(2)
                    passes = [[[x, y, "full" if op == "merge" else rng.choice(["mixed", "full", "blocks"]), "write" if k == 0 else how, op, a],
                               [1 - x, y, "mixed", "write", "fill", 1.0]][:2 if k == 0 else 1] for k, a in enumerate(amps)]
                    hist.append(hspec(mode, 1, passes))
    n_fixed = len(hist)
    # random histories: 2-4 passes over a sparse depth-1..3 pyramid, every pass touching a random share of the leaves
    nhist, nchunk, ntan, nhpar = (600, 100, 60, 30) if ctx.thorough else (20, 4, 5, 3)
    for i in range(nhist):
        depth = (1, 2, 2, 3)[i % 4]
        side = 2 ** depth
        pool = [(x, y) for y in range(side) for x in range(side) if rng.random() < rng.choice([0.15, 0.4, 1.0])] or [(0, 0)]
        pool = pool[:10]
        mode = rng.choice(["F32", "F32", "F64", "F64", "I16", "I32", "U8"])
        passes = []
        for k in range(rng.randint(2, 4)):
            ups = [[x, y, rng.choice(["mixed", "mixed", "full", "blocks", "sparse", "single", "allundef"]),
                    rng.choice(HOWS if k else ("write", "update")), rng.choice(OPS), rng.choice(AMPS)]
                   for (x, y) in pool if k == 0 or rng.random() < 0.6]
            passes.append(ups or [[pool[0][0], pool[0][1], "mixed", "update", "merge", rng.choice(AMPS)]])
        hist.append(hspec(mode, depth, passes))
    for i in range(nchunk):
        H = rng.choice([64, 96, 128]) if ctx.thorough else rng.choice([64, 96])
        hist.append({"via": "chunked", "mode": rng.choice(["F32", "F64"]), "depth": (1, 1, 2, 1)[i % 4], "height": H,
                     "chunk": [rng.choice([H // 2, H]), rng.choice([2 * H, H, 2 * H // 3])], "seed": rng.randrange(2 ** 31),
                     "workers": 1, "filter": None})
    for i in range(ntan):
        Hm, Wm = rng.choice([(420, 520), (300, 640), (700, 600)])
        pcs = []
        for _ in range(rng.randint(2, 5)):
            h, w = rng.randint(60, Hm // 2 + 60), rng.randint(60, Wm // 2 + 60)
            pcs.append([rng.randint(0, Hm - h), rng.randint(0, Wm - w), h, w])
        pcs[0][0], pcs[0][1] = 0, 0
        pcs[-1][0], pcs[-1][1] = Hm - pcs[-1][2], Wm - pcs[-1][3]      # the union spans the mosaic (fixes the global grid)
        hist.append({"via": "multi_tan", "mode": "F32", "mosaic": [Hm, Wm], "pieces": pcs, "bottom_up": bool(i % 2), "seed": rng.randrange(2 ** 31),
                     "workers": 1, "filter": None})
    serial.extend(hist)
    ctx.bound("update histories (leaf tiles saved again after their pixels changed; ground truth = the data in the leaf files): %d single-leaf "
              "histories = {Image.save after ImageLoader.load_path, PyramidIO.read_image + write_image, PyramidIO.update_image} x {F32, F64, "
              "I16} x value spans {1->50, 50->1, 1->50->0.02, 50->0.02->1} x {every pixel replaced, merge of a full image}, each leaf "
              "file checked after every pass, then cascade; %d random histories (2-4 passes over <= 10 leaves of a depth 1..3 pyramid, "
              "F32/F64/I16/I32/U8, spans 0.02/1/50, write / save / read+write / update, fill / merge); %d chunked plate-carree maps "
              "(64..128 x 128..256 px, 1..6 chunks [height, width] with their own level and spread) sampled chunk by chunk through "
              "ChunkedPlateCarreeSampler + Builder.toast_base(tile_filter=...) into a depth-1/2 TOAST FITS pyramid; %d "
              "MultiTanProcessor tilings of 2-5 overlapping FITS pieces of a ramp mosaic (<= 700 px); all followed by the cascade "
              "(+ WTML for the Builder ones); %d of the histories / chunked / multi_tan cases re-run in parallel"
              % (n_fixed, nhist, nchunk, ntan, nhpar))
    wlist = [2, 3, 4] if ctx.thorough else [2, 4]
    cand = list(serial)
    rng.shuffle(cand)
    parallel = []
    zpar = zero[:4] + zero[-2:] + zero[4:nzpar - 2]      # fixed share of the zero-extremum family (pyramids and study tilings)
    hpar = hist[n_fixed:n_fixed + 1] + [h for h in hist if h["via"] == "chunked"][:max(1, nhpar // 3)] + [h for h in hist if h["via"] == "multi_tan"][:max(1, nhpar // 3)]
    if ctx.thorough:
        hpar = (hpar + hist[n_fixed + 1:])[:nhpar]
    chosen = [s for s in cand if not any(s is z for z in zpar) and not any(s is h for h in hist)][:npar] + zpar + hpar
    for s in chosen:
        for w in wlist:
            if s["via"] == "chunked" and w != 2 and not ctx.thorough:
                continue        # every chunk is a parallel stage of its own (seconds of worker start-up and shut-down)
            p = dict(s)
            p["workers"] = w
            if rng.random() < 0.15 and p["via"] not in ("study", "chunked", "multi_tan"):
                p["filter"] = "all"
            parallel.append(p)
    ctx.bound("%d of these pyramids re-run with workers in %r (own interpreter, 90 s watchdog), cards compared with the serial run" % (len(chosen), wlist))
    ctx.assume("astropy.io.fits returns the DATAMIN/DATAMAX cards and data that were written")
    ctx.note("leaves with +-inf are outside the explored domain")

    def cost(s):
        if s["via"] == "study":
            return 0.05 + 0.01 * ((max(s["width"], s["height"]) + 255) // 256) ** 2
        if s["via"] == "history":
            return 0.02 + 0.012 * sum(len(p) for p in s["passes"])
        if s["via"] == "chunked":
            H, (ch, cw) = s["height"], s["chunk"]
            return 0.1 + 0.035 * 4 ** s["depth"] * ((H + ch - 1) // ch) * ((2 * H + cw - 1) // cw)
        if s["via"] == "multi_tan":
            return 0.3 + 0.05 * len(s["pieces"])
        return 0.02 + 0.01 * len(s["leaves"])
    batches, cur, c = [], [], 0.0
    for s in sorted(serial, key=lambda s: -cost(s)):
        cur.append(s)
        c += cost(s)
        if c >= (5.0 if ctx.thorough else 1.0):
            batches.append(cur)
            cur, c = [], 0.0
    if cur:
        batches.append(cur)
    jobs = [("range_case", {"spec": p, "workdir": ctx.workdir}, 90, p) for p in parallel] + \
           [("batch", {"specs": b, "workdir": ctx.workdir}, 600, b) for b in batches]

    def do(job):
        fn, args, to, _ = job
        r = call_isolated(MOD, fn, args, to)
        if r[0] == "timeout" and fn == "range_case":
            r2 = call_isolated(MOD, fn, args, to)
            return ("timeout2", None, r[2] + r2[2]) if r2[0] == "timeout" else r2
        return r

    with concurrent.futures.ThreadPoolExecutor(max_workers=M.n_workers()) as ex:
        results = list(ex.map(do, jobs))
    runs = {}
    if os.environ.get("VERIF_TIMING"):
        import sys
        for job, r in sorted(zip(jobs, results), key=lambda jr: -jr[1][2])[:12]:
            what = job[3] if job[0] == "range_case" else [s["via"] for s in job[3]]
            sys.stderr.write("C14 timing %.1fs %s est=%.1f %s\n" % (r[2], job[0], sum(cost(s) for s in (job[3] if job[0] == "batch" else [job[3]])), str(what)[:200]))

    def account(spec, res):
        # an update history exercises the rule only if some leaf file was saved again / several inputs were tiled
        ctx.case(json.dumps(spec, sort_keys=True), nontrivial=res["tiles"] > 0 and (res.get("rewrites") is None or res["rewrites"] > 0))
        for f in res["fails"]:
            w = dict(spec)
            w.update(f.get("extra") or {})
            report(f["obligation"], w, f["message"], family=spec["mode"] + ("/negative" if spec.get("negative") else "") + ("/zero-extremum" if is_zero_family(spec) else "")
                   + ("/" + spec["via"] if spec["via"] in ("history", "chunked", "multi_tan") else ""))
        runs.setdefault(base_key(spec), []).append((spec, res["cards"]))

    for job, (status, res, secs) in zip(jobs, results):
        if job[0] == "batch":
            if status != "ok" or len(res["results"]) != len(job[3]):
                raise RuntimeError("C14 serial batch %s after %.0fs: %s" % (status, secs, res))
            for s, r in zip(job[3], res["results"]):
                account(s, r)
        elif status == "timeout2":
            ctx.case(json.dumps(job[3], sort_keys=True))
            report(O_TERM, job[3], "cascade with %r workers did not return within 90 s (twice)" % (job[3].get("workers"),))
        elif status != "ok":
            raise RuntimeError("C14 parallel case %s after %.0fs: %s" % (status, secs, res))
        else:
            account(job[3], res)
    for bk, lst in runs.items():
        ref = next((c for s, c in lst if s["workers"] == 1 and not s.get("filter")), lst[0][1])
        for s, c in lst:
            if c != ref:
                k = sorted(set(ref) ^ set(c)) or sorted(t for t in ref if ref[t] != c.get(t))
                w = dict(s)
                w.update({"tile": [int(v) for v in k[0].split("/")]})
                report(O_SP, w, "cards of tile %s differ between the serial run (%r) and workers=%r (%r)" % (k[0], ref.get(k[0]), s["workers"], c.get(k[0])))
    for s in serial[31:33] + serial[-3:-2]:
        ctx.sample(s)
    report.summary()


def replay(obligation, witness):
    from rt.common import call_isolated
    d = tempfile.mkdtemp(prefix="c14_replay_")
    try:
        st, res, secs = call_isolated(MOD, "range_case", {"spec": witness, "workdir": d}, 120)
        if st == "timeout":
            return False, "cascade did not return within 120 s"
        if st != "ok":
            return False, "run crashed: %s" % (res,)
        if obligation == O_SP:
            s1 = dict(witness)
            s1.update({"workers": 1, "filter": None})
            st1, res1, _ = call_isolated(MOD, "range_case", {"spec": s1, "workdir": d}, 120)
            if st1 != "ok":
                return False, "serial run: %s" % st1
            if res1["cards"] != res["cards"]:
                return False, "cards differ between the serial and the parallel run"
            return True, "cards identical in the serial and the parallel run"
        if res["fails"]:
            return False, "; ".join("%s: %s" % (f["obligation"], f["message"]) for f in res["fails"])
        return True, "DATAMIN/DATAMAX of all %d tiles equal the range of the leaves beneath them" % res["tiles"]
    finally:
        shutil.rmtree(d, ignore_errors=True)
