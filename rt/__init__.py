"""Bounded run-time tier: contracts/oracles executed on the real code (never counted as proved)."""
