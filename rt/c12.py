"""C12 (bounded run-time tier) -- point look-up returns the tile and the pixel that contain the point.

Oracle: rt/c04_sphere.py (independent 3-vector model of the documented TOAST layout).
* containment: the documented spherical quadrilateral of the *returned position* (n, x, y) must
  contain the point: signed angular distance to each of its four great-circle edges
  >= -(1e-10 + 8 eps / shortest_edge) rad.  This is "up to rounding on shared edges": toasty
  locates an edge with dot(cross(a, b), p), and the float64 cross product of two corners that are
  |b - a| apart fixes the edge only to ~eps / |b - a| (2e-13 rad at depth 12, 2e-8 rad = 1/5 tile
  at depth 24; observed: points placed exactly on an edge land up to 1.5e-10 rad outside the
  returned depth-24 tile).  A wrong tile is off by a sizeable fraction of a tile;
* nesting: position at depth d is the ancestor (x >> 1, y >> 1) of the position at depth d + 1;
* periodicity: the tile returned for lon + 2 pi k must contain the original point (interiors of
  tiles are disjoint, so away from edges this forces the same tile; on an edge either neighbour
  is allowed); tolerance widened by 8 ulp of |lon + 2 pi k|;
* pixel: the 256 x 256 pixel centres of the returned tile are the centres of the documented
  tiles 8 levels deeper (model, cf. C05); the pixel whose centre has the smallest angular
  distance to the point is (i*, j*); the returned (x, y) must satisfy max(|x - j*|, |y - i*|) <= 2
  (every centre within 1e-12 of the minimum distance is accepted as "nearest").  Only for points
  at least one degree from the poles.

Obligations and witness keys
----------------------------
rt/toast_tile_for_point/contains_point   {coordsys, depth, lat, lon, kind, tile:[n,x,y], margin}
rt/toast_tile_for_point/level            {coordsys, depth, lat, lon, kind, tile}          (n != depth or x, y out of range)
rt/toast_tile_for_point/nested           {coordsys, depth, lat, lon, kind, tile, parent_tile}
rt/toast_tile_for_point/lon_periodic     {coordsys, depth, lat, lon, kind, k, tile, tile_shifted, margin}
rt/toast_tile_for_point/raises           {coordsys, depth, lat, lon, kind, error}
rt/toast_pixel_for_point/near_nearest_centre
        {coordsys, depth, lat, lon, kind, lon_quadrant (0..3 = floor(lon / 90 deg)), tile, contained (does the tile
         contain the point), branch_mismatch (some pixel longitude reported by toast_tile_get_coords for that tile is
         more than pi away from lon, i.e. on another 2 pi branch), px, py, nearest:[i, j], err}
rt/toast_pixel_for_point/tile            {coordsys, depth, lat, lon, kind, tile, tile_lookup}  (differs from toast_tile_for_point)
rt/toast_pixel_for_point/lon_periodic    same keys as near_nearest_centre plus k: the call with lon + 2 pi k
rt/toast_pixel_for_point/raises          {coordsys, depth, lat, lon, kind, error}          (depth 0 is a legal depth)
Call order (scenario ``order_...``): the per-system jobs above never use both coordinate systems in one process.  Here ONE
process looks the same point up again and again, alternating between the two coordinate systems, between tile and pixel
look-up and between lon and lon + pi (in the other system lon + pi falls on the same *position* (n, x, y) of the square,
whose sky coordinates differ), in both orders.  Every answer must satisfy the oracle of ITS coordinate system whatever was
asked before, and the same call must give the same answer every time.
rt/order_toast_tile_for_point/<clause>, rt/order_toast_pixel_for_point/<clause>
        clauses and keys as above (coordsys, lat, lon = those of the failing call) plus
        {sequence: [[fn, coordsys, shift]...] (fn 'tile'|'pixel'; the call uses lon0 + shift * pi), lon0, index (the failing
         call), before: the <= 12 calls [fn, coordsys, depth, lat, lon] made in the process just before the sequence}
rt/order_toast_tile_for_point/repeatable, rt/order_toast_pixel_for_point/repeatable
        {coordsys, depth, lat, lon, kind, sequence, lon0, index, first_index, answer, first_answer, before}
``kind`` names the family of the point: random | pole | equator | seam | meridian | corner | edge | near_pole.
Reports are capped at 4 per (obligation, coordsys, family), so that a failure of one family (e.g. one
coordinate system) cannot hide another.

Bounds
------
quick   : per coordinate system 400 random points (uniform on the sphere) + ~470 special points (poles, equator
          diamond, seam lon = 0 / 2 pi / pi, meridians k pi/2, all lattice corners of level <= 3, points on tile
          edges of level <= 4, |lat| within 1e-9..0.5 deg of the poles); tile look-up at every depth 0..10 (nesting)
          and one depth in 11..20; periodicity with k in {-1000, -3, -1, 1, 2, 1000}; 200 pixel look-ups
          (depth 0..10) + 30 with shifted longitude.
          call order: 120 points (one third special) x sequences of 4..8 look-ups (4 fixed alternation patterns + seeded
          random ones), depth 0..10, in 4 processes.
thorough: call order: 1500 points, in 12 processes.
thorough: 12000 random + ~1300 special points (corners to level 4, edges to level 5), depths 0..16 and one in 17..24;
          4000 pixel look-ups + 500 shifted.

Trusted: numpy; the model rt/c04_sphere.py.  toast_tile_get_coords is called only to fill the
descriptive witness key ``branch_mismatch``; it plays no part in the verdict.
"""
import math
import os
from concurrent.futures import ThreadPoolExecutor

import numpy as np

from rt import c04_sphere as S
from rt.common import call_isolated

TOL_IN = 1e-10        # rad, containment
TOL_PIX = 2.0 + 1e-9  # pixels
ONE_DEG = math.pi / 180.0
# workers are single-threaded: 14 of them already fill the machine (BLAS threads would oversubscribe it)
_ONE_THREAD = {"OMP_NUM_THREADS": "1", "OPENBLAS_NUM_THREADS": "1", "MKL_NUM_THREADS": "1"}
CAP = 4
EPS = 2.220446049250313e-16


def _margin(coordsys, n, x, y, p):
    """(margin, tolerance).  toasty decides the side of an edge with dot(cross(a, b), p) on float64
    corners; the cross product of two corners |b - a| apart carries ~eps absolute error, i.e. the
    edge is only located to ~eps / |b - a| radians: that is the "rounding on shared edges" the
    statement allows (2e-13 rad at depth 12, 2e-8 rad = a fifth of a tile at depth 24)."""
    if n == 0:
        return math.inf, TOL_IN
    q, _inc = S.tile_quad(coordsys, n, x, y)
    return float(S.quad_inside_margin(q, p)), TOL_IN + 8 * EPS / S.quad_min_edge(q)


def _pos_ok(t, depth):
    n, x, y = int(t.pos.n), int(t.pos.x), int(t.pos.y)
    return n == depth and 0 <= x < (1 << n) and 0 <= y < (1 << n)


def check_tile_point(T, coordsys, pt, answer=None):
    """Tile look-ups for one point.  pt: {lat, lon, kind, depths: [...increasing...], ks: [...]}
    ``answer`` (a dict) receives the positions found, by depth."""
    out = []
    cs = T.ToastCoordinateSystem(coordsys)
    lat, lon, kind = float(pt["lat"]), float(pt["lon"]), pt.get("kind", "random")
    p = S.ll2v(lon, lat)
    prev = None
    found = {}
    for depth in pt["depths"]:
        w = {"coordsys": coordsys, "depth": depth, "lat": lat, "lon": lon, "kind": kind}
        try:
            t = T.toast_tile_for_point(depth, lat, lon, coordsys=cs)
        except Exception as e:
            out.append(("rt/toast_tile_for_point/raises", dict(w, error=repr(e)), "toast_tile_for_point(%d, %r, %r) raised %r" % (depth, lat, lon, e)))
            continue
        pos = [int(t.pos.n), int(t.pos.x), int(t.pos.y)]
        w["tile"] = pos
        if not _pos_ok(t, depth):
            out.append(("rt/toast_tile_for_point/level", w, "look-up at depth %d returned position %r" % (depth, pos)))
            continue
        m, tol = _margin(coordsys, pos[0], pos[1], pos[2], p)
        if not m >= -tol:
            out.append(("rt/toast_tile_for_point/contains_point", dict(w, margin=m),
                        "tile %r returned for (lat %.6f, lon %.6f) does not contain the point: it lies %.3g rad outside" % (pos, lat, lon, -m)))
        if prev is not None:
            dd = pos[0] - prev[0]
            if (pos[1] >> dd, pos[2] >> dd) != (prev[1], prev[2]):
                out.append(("rt/toast_tile_for_point/nested", dict(w, parent_tile=prev),
                            "tile %r (depth %d) is not inside tile %r returned for depth %d" % (pos, depth, prev, prev[0])))
        prev = pos
        found[depth] = pos
        if answer is not None:
            answer[depth] = pos
    # periodicity at the deepest requested depth and at a shallow one
    for k in pt.get("ks", []):
        for depth in sorted(set([pt["depths"][-1], min(3, pt["depths"][-1])])):
            lon2 = lon + S.TWOPI * k
            w = {"coordsys": coordsys, "depth": depth, "lat": lat, "lon": lon, "kind": kind, "k": k}
            if depth not in found:
                continue     # already reported above
            try:
                t2 = T.toast_tile_for_point(depth, lat, lon2, coordsys=cs)
            except Exception as e:
                out.append(("rt/toast_tile_for_point/raises", dict(w, error=repr(e)), "toast_tile_for_point(%d, %r, %r) raised %r" % (depth, lat, lon2, e)))
                continue
            pos0 = found[depth]
            pos2 = [int(t2.pos.n), int(t2.pos.x), int(t2.pos.y)]
            if pos2 == pos0:
                continue
            w.update(tile=pos0, tile_shifted=pos2)
            if not _pos_ok(t2, depth):
                out.append(("rt/toast_tile_for_point/lon_periodic", dict(w, margin=None), "lon + 2 pi * %d gives position %r" % (k, pos2)))
                continue
            m, tol = _margin(coordsys, pos2[0], pos2[1], pos2[2], p)
            if not m >= -(tol + 8 * EPS * abs(lon2)):
                out.append(("rt/toast_tile_for_point/lon_periodic", dict(w, margin=m),
                            "lon and lon + 2 pi * %d give tiles %r and %r, and the latter is %.3g rad away from the point" % (k, pos0, pos2, -m)))
    return out


def _model_pixel_centres(coordsys, n, x, y):
    if n == 0:
        L, _inc = S.lattice(coordsys, 9)
        return np.transpose(L[1::2, 1::2], (1, 0, 2))
    q, inc = S.tile_quad(coordsys, n, x, y)
    return S.quad_pixel_centres(q, inc, 8)


def check_pixel_point(T, coordsys, pt, answer=None):
    """Pixel look-up for one point.  pt: {lat, lon, kind, depth, k}; k != 0 calls with lon + 2 pi k.
    ``answer`` (a dict) receives the raw answer under "value"."""
    out = []
    cs = T.ToastCoordinateSystem(coordsys)
    lat, lon, kind, depth = float(pt["lat"]), float(pt["lon"]), pt.get("kind", "random"), int(pt["depth"])
    k = int(pt.get("k", 0))
    lon_call = lon + S.TWOPI * k
    w = {"coordsys": coordsys, "depth": depth, "lat": lat, "lon": lon, "kind": kind}
    if k:
        w["k"] = k
    obl = "rt/toast_pixel_for_point/lon_periodic" if k else "rt/toast_pixel_for_point/near_nearest_centre"
    try:
        tile, px, py = T.toast_pixel_for_point(depth, lat, lon_call, coordsys=cs)
        px, py = float(px), float(py)
    except Exception as e:
        out.append(("rt/toast_pixel_for_point/raises", dict(w, error=repr(e)),
                    "toast_pixel_for_point(%d, %r, %r) raised %r" % (depth, lat, lon_call, e)))
        return out
    pos = [int(tile.pos.n), int(tile.pos.x), int(tile.pos.y)]
    w["tile"] = pos
    if answer is not None:
        answer["value"] = [pos, px, py]
    if not _pos_ok(tile, depth):
        out.append(("rt/toast_pixel_for_point/tile", dict(w, tile_lookup=None), "pixel look-up at depth %d returned position %r" % (depth, pos)))
        return out
    try:
        t1 = T.toast_tile_for_point(depth, lat, lon_call, coordsys=cs)
        pos1 = [int(t1.pos.n), int(t1.pos.x), int(t1.pos.y)]
        if pos1 != pos:
            out.append(("rt/toast_pixel_for_point/tile", dict(w, tile_lookup=pos1),
                        "pixel look-up names tile %r, tile look-up names %r" % (pos, pos1)))
    except Exception:
        pass
    p = S.ll2v(lon, lat)
    C = _model_pixel_centres(coordsys, pos[0], pos[1], pos[2])
    d = S.chord(C, p)
    dmin = float(d.min())
    cand = np.argwhere(d <= dmin + 1e-12)
    if not (math.isfinite(px) and math.isfinite(py)):
        err = math.inf
        ci, cj = int(cand[0][0]), int(cand[0][1])
    else:
        errs = np.maximum(np.abs(cand[:, 1] - px), np.abs(cand[:, 0] - py))
        b = int(np.argmin(errs))
        err = float(errs[b])
        ci, cj = int(cand[b][0]), int(cand[b][1])
    if not err <= TOL_PIX:
        m, tol = _margin(coordsys, pos[0], pos[1], pos[2], p)
        contained = bool(m >= -tol)
        mismatch = None
        try:
            if pos[0] >= 1:
                lons, _lats = T.toast_tile_get_coords(tile)
                mismatch = bool(np.any(np.abs(np.asarray(lons) - lon_call) > math.pi))
        except Exception:
            pass
        out.append((obl, dict(w, lon_quadrant=int((lon % S.TWOPI) // (math.pi / 2)) % 4, contained=contained,
                              branch_mismatch=mismatch, px=px, py=py, nearest=[ci, cj], err=err),
                    "pixel position (x %.3f, y %.3f) in tile %r is %.3g pixels from the pixel (row %d, col %d) whose centre is nearest "
                    "to (lat %.6f, lon %.6f)%s" % (px, py, pos, err, ci, cj, lat, lon, " [called with lon + 2 pi * %d]" % k if k else "")))
    return out


def _family(obl, wit):
    return (obl, wit.get("coordsys"), wit.get("branch_mismatch"), wit.get("contained"), wit.get("depth") == 0)


def work(coordsys, tile_points, pixel_points):
    from toasty import toast as T
    res = []
    fam = {}
    total = {}

    def add(items):
        for (obl, wit, msg) in items:
            total[obl] = total.get(obl, 0) + 1
            f = "|".join(map(str, _family(obl, wit)))
            fam[f] = fam.get(f, 0) + 1
            if fam[f] <= CAP:
                res.append([obl, wit, msg])

    for pt in tile_points:
        add(check_tile_point(T, coordsys, pt))
    for pt in pixel_points:
        add(check_pixel_point(T, coordsys, pt))
    return {"violations": res, "totals": total, "families": fam}


# ---------------------------------------------------------------------------------------------
# call order: both coordinate systems, tile and pixel look-ups, in ONE process

_PATTERNS = (
    [["pixel", "astronomical", 0], ["pixel", "planetary", 0], ["pixel", "astronomical", 0], ["pixel", "planetary", 0]],
    [["pixel", "planetary", 0], ["pixel", "astronomical", 0], ["pixel", "planetary", 0], ["pixel", "astronomical", 0]],
    [["pixel", "astronomical", 0], ["pixel", "planetary", 1], ["tile", "planetary", 1], ["pixel", "astronomical", 0], ["pixel", "planetary", 1]],
    [["pixel", "planetary", 0], ["pixel", "astronomical", 1], ["tile", "astronomical", 1], ["pixel", "planetary", 0], ["pixel", "astronomical", 1]],
)


def run_sequence(T, pt, before):
    """pt: {lat, lon, kind, depth, sequence}.  ``before``: list of earlier calls of this process (appended to)."""
    out = []
    lat, lon0, kind, depth = float(pt["lat"]), float(pt["lon"]), pt.get("kind", "random"), int(pt["depth"])
    seq = pt["sequence"]
    ctxw = {"sequence": seq, "lon0": lon0, "before": [list(b) for b in before[-12:]]}
    first = {}
    for idx, (fn, coordsys, shift) in enumerate(seq):
        lon = lon0 + shift * math.pi
        ans = {}
        if fn == "pixel":
            items = check_pixel_point(T, coordsys, {"lat": lat, "lon": lon, "kind": kind, "depth": depth, "k": 0}, ans)
            val = ans.get("value")
        else:
            items = check_tile_point(T, coordsys, {"lat": lat, "lon": lon, "kind": kind, "depths": [depth], "ks": []}, ans)
            val = ans.get(depth)
        before.append([fn, coordsys, depth, lat, lon])
        for obl, wit, msg in items:
            out.append((obl.replace("rt/toast_", "rt/order_toast_"), dict(wit, index=idx, **ctxw),
                        "call %d of %s: %s" % (idx, [s[0][0] + s[1][0].upper() + ("'" if s[2] else "") for s in seq], msg)))
        key = (fn, coordsys, shift)
        if val is not None:
            if key not in first:
                first[key] = (idx, val)
            elif first[key][1] != val:
                out.append(("rt/order_toast_%s_for_point/repeatable" % fn,
                            dict(ctxw, coordsys=coordsys, depth=depth, lat=lat, lon=lon, kind=kind, index=idx, first_index=first[key][0],
                                 answer=val, first_answer=first[key][1]),
                            "calls %d and %d are the same %s look-up (%s, depth %d, lat %.6f, lon %.6f) and answer %r and %r" % (
                                first[key][0], idx, fn, coordsys, depth, lat, lon, first[key][1], val)))
    return out


def work_order(points):
    from toasty import toast as T
    res = []
    fam = {}
    total = {}
    before = []
    for pt in points:
        for (obl, wit, msg) in run_sequence(T, pt, before):
            total[obl] = total.get(obl, 0) + 1
            f = "|".join(map(str, _family(obl, wit)))
            fam[f] = fam.get(f, 0) + 1
            if fam[f] <= CAP:
                res.append([obl, wit, msg])
    return {"violations": res, "totals": total, "families": fam}


def _build_order(seed, thorough):
    import random
    rng = random.Random("c12/order/%s" % seed)       # own generator: the older case streams stay as they were
    n_pts, dmax = (1500, 12) if thorough else (120, 10)
    special = [p for p in _special_points("astronomical", rng, 3, 4) if abs(p[0]) <= math.pi / 2 - ONE_DEG]
    pts = []
    for i in range(n_pts):
        if i % 3 == 2:
            lat, lon, kind = rng.choice(special)
        else:
            lat, lon, kind = math.asin(rng.uniform(-1, 1)), rng.uniform(0, S.TWOPI), "random"
            if abs(lat) > math.pi / 2 - ONE_DEG:
                lat = 0.9 * lat
        depth = i % (dmax + 1) if i < 4 * (dmax + 1) else rng.randint(0, dmax)
        if i % 2 == 0:
            seq = [list(s) for s in _PATTERNS[(i // 2) % len(_PATTERNS)]]
        else:
            seq = [[rng.choice(["pixel", "pixel", "tile"]), rng.choice(list(S.COORDSYS)), rng.choice([0, 0, 1])] for _ in range(rng.randint(4, 8))]
        pts.append({"lat": lat, "lon": lon, "kind": kind, "depth": depth, "sequence": seq})
    return pts, dict(n_pts=n_pts, dmax=dmax)


# ---------------------------------------------------------------------------------------------
# domain


def _special_points(coordsys, rng, corner_level, edge_level):
    pts = []
    hp = math.pi / 2

    def add(lat, lon, kind):
        pts.append((max(-hp, min(hp, float(lat))), float(lon), kind))

    for lon in (0.0, 0.3, hp, math.pi, 4.0, 1.5 * math.pi, S.TWOPI, 5.9):
        add(hp, lon, "pole")
        add(-hp, lon, "pole")
    for dl in (1e-9, 1e-6, 1e-3, 0.5 * ONE_DEG):
        for _ in range(6):
            lon = rng.uniform(0, S.TWOPI)
            add(hp - dl, lon, "near_pole")
            add(-hp + dl, lon, "near_pole")
    for i in range(16):
        add(0.0, i * math.pi / 8, "equator")
    for _ in range(40):
        add(0.0, rng.uniform(0, S.TWOPI), "equator")
        add(rng.choice([-1, 1]) * 1e-15, rng.uniform(0, S.TWOPI), "equator")
    for lon in (0.0, S.TWOPI, 5e-324, 1e-17, 1e-9, S.TWOPI - 1e-15, math.nextafter(S.TWOPI, 0.0), math.pi,
                math.nextafter(math.pi, 0.0), math.nextafter(math.pi, 7.0)):
        for _ in range(8):
            add(math.asin(rng.uniform(-1, 1)), lon, "seam")
        add(0.0, lon, "seam")
    for kq in range(4):
        base = kq * hp
        for lon in (base, math.nextafter(base, -1.0), math.nextafter(base, 7.0)):
            if lon < 0:
                continue
            for _ in range(6):
                add(math.asin(rng.uniform(-1, 1)), lon, "meridian")
    # every lattice corner of the documented grid up to corner_level
    L, _inc = S.lattice(coordsys, corner_level)
    lon_c, lat_c = S.v2ll(L)
    m = L.shape[0]
    for x in range(m):
        for y in range(m):
            add(lat_c[x, y], lon_c[x, y], "corner")
    # points on tile edges (great-circle interpolation between adjacent lattice points)
    Le, _inc = S.lattice(coordsys, edge_level)
    me = Le.shape[0]
    n_edge = 4 * me if edge_level <= 4 else 6 * me
    for _ in range(n_edge):
        x, y = rng.randrange(me - 1), rng.randrange(me - 1)
        a = Le[x, y]
        b = Le[x + 1, y] if rng.random() < 0.5 else Le[x, y + 1]
        f = rng.choice([0.5, rng.random(), rng.random()])
        v = (1 - f) * a + f * b
        v = v / math.sqrt(float((v * v).sum()))
        lon_e, lat_e = S.v2ll(v)
        add(lat_e, lon_e, "edge")
    return pts


def _build(ctx, coordsys):
    rng = ctx.rng
    if ctx.thorough:
        n_rand, corner_level, edge_level, dmax, dtop, n_pix, n_pix_shift = 12000, 4, 5, 16, 24, 4000, 500
    else:
        n_rand, corner_level, edge_level, dmax, dtop, n_pix, n_pix_shift = 400, 3, 4, 10, 20, 200, 30
    pts = [(math.asin(rng.uniform(-1, 1)), rng.uniform(0, S.TWOPI), "random") for _ in range(n_rand)]
    pts += _special_points(coordsys, rng, corner_level, edge_level)
    ks_all = [-1000, -3, -1, 1, 2, 1000]
    tile_points = []
    for (lat, lon, kind) in pts:
        depths = list(range(0, dmax + 1)) + [rng.randint(dmax + 1, dtop)]
        tile_points.append({"lat": lat, "lon": lon, "kind": kind, "depths": depths, "ks": [rng.choice(ks_all)]})
    # a few look-ups with a non-canonical longitude as the *primary* input
    for _ in range(max(20, n_rand // 50)):
        lat = math.asin(rng.uniform(-1, 1))
        lon = rng.choice([rng.uniform(-50, 50), -rng.uniform(0, S.TWOPI), rng.uniform(S.TWOPI, 2 * S.TWOPI), 1e6 * rng.random()])
        tile_points.append({"lat": lat, "lon": lon, "kind": "random", "depths": [0, 1, 2, 5, rng.randint(6, dmax)], "ks": [rng.choice(ks_all)]})
    # pixel look-ups: points at least one degree from the poles
    elig = [p for p in pts if abs(p[0]) <= math.pi / 2 - ONE_DEG]
    special = [p for p in elig if p[2] != "random"]
    rnd = [p for p in elig if p[2] == "random"]
    pixel_points = []
    n_special = min(len(special), n_pix // 3)
    chosen = rng.sample(special, n_special) + rnd[:n_pix - n_special]
    for i, (lat, lon, kind) in enumerate(chosen):
        depth = i % (dmax + 1) if i < 3 * (dmax + 1) else rng.randint(0, dmax)
        pixel_points.append({"lat": lat, "lon": lon, "kind": kind, "depth": depth, "k": 0})
    for i in range(n_pix_shift):
        lat, lon, kind = rng.choice(rnd)
        pixel_points.append({"lat": lat, "lon": lon, "kind": kind, "depth": rng.randint(1, dmax), "k": rng.choice([-2, -1, 1, 3])})
    return tile_points, pixel_points, dict(n_rand=n_rand, n_special=len(pts) - n_rand, dmax=dmax, dtop=dtop,
                                           n_pix=len(pixel_points) - n_pix_shift, n_pix_shift=n_pix_shift,
                                           corner_level=corner_level, edge_level=edge_level)


def run(ctx):
    nworkers = max(2, min(14, (os.cpu_count() or 4) - 2))
    per = max(1, nworkers // 2)
    jobs = []
    info = None
    for coordsys in S.COORDSYS:
        tile_points, pixel_points, info = _build(ctx, coordsys)
        for c in range(per):
            jobs.append((coordsys, tile_points[c::per], pixel_points[c::per]))
    ctx.bound("both coordinate systems; per system %(n_rand)d uniform random points + %(n_special)d special points (poles, within 1e-9..0.5 deg "
              "of the poles, equator diamond, seam lon = 0 / 2 pi / pi +- 1 ulp, meridians k pi/2 +- 1 ulp, every lattice corner of level "
              "<= %(corner_level)d, points on tile edges of level <= %(edge_level)d) + look-ups with non-canonical longitudes (negative, > 2 pi, "
              "up to 1e6)" % info)
    ctx.bound("tile look-up at every depth 0..%(dmax)d plus one depth in %(dmax)d+1..%(dtop)d per point: level, containment (margin >= -1e-10 rad), "
              "nesting; periodicity for one k of {-1000,-3,-1,1,2,1000} per point at depth 3 and at the deepest depth" % info)
    ctx.bound("pixel look-up: %(n_pix)d points >= 1 degree from the poles (one third special points), depth 0..%(dmax)d; %(n_pix_shift)d more called "
              "with lon + 2 pi k, k in {-2,-1,1,3}; |pixel - nearest-centre pixel| <= 2 (Chebyshev)" % info)
    ctx.assume("rt/c04_sphere.py is a faithful model of the documented TOAST layout; pixel centres = centres of the tiles 8 levels deeper (C05)")
    timeout = 560 if ctx.thorough else 150
    opts, oinfo = _build_order(ctx.seed, ctx.thorough)
    n_ojobs = 12 if ctx.thorough else 4
    ojobs = [opts[c::n_ojobs] for c in range(n_ojobs)]
    ctx.bound("call order, both coordinate systems in ONE process: %(n_pts)d points >= 1 degree from the poles (one third special points), depth "
              "0..%(dmax)d; per point a sequence of 4..8 look-ups: 4 fixed alternation patterns (pixel A,P,A,P; P,A,P,A; the same with lon + pi "
              "in the second system, which hits the same position of the square, and a tile look-up in between) and seeded random sequences over "
              "{tile, pixel} x {astronomical, planetary} x {lon, lon + pi}; every answer against the oracle of its own system; equal calls must "
              "give equal answers" % oinfo)

    def do(job):
        if isinstance(job, list):
            return job, call_isolated("rt.c12", "work_order", {"points": job}, timeout, env=_ONE_THREAD)
        coordsys, tp, pp = job
        return job, call_isolated("rt.c12", "work", {"coordsys": coordsys, "tile_points": tp, "pixel_points": pp}, timeout, env=_ONE_THREAD)

    with ThreadPoolExecutor(max_workers=nworkers + 2) as ex:
        all_results = list(ex.map(do, jobs + ojobs))
    results = all_results[:len(jobs)]
    order_results = all_results[len(jobs):]
    fam_seen = {}
    totals = {}
    sampled = set()
    for (coordsys, tp, pp), (status, res, secs) in results:
        if status != "ok":
            raise RuntimeError("C12 worker %s after %.0fs: %r" % (status, secs, res))
        for pt in tp:
            for d in pt["depths"]:
                ctx.case(("tile", coordsys, pt["lat"], pt["lon"], d))
            for k in pt["ks"]:
                ctx.case(("tile-shift", coordsys, pt["lat"], pt["lon"], k))
        for pt in pp:
            ctx.case(("pixel", coordsys, pt["lat"], pt["lon"], pt["depth"], pt["k"]))
        if coordsys not in sampled and tp and pp:
            sampled.add(coordsys)
            ctx.sample({"coordsys": coordsys, "tile_point": {k: tp[0][k] for k in ("lat", "lon", "kind")}, "depths": tp[0]["depths"],
                        "pixel_point": pp[0]})
        for (obl, wit, msg) in res["violations"]:
            f = _family(obl, wit)
            fam_seen[f] = fam_seen.get(f, 0) + 1
            if fam_seen[f] <= CAP:
                ctx.violation(obl, wit, msg)
        for obl, k in res["totals"].items():
            key = (obl, coordsys)
            totals[key] = totals.get(key, 0) + k
    for pts_, (status, res, secs) in order_results:
        if status == "timeout":
            ctx.note("call-order job of %d points did not finish in %d s: undecided" % (len(pts_), timeout))
            continue
        if status != "ok":
            raise RuntimeError("C12 call-order worker %s after %.0fs: %r" % (status, secs, res))
        for pt in pts_:
            for idx, (fn, cs_, shift) in enumerate(pt["sequence"]):
                ctx.case(("order", pt["lat"], pt["lon"], pt["depth"], idx, fn, cs_, shift, tuple(map(tuple, pt["sequence"][:idx]))))
        for (obl, wit, msg) in res["violations"]:
            f = _family(obl, wit)
            fam_seen[f] = fam_seen.get(f, 0) + 1
            if fam_seen[f] <= CAP:
                ctx.violation(obl, wit, msg)
        for obl, k in res["totals"].items():
            key = (obl, "both")
            totals[key] = totals.get(key, 0) + k
    for (obl, coordsys), k in sorted(totals.items()):
        ctx.note("%s [%s]: %d failing cases met in all; at most %d per (coordsys, branch_mismatch, contained, depth==0) family reported" % (obl, coordsys, k, CAP))


def replay(obligation, witness):
    from toasty import toast as T
    w = witness
    coordsys = w["coordsys"]
    if w.get("sequence") is not None:
        # call order: the recorded calls that preceded the sequence in its process, then the sequence itself
        kinds = {"tile": T.toast_tile_for_point, "pixel": T.toast_pixel_for_point}
        before = []
        for fn, cs_, d_, lat_, lon_ in w.get("before") or []:
            try:
                kinds[fn](int(d_), float(lat_), float(lon_), coordsys=T.ToastCoordinateSystem(cs_))
            except Exception:
                pass
            before.append([fn, cs_, d_, lat_, lon_])
        pt = {"lat": w["lat"], "lon": w["lon0"], "kind": w.get("kind", "random"), "depth": w["depth"], "sequence": w["sequence"]}
        res = run_sequence(T, pt, before)
        same = [r for r in res if r[0] == obligation and r[1].get("index") == w.get("index")] or [r for r in res if r[0] == obligation]
        if same:
            return False, same[0][2]
        if res:
            return False, "recorded obligation holds now, but %s: %s" % (res[0][0], res[0][2])
        return True, "every look-up of the recorded sequence now satisfies the property of its own coordinate system"
    if obligation.startswith("rt/toast_pixel_for_point/"):
        pt = {"lat": w["lat"], "lon": w["lon"], "kind": w.get("kind", "random"), "depth": w["depth"], "k": w.get("k", 0)}
        res = check_pixel_point(T, coordsys, pt)
    else:
        depth = int(w["depth"])
        depths = [depth]
        if obligation.endswith("/nested") and w.get("parent_tile"):
            depths = [int(w["parent_tile"][0]), depth]
        ks = [int(w["k"])] if "k" in w else []
        pt = {"lat": w["lat"], "lon": w["lon"], "kind": w.get("kind", "random"), "depths": depths, "ks": ks}
        res = check_tile_point(T, coordsys, pt)
        if ks:   # the periodicity check looks at depth 3 too; keep the recorded depth only
            res = [r for r in res if r[1].get("depth") == depth]
    same = [r for r in res if r[0] == obligation]
    if same:
        return False, same[0][2]
    if res:
        return False, "recorded obligation holds now, but %s: %s" % (res[0][0], res[0][2])
    return True, "the recorded look-up now satisfies the property"
