"""C19 — bounded run-time driver: an error while processing any item is reported to the caller.

For every stage (walk, visit_leaves, transform.u8_to_rgb, MultiTanProcessor.tile,
MultiWcsProcessor.tile) exactly one item is made to fail — the callback raises for one tile, the
``PyramidIO`` handed to the stage raises when one tile is read, the reprojection function raises for
one input image — and the public entry point is called serially and with 2, 3 (5) worker processes
in a fresh interpreter under a watchdog (stage runners and fault hooks: rt/c03.py).  The property
allows exactly one outcome: the call raises.  Observed outcomes:
    raised                      holds
    returned_normally           violation: the error was swallowed, the pyramid is incomplete
    no_return_within_watchdog   violation: the caller waits for ever (watchdog expiry is the bounded
                                stand-in for "for ever"; a normal run takes 1-3 s, multi_wcs 10-25 s)

OBLIGATIONS (name — witness keys)
  rt/walk/error_reported, rt/visit_leaves/error_reported, rt/transform/error_reported,
  rt/multi_tan/error_reported, rt/multi_wcs/error_reported
      — stage, parallel, fail ({pos:[n,x,y]} | {image:k} | {input:k}), outcome, watchdog_s, fault_fired,
        [progress: true], delay + the stage's input keys (kind, depth, accept, apex, coordsys | depth, present |
        pieces, bottom_up, mosaic, seed)
  (parallel == 1 is the serial mode; there the injected exception itself must reach the caller.)
  fail.input = k: the file of input image k of a multi-image tiling has been removed when tile() starts (unreadable input).
  progress = true: the stage ran with cli_progress=True and JPY_PARENT_PID=1 in the environment (terminal-like output for
  toasty.progress; the bar itself is written to /dev/null) -- the property does not depend on the progress display.
  fail.exc names the class of the injected exception (absent: the harness's own Exception subclass); see rt.c03.EXC_CLASSES.
  fail.worker = k: no position fault; the k-th worker process the stage started (1-based) fails at the first item it handles
  (an error "in any worker"); fault_fired tells whether that worker got an item at all.
  fail.after_s = D ("slow failing last item"): the failing step works for D seconds before it raises, so the error appears long
  after the producer has handed out its last item and started to wait for its workers.  returned_normally is a violation as
  always; an expired watchdog (D + 90 s) is recorded as undecided_watchdog and decides nothing (never a violation).

BOUNDS
  quick   : walk: generic depth 2 and one filtered depth-3 pyramid, fault at a tile just above the
            leaves / a middle tile / the apex; visit: 4, 16 and 64 leaves (more than the queue
            capacity), fault at the first, a middle, the last leaf; transform depth 2, three
            positions; multi_tan 4 inputs, first and last; multi_wcs 2 inputs, first and last;
            workers {1,2,3}.  Exception classes: the fault raised as RuntimeError, KeyError, ValueError,
            OSError(ENOSPC), FileNotFoundError, PermissionError, queue.Empty, queue.Full, ZeroDivisionError,
            EOFError, BrokenPipeError, TimeoutError, AssertionError (beside the custom Exception subclass) in
            EVERY stage, serially and with 2 or 3 workers.  ~35 of these cases once more with the progress bar on
            terminal-like output (every stage, serial and parallel); unreadable input image of multi_tan / multi_wcs with
            and without the bar.  Watchdog 20 s (multi_wcs 45 s).
            Slow failing last item, D = 3 s: visit_leaves (4 leaves, 2 workers; last of 16 leaves, 3 workers and
            serially), walk (apex, 2 workers), transform (last of 21 items, 2 workers), multi_tan (tile of the last of 4
            inputs, 2 workers) -- run beside the other cases; notices a final wait for the workers that gives up after
            less than ~2 s.
  thorough: fault at EVERY single item of: walk generic depth 2 (workers 1,2,3,5), filtered depth 3
            (1,2,3); visit generic depth 2 (1,2,3); transform depth 1 (1,2,3) and depth 2 (1,2);
            multi_tan 4 inputs (1,2,3); multi_wcs 3 inputs (1,2,3); every exception class x two fault
            positions x workers (1,2,3) in every stage; every single-fault case once more under the progress bar;
            each input of multi_tan unreadable.  Watchdog 40 s (60 s).
            Slow failing last item, D = 20 s (multi_wcs 35 s: its idle workers poll with a 10 s time-out): visit_leaves
            (4, 16, 64 leaves), walk (apex, last level-1 tile), transform (5 and 21 items), multi_tan (first / last
            input), multi_wcs (last of 2 inputs); workers 1,2,3.  BOUND: notices a final wait that gives up after less
            than ~18 s; a stage that abandons its workers later than that is not noticed by this scenario.

TRUSTED: watchdog expiry stands for non-termination; multiprocessing start method is fork.
"""
import os

from rt import c13_quadtree as Q
from rt import c01_batch as B
from rt import c03 as S

CAP = 5


def _outcome(o):
    if o["status"] == "timeout":
        return "no_return_within_watchdog", None
    res = o["result"]
    if res["exception"]:
        return "raised", res
    return "returned_normally", res


def _fault_fired(case, res):
    if res is None:
        return None
    f = case["fail"]
    if f.get("worker") is not None:
        return any(e[0] == "F" for e in res["events"])
    if "pos" in f and f["pos"] is not None:
        typ = "S" if case["stage"] in ("walk", "visit") else "R"
        return any(e[0] == typ and [e[1], e[2], e[3]] == list(f["pos"]) for e in res["events"])
    return None


def witness_of(case, outcome, watchdog, fired):
    w = S.witness_of(case)
    w.pop("sched", None)
    w.pop("schedule", None)
    w.update(fail=case["fail"], outcome=outcome, watchdog_s=watchdog, fault_fired=fired)
    if case.get("progress"):
        w["progress"] = True
    return w


def evaluate(case, o, watchdog):
    outcome, res = _outcome(o)
    fired = _fault_fired(case, res)
    s = S.STAGE_NAME[case["stage"]]
    if outcome == "raised":
        if case["parallel"] == 1 and "InjectedError" not in res["exception"]:
            # still a visible failure; mention it, it is not what the property forbids
            return [], outcome, fired
        return [], outcome, fired
    if outcome == "returned_normally" and fired is False:
        # the failing item was never handed out: nothing to report for C19 (C03's business)
        return [], "fault_not_reached", fired
    if outcome == "no_return_within_watchdog" and case["fail"].get("after_s"):
        # slow failing item: the run is long by construction; an expired watchdog (loaded machine) decides nothing
        return [], "undecided_watchdog", fired
    slow = (" after working for %s s" % case["fail"]["after_s"]) if case["fail"].get("after_s") else ""
    msg = {"returned_normally": "%s(parallel=%d) returned normally although processing of %s raised%s" % (s, case["parallel"], case["fail"], slow),
           "no_return_within_watchdog": "%s(parallel=%d) had not returned %d s after processing of %s raised" % (s, case["parallel"], watchdog, case["fail"])}[outcome]
    return [("rt/%s/error_reported" % s, witness_of(case, outcome, watchdog, fired), msg)], outcome, fired


def _shape_case(stage, kind, depth, accept, apex, parallel, fail_pos, delay=None):
    c = Q.shape_witness(kind, depth, accept, apex)
    c.update(stage=stage, parallel=parallel, delay=delay, schedule="os", sched=None, fail={"pos": list(fail_pos)})
    return c


def build_cases(rng, thorough):
    cases, bounds = [], []
    W = (1, 2, 3)

    def dl():
        return {"seed": rng.randrange(10 ** 6), "base_ms": 5.0, "slow": []}

    # ---- walk
    acc3 = Q.random_accept(rng, 3, 0.8)
    e3 = Q.Expect("f", 3, acc3, None)
    tries = 0
    while len(e3.ops) < 6 and tries < 50:
        acc3 = Q.random_accept(rng, 3, 0.85)
        e3 = Q.Expect("f", 3, acc3, None)
        tries += 1
    ops2 = sorted(Q.Expect("g", 2, [], None).ops)
    ops3 = sorted(e3.ops)
    if thorough:
        for p in ops2:
            for w in (1, 2, 3, 5):
                cases.append(_shape_case("walk", "g", 2, [], None, w, p, dl()))
        for p in ops3:
            for w in W:
                cases.append(_shape_case("walk", "f", 3, acc3, None, w, p, dl()))
        bounds.append("walk: fault at each of the 5 tiles of the generic depth-2 walk (workers 1,2,3,5) and at each of the %d tiles of a seeded "
                      "filtered depth-3 walk (workers 1,2,3)" % len(ops3))
    else:
        picks2 = [(1, 1, 0), (0, 0, 0)]
        deep = [p for p in ops3 if p[0] == 2][:1] + [p for p in ops3 if p[0] == 1][:1]
        for w in W:
            for p in picks2:
                cases.append(_shape_case("walk", "g", 2, [], None, w, p, dl()))
        for w in (1, 2):
            for p in deep:
                cases.append(_shape_case("walk", "f", 3, acc3, None, w, p, dl()))
        bounds.append("walk: generic depth 2, fault at a level-1 tile and at the apex (workers 1,2,3); seeded filtered depth 3, fault at a "
                      "level-2 and a level-1 tile (workers 1,2)")

    # ---- visit
    if thorough:
        for p in Q.level_positions(2):
            for w in W:
                cases.append(_shape_case("visit", "g", 2, [], None, w, p, dl()))
        for p in [(3, 0, 0), (3, 5, 2), (3, 7, 7)]:
            for w in W:
                cases.append(_shape_case("visit", "t", 3, [], None, w, p, dl()))
        bounds.append("visit_leaves: fault at each of the 16 leaves of the generic depth-2 pyramid; first / middle / last of the 64 leaves of the "
                      "TOAST depth-3 pyramid (more items than the queue holds); workers 1,2,3")
    else:
        for w in W:
            cases.append(_shape_case("visit", "g", 1, [], None, w, (1, 1, 0), dl()))
            for p in [(2, 0, 0), (2, 3, 3)]:
                cases.append(_shape_case("visit", "g", 2, [], None, w, p, dl()))
            for p in [(3, 0, 0), (3, 5, 2), (3, 7, 7)][: (3 if w == 2 else 1)]:
                cases.append(_shape_case("visit", "t", 3, [], None, w, p, dl()))
        bounds.append("visit_leaves: 4, 16 and 64 leaves (64 > queue capacity), fault at the first / a middle / the last leaf; workers 1,2,3")

    # ---- transform
    def tcase(depth, w, p):
        return {"stage": "transform", "depth": depth, "present": [list(q) for q in Q.all_positions(depth)], "parallel": w, "delay": dl(),
                "schedule": "os", "sched": None, "fail": {"pos": list(p)}}
    if thorough:
        for p in Q.all_positions(1):
            for w in W:
                cases.append(tcase(1, w, p))
        for p in Q.all_positions(2):
            for w in (1, 2):
                cases.append(tcase(2, w, p))
        bounds.append("transform: read fault at each of the 5 tiles at depth 1 (workers 1,2,3) and each of the 21 tiles at depth 2 (workers 1,2)")
    else:
        for w in W:
            for p in [(2, 0, 0), (1, 1, 1), (0, 0, 0)]:
                cases.append(tcase(2, w, p))
        bounds.append("transform: depth 2, read fault at the first tile, a level-1 tile and the last tile (0,0,0); workers 1,2,3")

    # ---- multi_tan: four / six inputs that land in distinct level-1 tiles
    four = [[10, 20, 100, 100], [10, 400, 100, 100], [300, 20, 100, 100], [300, 400, 100, 100]]
    four_tiles = [(1, 0, 0), (1, 1, 0), (1, 0, 1), (1, 1, 1)]

    def mcase(w, p, pcs=four):
        return {"stage": "multi_tan", "pieces": pcs, "mosaic": [420, 520], "seed": 5, "bottom_up": False, "parallel": w, "delay": None,
                "schedule": "os", "sched": None, "fail": {"pos": list(p)}}
    for w in W:
        for p in (four_tiles if thorough else [four_tiles[0], four_tiles[3]]):
            cases.append(mcase(w, p))
    bounds.append("multi_tan: 4 inputs in 4 different tiles, fault while updating the tile of %s input; workers 1,2,3" % ("each" if thorough else "the first / last"))

    # ---- multi_wcs (>= 10 s per parallel run)
    long_cases = []
    pcs = [[0, 0, 40, 50], [1, 0, 44, 44], [0, 1, 50, 40]] if thorough else [[0, 0, 40, 50], [1, 1, 50, 40]]
    for w in (W if thorough else (1, 2)):
        for k in (range(len(pcs)) if thorough else (0, len(pcs) - 1)):
            long_cases.append({"stage": "multi_wcs", "pieces": pcs, "seed": 3, "parallel": w, "delay": None, "schedule": "os", "sched": None,
                               "fail": {"image": k}})
    bounds.append("multi_wcs: %d inputs, reprojection fault for %s input; workers %s" % (len(pcs), "each" if thorough else "the first / last", "1,2,3" if thorough else "1,2"))
    # ---- exception classes: "an error", whatever its class, in every stage (the cases above raise the harness's own
    # Exception subclass; here the same single fault is raised as each of the other classes of rt.c03.EXC_CLASSES)
    classes = [e for e in S.EXC_CLASSES if e != "InjectedError"]
    templates = {
        "walk": [_shape_case("walk", "g", 2, [], None, 2, (1, 1, 0), None), _shape_case("walk", "g", 2, [], None, 2, (0, 0, 0), None)],
        "visit": [_shape_case("visit", "g", 2, [], None, 2, (2, 1, 2), None), _shape_case("visit", "t", 3, [], None, 2, (3, 7, 7), None)],
        "transform": [tcase(2, 2, (1, 1, 1)), tcase(2, 2, (2, 0, 0))],
        "multi_tan": [mcase(2, four_tiles[3]), mcase(2, four_tiles[0])],
    }
    n_cls = 0
    for stage, tmpl in templates.items():
        for k, exc in enumerate(classes):
            if thorough:
                combos = [(t, w) for t in tmpl for w in W]
            else:
                combos = [(tmpl[0], 1), (tmpl[k % 2], 2 + k % 2)]
            for t, w in combos:
                c = dict(t)
                c["parallel"] = w
                c["delay"] = dl() if stage != "multi_tan" else None
                c["fail"] = dict(t["fail"], exc=exc)
                cases.append(c)
                n_cls += 1
    for k, exc in enumerate(classes):
        for w in (W if thorough else (1, 2)):
            if not thorough and w == 1 and k % 4:
                continue            # serial multi_wcs: every fourth class only (each run costs seconds; serial propagation is class-blind)
            long_cases.append({"stage": "multi_wcs", "pieces": pcs, "seed": 3, "parallel": w, "delay": None, "schedule": "os", "sched": None,
                               "fail": {"image": (k % len(pcs)), "exc": exc}})
            n_cls += 1
    bounds.append("exception classes: the single fault raised as each of %s (beside the harness's own Exception subclass) in each of walk, "
                  "visit_leaves, transform, multi_tan, multi_wcs: %s; %d cases" % (
                      ", ".join(classes), "two fault positions x workers 1,2,3" if thorough else
                      "serially and with 2 or 3 workers (multi_wcs: 2 workers, serially every fourth class)", n_cls))
    # ---- the same single faults with the progress bar shown on terminal-like output: every stage runs its loop -- serial
    # and parallel -- inside ``with progress_bar(total, show=cli_progress)``; "fails visibly to its caller" does not depend on
    # cli_progress nor on where the bar is drawn.  progress=True: cli_progress=True and JPY_PARENT_PID set (what a Jupyter
    # kernel / an interactive terminal gives; rt.c03._guarded).  Plus the fault "an input image cannot be read" of the
    # multi-image stages (fail = {"input": k}: the file of input k is gone when tile() starts), with and without the bar.
    def prog(c, **kw):
        c = dict(c, progress=True)
        c.update(kw)
        if c.get("delay"):
            c["delay"] = dl()
        return c

    base_cases = list(cases)
    base_long = list(long_cases)
    n_prog = 0
    if thorough:
        for c in base_cases:
            if "exc" not in c["fail"]:
                cases.append(prog(c))
                n_prog += 1
        for c in base_long:
            if "exc" not in c["fail"]:
                long_cases.append(prog(c))
                n_prog += 1
    else:
        picks = [_shape_case("walk", "g", 2, [], None, w, p, dl()) for w in (1, 2) for p in picks2]
        picks += [_shape_case("walk", "f", 3, acc3, None, 1, p, dl()) for p in deep[:1]]
        picks += [_shape_case("visit", "g", 2, [], None, w, p, dl()) for w in W for p in [(2, 0, 0), (2, 3, 3)]]
        picks += [_shape_case("visit", "t", 3, [], None, w, (3, 5, 2), dl()) for w in (1, 2)]
        picks += [tcase(2, w, p) for w in (1, 2) for p in [(2, 0, 0), (0, 0, 0)]] + [tcase(2, 3, (1, 1, 1))]
        picks += [mcase(w, p) for w in W for p in [four_tiles[0], four_tiles[3]]]
        for c in picks:
            cases.append(prog(c))
            n_prog += 1
        for w in (1, 2):
            long_cases.append(prog({"stage": "multi_wcs", "pieces": pcs, "seed": 3, "parallel": w, "delay": None, "schedule": "os", "sched": None,
                                    "fail": {"image": len(pcs) - 1}}))
            n_prog += 1
        for k, exc in enumerate(classes[:6]):        # a few classes once more under the bar, serially and in parallel
            st = ("walk", "visit", "transform", "multi_tan")[k % 4]
            c = prog(templates[st][0], parallel=1 + k % 2)
            c["fail"] = dict(templates[st][0]["fail"], exc=exc)
            cases.append(c)
            n_prog += 1
    n_inp = 0
    for bar in (False, True):
        for w in W:
            for k in ((0, 1, 2, 3) if thorough else (0, 3)):
                c = mcase(w, four_tiles[0])
                c["fail"] = {"input": k}
                c["progress"] = bar
                cases.append(c)
                n_inp += 1
        for w in ((1, 2, 3) if thorough else (1, 2)):
            if not thorough and not bar and w == 1:
                continue
            long_cases.append({"stage": "multi_wcs", "pieces": pcs, "seed": 3, "parallel": w, "delay": None, "schedule": "os", "sched": None,
                               "fail": {"input": len(pcs) - 1}, "progress": bar})
            n_inp += 1
    bounds.append("progress bar on terminal-like output (cli_progress=True, JPY_PARENT_PID=1; bar sent to /dev/null): %d cases -- %s"
                  % (n_prog, "every single-fault case above once more under the bar" if thorough else
                     "walk (generic depth 2: level-1 tile and apex, workers 1,2; filtered depth 3, serial), visit_leaves (16 leaves: first / "
                     "last leaf, workers 1,2,3; 64 leaves, workers 1,2), transform (first tile and (0,0,0), workers 1,2; a level-1 tile, 3), "
                     "multi_tan (first / last tile, workers 1,2,3), multi_wcs (last input, workers 1,2), six exception classes"))
    bounds.append("unreadable input image (file of input k removed before tile()): multi_tan 4 inputs, %s, workers 1,2,3; multi_wcs last input, "
                  "workers %s; each without and with the progress bar: %d cases" % ("each input" if thorough else "first / last input",
                                                                                   "1,2,3" if thorough else "1 (bar only), 2", n_inp))
    for i, c in enumerate(long_cases + cases):
        c["id"] = i
    return long_cases, cases, bounds


def build_slow_cases(thorough, first_id):
    """Scenario "slow failing last item": the processing of an item at the tail of the schedule (the last one the
    producer hands out, or any item when all fit into the queue) works for D seconds and then raises.  By then the
    producer has long handed out everything and is waiting for its workers; the statement still allows one outcome only:
    the call raises.  (A stage whose final wait gives up after T < D seconds returns normally and is reported.)
    D = 3 s (quick) / 20 s (thorough; multi_wcs, whose idle workers need up to 10 s to notice the shutdown: 35 s)."""
    D = 20 if thorough else 3
    D_wcs = 35
    cases = []

    def slow(c, d=None):
        c = dict(c)
        c["fail"] = dict(c["fail"], after_s=d or D)
        c["delay"] = None
        cases.append(c)

    four = [[10, 20, 100, 100], [10, 400, 100, 100], [300, 20, 100, 100], [300, 400, 100, 100]]

    def mcase(w, p):
        return {"stage": "multi_tan", "pieces": four, "mosaic": [420, 520], "seed": 5, "bottom_up": False, "parallel": w, "delay": None,
                "schedule": "os", "sched": None, "fail": {"pos": list(p)}}

    def tcase(depth, w, p):
        return {"stage": "transform", "depth": depth, "present": [list(q) for q in Q.all_positions(depth)], "parallel": w, "delay": None,
                "schedule": "os", "sched": None, "fail": {"pos": list(p)}}

    def wcase(w, pcs, k):
        return {"stage": "multi_wcs", "pieces": pcs, "seed": 3, "parallel": w, "delay": None, "schedule": "os", "sched": None, "fail": {"image": k}}

    if thorough:
        for w in (1, 2, 3):
            slow(_shape_case("visit", "g", 1, [], None, w, (1, 1, 1)))       # 4 leaves: all in the queue at once
            slow(_shape_case("visit", "g", 2, [], None, w, (2, 3, 3)))       # last of 16 leaves
            slow(_shape_case("walk", "g", 2, [], None, w, (0, 0, 0)))        # the apex is the last tile of a walk
            slow(_shape_case("walk", "g", 2, [], None, w, (1, 1, 1)))        # last level-1 tile
            slow(tcase(1, w, (0, 0, 0)))                                     # 5 items, the last one
            slow(tcase(2, w, (0, 0, 0)))                                     # 21 items, the last one
            slow(mcase(w, (1, 1, 1)))                                        # tile of the last of 4 inputs
            slow(mcase(w, (1, 0, 0)))                                        # tile of the first input (4 inputs <= queue capacity)
        slow(_shape_case("visit", "t", 3, [], None, 2, (3, 7, 7)))           # last of 64 TOAST leaves (more than the queue holds)
        pcs = [[0, 0, 40, 50], [1, 1, 50, 40]]
        for w in (1, 2, 3):
            slow(wcase(w, pcs, len(pcs) - 1), D_wcs)
        bound = ("slow failing last item: the item works for %d s (multi_wcs: %d s), then raises -- visit_leaves (4 leaves: last; 16 leaves: "
                 "last; 64 TOAST leaves: last), walk (apex; last level-1 tile), transform (5 and 21 items: last), multi_tan (4 inputs: "
                 "tile of the first / last input), multi_wcs (2 inputs: last); workers 1,2,3; %d cases.  Exposes a parallel stage whose "
                 "final wait for its workers gives up after less than ~%d s (bound of this scenario; a longer give-up time is not "
                 "noticed); watchdog item time + 90 s, its expiry decides nothing" % (D, D_wcs, len(cases), D - 2))
    else:
        slow(_shape_case("visit", "g", 1, [], None, 2, (1, 1, 1)))
        slow(_shape_case("visit", "g", 2, [], None, 3, (2, 3, 3)))
        slow(_shape_case("walk", "g", 2, [], None, 2, (0, 0, 0)))
        slow(tcase(2, 2, (0, 0, 0)))
        slow(mcase(2, (1, 1, 1)))
        slow(_shape_case("visit", "g", 2, [], None, 1, (2, 3, 3)))
        bound = ("slow failing last item: the item works for %d s, then raises -- visit_leaves (4 leaves, 2 workers; last of 16 leaves, 3 "
                 "workers and serially), walk (apex, 2 workers), transform (last of 21 items, 2 workers), multi_tan (tile of the last of 4 "
                 "inputs, 2 workers); %d cases run beside the others.  Exposes a final wait for the workers that gives up after less than "
                 "~%d s (thorough: 20 s items, multi_wcs too); watchdog item time + 90 s, its expiry decides nothing" % (D, len(cases), D - 1))
    # "in any worker": the k-th worker process the stage started fails, after 3 s of work, at the first item it happens to
    # handle; all other items are fine.  (Which items that worker gets is up to the OS; a run in which it got none counts
    # as fault_not_reached.)  The stage may only raise.
    n0 = len(cases)

    def wslow(c, k):
        c = dict(c)
        c["fail"] = {"worker": k, "after_s": 3}
        c["delay"] = {"seed": k, "base_ms": 5.0, "slow": []} if c["stage"] != "multi_tan" else None
        cases.append(c)

    eight = [[10, 20, 60, 60], [10, 400, 60, 60], [300, 20, 60, 60], [300, 400, 60, 60], [100, 100, 60, 60], [100, 300, 60, 60], [200, 100, 60, 60], [200, 300, 60, 60]]
    for w in ((2, 3) if thorough else (2,)):
        for k in (range(1, w + 1) if thorough else (1, w)):
            wslow(_shape_case("visit", "t", 3, [], None, w, (9, 9, 9)), k)         # 64 leaves; (9,9,9) is no tile: no position fault
            if thorough or k == w:
                wslow(tcase(2, w, (9, 9, 9)), k)
                wslow(dict(mcase(w, (9, 9, 9)), pieces=eight), k)
    if thorough:
        for w in (2, 3):
            wslow(_shape_case("walk", "g", 2, [], None, w, (9, 9, 9)), w)
    if not thorough:
        wslow(_shape_case("visit", "g", 2, [], None, 3, (9, 9, 9)), 3)
    bound += ("; failing worker: the k-th started worker fails 3 s into the first item it handles -- visit_leaves (64 TOAST leaves), "
              "transform (21 items), multi_tan (8 inputs)%s; %s; %d cases" % (
                  ", walk (last worker)" if thorough else ", visit_leaves (16 leaves, 3 workers, last worker)",
                  "every worker of 2 and of 3" if thorough else "2 workers: first and last (transform, multi_tan: last)", len(cases) - n0))
    for i, c in enumerate(cases):
        c["id"] = first_id + i
    return cases, bound, (D_wcs if thorough else D) + 90


def run(ctx):
    thorough = ctx.thorough
    wd, wd_long = (40, 60) if thorough else (20, 45)
    long_cases, cases, bounds = build_cases(ctx.rng, thorough)
    reported = {}
    tally = {}

    def handle(c, o, watchdog):
        viols, outcome, fired = evaluate(c, o, watchdog)
        key = (S.STAGE_NAME[c["stage"]], "serial" if c["parallel"] == 1 else "parallel", outcome)
        tally[key] = tally.get(key, 0) + 1
        ctx.case(S._case_key(c))
        for obl, w, msg in viols:
            rk = (obl, c["parallel"] == 1)      # serial and parallel failures are capped separately
            n = reported.get(rk, 0)
            reported[rk] = n + 1
            if n < CAP:
                ctx.violation(obl, w, msg)
        if len(ctx.samples) < 6 and c["parallel"] > 1:
            ctx.sample({"stage": c["stage"], "parallel": c["parallel"], "fail": c["fail"], "outcome": outcome})

    serial = [c for c in cases if c["parallel"] == 1]
    par = [c for c in cases if c["parallel"] > 1]
    # serial cases share interpreters; every parallel case gets its own (a hang costs one watchdog)
    batches = [[dict(c) for c in serial[i:i + 6]] for i in range(0, len(serial), 6)] + [[dict(c)] for c in par]
    import threading
    out = {}

    def long_run():
        out["long"] = B.dispatch("rt.c03", "stage_case", None, os.path.join(ctx.workdir, "long"), wd_long, max_workers=32, max_timeouts=10 ** 6,
                                 est_case_secs=10.0, batches=[[dict(c)] for c in long_cases])
    slow_cases, slow_bound, wd_slow = build_slow_cases(thorough, len(long_cases) + len(cases))
    bounds.append(slow_bound)

    def slow_run():
        out["slow"] = B.dispatch("rt.c03", "stage_case", None, os.path.join(ctx.workdir, "slow"), wd_slow, max_workers=32, max_timeouts=10 ** 6,
                                 est_case_secs=10.0, batches=[[dict(c)] for c in slow_cases])
    t = threading.Thread(target=long_run)
    t.start()
    t2 = threading.Thread(target=slow_run)
    t2.start()
    res = B.dispatch("rt.c03", "stage_case", None, os.path.join(ctx.workdir, "main"), wd, max_workers=32, max_timeouts=10 ** 6,
                     est_case_secs=5.0, batches=batches)
    t.join()
    t2.join()
    for c in slow_cases:
        o = out["slow"].get(c["id"])
        if o and o["status"] != "skipped":
            handle(c, o, wd_slow)
    for c in cases:
        handle(c, res.get(c["id"], {"status": "skipped"}), wd) if c["id"] in res and res[c["id"]]["status"] != "skipped" else None
    for c in long_cases:
        o = out["long"].get(c["id"])
        if o and o["status"] != "skipped":
            handle(c, o, wd_long)
    for b in bounds:
        ctx.bound(b)
    ctx.bound("watchdog %d s per call (%d s for multi_wcs, whose workers poll with a 10 s time-out)" % (wd, wd_long))
    ctx.note("outcomes (stage, mode, outcome): " + "; ".join("%s/%s/%s=%d" % (k[0], k[1], k[2], v) for k, v in sorted(tally.items())))
    for (obl, ser), n in sorted(reported.items()):
        if n > CAP:
            ctx.note("%s (%s): %d failing cases met, first %d reported" % (obl, "serial" if ser else "parallel", n, CAP))
    ctx.assume("watchdog expiry is taken as 'waits for ever'")


def replay(obligation, witness):
    import shutil
    import tempfile
    w = dict(witness)
    w.setdefault("schedule", "os")
    w.setdefault("sched", None)
    case = S.case_from_witness(w)
    case["fail"] = witness["fail"]
    if witness.get("progress"):
        case["progress"] = True
    case["id"] = 0
    work = tempfile.mkdtemp(prefix="c19_replay_")
    try:
        watchdog = int(witness.get("watchdog_s") or 40)
        res = B.dispatch("rt.c03", "stage_case", [dict(case)], work, watchdog, batch_size=1, max_workers=1, max_timeouts=10 ** 6)
        viols, outcome, _fired = evaluate(case, res[0], watchdog)
        hits = [m for o, _w, m in viols if o == obligation]
        if hits:
            return False, hits[0] + " [outcome now: %s]" % outcome
        return True, "outcome now: %s" % outcome
    finally:
        shutil.rmtree(work, ignore_errors=True)
