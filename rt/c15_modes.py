"""Helpers shared by the bounded drivers rt/c08.py, rt/c15.py, rt/c02.py, rt/c14.py.

Nothing in here calls the code under test to produce an expected value: the "undefined"
predicate per image mode, the random tile contents, the independent tile-file readers
(numpy / PIL / astropy, *not* toasty's ImageLoader) and the fan-out helper come from the
property statements (C15: undefined = alpha 0 for colour, NaN for floating point, 0 for
integer data) and from the third-party codecs, which are trusted.
"""
import concurrent.futures
import os

import numpy as np

MODES = ["RGB", "RGBA", "U8", "I16", "I32", "F32", "F64", "F16x3"]

# lossless formats able to hold each mode (png holds 8-bit colour only; fits holds scalar data)
LOSSLESS = {
    "RGB": ["png", "npy"],
    "RGBA": ["png", "npy"],
    "U8": ["npy", "fits"],
    "I16": ["npy", "fits"],
    "I32": ["npy", "fits"],
    "F32": ["npy", "fits"],
    "F64": ["npy", "fits"],
    "F16x3": ["npy"],
}

DTYPES = {
    "RGB": (np.uint8, 3), "RGBA": (np.uint8, 4), "U8": (np.uint8, 0), "I16": (np.int16, 0),
    "I32": (np.int32, 0), "F32": (np.float32, 0), "F64": (np.float64, 0), "F16x3": (np.float16, 3),
}

INT_MODES = ("U8", "I16", "I32")
FLOAT_MODES = ("F32", "F64", "F16x3")
COLOUR_MODES = ("RGB", "RGBA")


def buffer_mode(mode):
    """Mode of the maskable buffer able to hold ``mode`` (colour buffers carry alpha)."""
    return "RGBA" if mode == "RGB" else mode


def mode_of_array(arr):
    """Independent classification of an array into a mode name (None if not a mode)."""
    k, s = arr.dtype.kind, arr.dtype.itemsize
    if arr.ndim == 2:
        return {("u", 1): "U8", ("i", 2): "I16", ("i", 4): "I32", ("f", 4): "F32", ("f", 8): "F64"}.get((k, s))
    if arr.ndim == 3 and arr.shape[2] == 3:
        return {("u", 1): "RGB", ("f", 2): "F16x3"}.get((k, s))
    if arr.ndim == 3 and arr.shape[2] == 4 and (k, s) == ("u", 1):
        return "RGBA"
    return None


def undef_mask(mode, arr):
    """2-D boolean mask of the undefined pixels of ``arr`` interpreted in ``mode``
    (statement of C15: transparent / NaN / zero).  RGB data have no undefined pixel."""
    if mode == "RGB":
        return np.zeros(arr.shape[:2], bool)
    if mode == "RGBA":
        return arr[..., 3] == 0
    if mode in ("F32", "F64"):
        return np.isnan(arr)
    if mode == "F16x3":
        return np.any(np.isnan(arr), axis=2)
    if mode in INT_MODES:
        return arr == 0
    raise ValueError(mode)


def undef_value(mode):
    return np.nan if mode in FLOAT_MODES else 0


def same_pixels(a, b):
    """Exact pixel equality (NaN equals NaN), shapes included."""
    a = np.asarray(a)
    b = np.asarray(b)
    if a.shape != b.shape:
        return False
    if a.dtype.kind == "f" or b.dtype.kind == "f":
        return bool(np.array_equal(a, b, equal_nan=True))
    return bool(np.array_equal(a, b))


INF_KINDS = ("all", "some", "channel")


def random_array(mode, h, w, nprng, kind="mixed", negative=False, dirty=False, inf=None):
    """Random content of ``mode`` with a mask pattern of the given ``kind``:
    'mixed' (a random 5-60 % of the pixels undefined), 'full' (none), 'allundef',
    'single' (one defined pixel), 'sparse' (~1 % defined), 'blocks' (undefined pixels come
    in aligned 2x2/4x4 blocks and rows), 'faint' (RGBA: alpha in 1..3; integer data: isolated
    values of magnitude <= 3, so that every 2x2 block mean truncates to zero).
    ``negative``: signed integer data may be negative.  ``dirty``: transparent RGBA pixels
    keep random colour values.  RGB has no undefined pixels, whatever ``kind``.
    ``inf`` (floating-point modes only; ignored elsewhere): infinities are *defined* values (the
    statement of C15 names NaN as the only undefined floating-point value), so the mask pattern
    of ``kind`` is untouched and, among the defined pixels,
      'all'      every one is +inf or -inf (every channel for F16x3): whole tiles / single pixels of
                 infinity, no finite value anywhere;
      'some'     about a fifth are +inf or -inf (F16x3: in every channel or in one channel only);
      'channel'  F16x3: every one has exactly one infinite channel, the other two finite
                 (scalar modes: same as 'all').
    The extra random draws happen after all others, so arrays drawn without ``inf`` are unchanged."""
    dt, ch = DTYPES[mode]
    shape = (h, w) + ((ch,) if ch else ())
    if mode in COLOUR_MODES:
        a = nprng.integers(0, 256, shape, dtype=np.uint8)
    elif mode == "U8":
        a = nprng.integers(1, 256, shape).astype(dt)
    elif mode == "I16":
        a = nprng.integers(1, 32768, shape).astype(dt)
        if negative:
            a = np.where(nprng.random(shape) < 0.5, -a, a).astype(dt)
    elif mode == "I32":
        a = nprng.integers(1, 2 ** 31, shape).astype(dt)
        if negative:
            a = np.where(nprng.random(shape) < 0.5, -a, a).astype(dt)
    else:
        scale = float(nprng.choice([1.0, 1e-3, 300.0])) if mode != "F16x3" else 1.0
        a = ((nprng.random(shape) - (0.3 if mode != "F16x3" else 0.0)) * scale).astype(dt)
    if mode == "RGB":
        return a
    if mode == "RGBA":
        a[..., 3] = nprng.integers(1, 256, (h, w))
        if kind == "faint":
            a[..., 3] = nprng.integers(1, 4, (h, w))
    if mode in INT_MODES and kind == "faint":
        # |value| <= 3 on at most one pixel of every aligned 2x2 block: every block mean truncates to 0
        a = (np.sign(a.astype(np.int64)) * nprng.integers(1, 4, shape)).astype(dt)
        keep = np.zeros((h, w), bool)
        keep[0::2, 0::2] = nprng.random(((h + 1) // 2, (w + 1) // 2)) < 0.05
        keep[0, 0] = True
        a[~keep] = 0
        return a
    # which pixels become undefined
    if kind in ("full", "faint"):
        u = np.zeros((h, w), bool)
    elif kind == "allundef":
        u = np.ones((h, w), bool)
    elif kind == "single":
        u = np.ones((h, w), bool)
        u[int(nprng.integers(0, h)), int(nprng.integers(0, w))] = False
    elif kind == "sparse":
        u = nprng.random((h, w)) >= 0.01
    elif kind == "blocks":
        b = int(nprng.choice([2, 4]))
        bu = nprng.random(((h + b - 1) // b, (w + b - 1) // b)) < 0.4
        u = np.kron(bu, np.ones((b, b), bool))[:h, :w].astype(bool)
        u |= (nprng.random((h, w)) < 0.1)
        if h > 3:
            u[int(nprng.integers(0, h)), :] = True
    else:  # mixed
        u = nprng.random((h, w)) < float(nprng.uniform(0.05, 0.6))
    if mode == "RGBA":
        a[u, 3] = 0
        if not dirty:
            a[u, :3] = 0
    elif mode in FLOAT_MODES:
        a[u] = np.nan
        if inf:
            _put_infinities(a, ~u, nprng, inf)
    else:
        a[u] = 0
    return a


def _put_infinities(a, defined, nprng, inf):
    """Replace defined pixels of the float array ``a`` by infinities (see ``random_array``)."""
    if inf not in INF_KINDS:
        raise ValueError(inf)
    h, w = a.shape[:2]
    sign = np.where(nprng.random((h, w)) < 0.5, -np.inf, np.inf).astype(a.dtype)
    pick = defined if inf in ("all", "channel") else (defined & (nprng.random((h, w)) < 0.2))
    if a.ndim == 2:
        a[pick] = sign[pick]
        return
    chan = nprng.integers(0, a.shape[2], (h, w))
    whole = np.zeros((h, w), bool) if inf == "channel" else (np.ones((h, w), bool) if inf == "all" else nprng.random((h, w)) < 0.5)
    for c in range(a.shape[2]):
        sel = pick & (whole | (chan == c))
        a[sel, c] = sign[sel]


def read_tile_file(path, fmt):
    """Decode a tile file with the third-party codec directly (not through toasty).
    Returns (array, header-dict-or-None) or (None, None) when the file does not exist."""
    if not os.path.exists(path):
        return None, None
    if fmt == "npy":
        return np.load(path), None
    if fmt == "fits":
        from astropy.io import fits
        with fits.open(path, memmap=False) as hdul:
            data = np.array(hdul[0].data)
            hdr = {k: hdul[0].header[k] for k in ("DATAMIN", "DATAMAX") if k in hdul[0].header}
        return data, hdr
    from PIL import Image as PILImage
    with PILImage.open(path) as im:
        im.load()
        return np.array(im), None


def tile_relpath(url_template, n, x, y):
    """Substitute level / x / y into a WTML Url template such as '{1}/{3}/{3}_{2}.png'."""
    return url_template.replace("{1}", str(n)).replace("{2}", str(x)).replace("{3}", str(y))


def n_workers():
    return max(2, min(14, (os.cpu_count() or 4) - 2))


def fanout(module, func, arglist, timeout, workers=None):
    """Run ``module.func(**args)`` for every args-dict of ``arglist``, each in a fresh
    interpreter under rt.common.call_isolated (hard watchdog), several at a time.
    Returns the list of (status, result, secs) in the order of ``arglist``."""
    from rt.common import call_isolated
    if not arglist:
        return []
    with concurrent.futures.ThreadPoolExecutor(max_workers=workers or n_workers()) as ex:
        futs = [ex.submit(call_isolated, module, func, a, timeout) for a in arglist]
        return [f.result() for f in futs]


def chunks(seq, n):
    seq = list(seq)
    return [seq[i:i + n] for i in range(0, len(seq), n)]


class Reporter(object):
    """Caps the number of reports: at most ``cap`` per obligation when no family is given;
    with families, at most ``fam_cap`` per (obligation, family) and ``3 * cap`` per obligation.
    A family (e.g. an image mode) keeps one frequent failing family from using up the cap of
    an obligation and hiding a different failing family."""

    def __init__(self, ctx, cap=5, fam_cap=3):
        self.ctx = ctx
        self.cap = cap
        self.fam_cap = fam_cap
        self.met = {}
        self.sent = {}

    def __call__(self, obligation, witness, message, family=None):
        k = (obligation, family)
        self.met[k] = self.met.get(k, 0) + 1
        total = self.sent.get(obligation, 0)
        if family is None:
            ok = total < self.cap
        else:
            ok = self.met[k] <= self.fam_cap and total < 3 * self.cap
        if ok:
            self.sent[obligation] = total + 1
            self.ctx.violation(obligation, witness, message)

    def summary(self):
        for obl in sorted(self.sent):
            n = sum(v for (o, _), v in self.met.items() if o == obl)
            if n > self.sent[obl]:
                self.ctx.note("%s: %d failing cases met, %d reported" % (obl, n, self.sent[obl]))
