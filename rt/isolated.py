"""python -m rt.isolated <module> <func>   (args as JSON on stdin, result as JSON on stdout)"""
import importlib
import json
import sys


def main():
    mod = importlib.import_module(sys.argv[1])
    fn = getattr(mod, sys.argv[2])
    args = json.loads(sys.stdin.read() or "{}")
    res = fn(**args)
    sys.stdout.write("\n@@RESULT@@" + json.dumps(res, default=str))
    sys.stdout.flush()


if __name__ == "__main__":
    main()
