"""Independent quadtree oracle shared by the bounded drivers of C13, C01, C03 and C19.

Nothing in here calls toasty's position algebra, generators, reduction iterator or counters:
positions are plain ``(n, x, y)`` tuples, ancestry is computed with shifts, enumeration is a
level-by-level loop (the code under test recurses depth-first).  The only toasty names used are
the constructors needed to *build* the pyramid under test (``make_pyramid``).

Vocabulary (from the statements of C13/C01/C03):
  kind      'g' generic pyramid, 't' TOAST pyramid, 'f' TOAST pyramid with a tile filter
  accept    for kind 'f': the set of positions (n >= 1) on which the user filter answers True.  It
            is an *arbitrary* subset (not prefix closed), so "accepts a tile but none of its
            children" and "accepts children of a rejected tile" both occur.
  reachable a position all of whose ancestors-or-self at levels 1..n are accepted (the filter is
            consulted top-down; level 0 is never filtered)
  apex      sub-pyramid apex or None (= (0,0,0))
  leaf      reachable position at level ``depth`` lying below (or equal to) the apex
  live      a leaf, or a position between the apex and a leaf (inclusive)
  op        live and not a leaf (these are the tiles a walk calls back for)
"""


def T(d):
    """1 + 4 + ... + 4^d (0 for d < 0), by summation, not by the closed form under test."""
    s = 0
    for k in range(d + 1):
        s += 4 ** k
    return s


def level_positions(n):
    return [(n, x, y) for y in range(2 ** n) for x in range(2 ** n)]


def all_positions(depth, min_n=0):
    out = []
    for n in range(min_n, depth + 1):
        out.extend(level_positions(n))
    return out


def anc(p, k):
    """Ancestor-or-self of p at level k <= p.n."""
    n, x, y = p
    s = n - k
    return (k, x >> s, y >> s)


def below(p, a):
    """p is a (non-strict) descendant of a."""
    return p[0] >= a[0] and anc(p, a[0]) == a


def children(p):
    n, x, y = p
    return [(n + 1, 2 * x, 2 * y), (n + 1, 2 * x + 1, 2 * y), (n + 1, 2 * x, 2 * y + 1), (n + 1, 2 * x + 1, 2 * y + 1)]


def reachable(p, kind, accept):
    if kind != "f":
        return True
    for k in range(1, p[0] + 1):
        if anc(p, k) not in accept:
            return False
    return True


class Expect(object):
    """What the property statements say about one pyramid shape."""

    def __init__(self, kind, depth, accept, apex):
        self.kind, self.depth = kind, depth
        self.accept = set(tuple(p) for p in accept) if accept is not None else set()
        self.apex = tuple(apex) if apex is not None else (0, 0, 0)
        a = self.apex
        self.leaves = set()
        for p in level_positions(depth):
            if below(p, a) and reachable(p, kind, self.accept):
                self.leaves.add(p)
        self.live = set()
        for l in self.leaves:
            for k in range(a[0], depth + 1):
                self.live.add(anc(l, k))
        self.ops = set(p for p in self.live if p[0] < depth)
        # positions an enumeration restricted to the sub-pyramid must yield (live or not)
        self.scope = set(p for p in all_positions(depth, a[0]) if below(p, a) and reachable(p, kind, self.accept))

    def live_nonleaf_children(self, p):
        return [c for c in children(p) if c in self.ops]


def make_pyramid(kind, depth, accept, apex, coordsys="astronomical"):
    """Build the toasty Pyramid under test for a shape."""
    from toasty.pyramid import Pyramid, Pos
    from toasty.toast import ToastCoordinateSystem
    cs = ToastCoordinateSystem.PLANETARY if coordsys == "planetary" else ToastCoordinateSystem.ASTRONOMICAL
    if kind == "g":
        p = Pyramid.new_generic(depth)
    elif kind == "t":
        p = Pyramid.new_toast(depth, coordsys=cs)
    elif kind == "f":
        acc = frozenset(tuple(q) for q in accept)
        p = Pyramid.new_toast_filtered(depth, lambda t: (t.pos.n, t.pos.x, t.pos.y) in acc, coordsys=cs)
    else:
        raise ValueError(kind)
    if apex is not None:
        p = p.subpyramid(Pos(n=apex[0], x=apex[1], y=apex[2]))
    return p


def shape_witness(kind, depth, accept, apex, coordsys="astronomical", **extra):
    w = {"kind": kind, "depth": depth, "apex": list(apex) if apex is not None else None,
         "accept": sorted(list(p) for p in accept) if kind == "f" else None, "coordsys": coordsys}
    w.update(extra)
    return w


def shape_from_witness(w):
    acc = [tuple(p) for p in (w.get("accept") or [])]
    apex = tuple(w["apex"]) if w.get("apex") is not None else None
    return w["kind"], w["depth"], acc, apex, w.get("coordsys", "astronomical")


def shape_key(kind, depth, accept, apex, coordsys="astronomical"):
    return (kind, depth, tuple(sorted(accept)) if kind == "f" else None, apex, coordsys if kind != "g" else None)


# ---------------------------------------------------------------------------------------------
# shape families (deterministic given the rng)

def random_accept(rng, depth, p_keep=None):
    """Arbitrary subset of the positions at levels 1..depth."""
    if p_keep is None:
        p_keep = rng.choice([0.35, 0.55, 0.7, 0.85, 0.95])
    acc = set(p for p in all_positions(depth, 1) if rng.random() < p_keep)
    if depth >= 2 and rng.random() < 0.6:
        # make some accepted tiles "dead": accepted, but none of their children is
        inner = sorted(p for p in acc if p[0] < depth and reachable(p, "f", acc))
        for p in rng.sample(inner, min(len(inner), rng.randint(1, 3))):
            acc -= set(children(p))
    return sorted(acc)


def random_apex(rng, depth, accept=None, kind="g"):
    """None, or an apex at any level 0..depth (depth included)."""
    r = rng.random()
    if r < 0.3:
        return None
    n = rng.randint(0, depth)
    if kind == "f" and accept and rng.random() < 0.6:
        cands = [p for p in accept if p[0] == n]
        if cands:
            return rng.choice(cands)
    return (n, rng.randrange(2 ** n), rng.randrange(2 ** n))


def corner_shapes(depth):
    """Corner cases named in the quantifier texts, for a given depth >= 1."""
    out = []
    pos = all_positions(depth, 1)
    full = list(pos)
    # filter accepting a tile but none of its children (at every level)
    for n in range(1, depth):
        out.append(("f", depth, [p for p in pos if p[0] <= n], None))
    # one accepted tile at level n without any accepted child, next to live siblings (a "dead" tile)
    for n in range(1, depth):
        t = (n, 2 ** n - 1, 0)
        out.append(("f", depth, [p for p in pos if p not in children(t)], None))
    # three of four siblings just above the leaves are dead
    if depth >= 2:
        par = (depth - 2, 0, 0)
        deadset = set()
        for t in children(par)[:3]:
            deadset |= set(children(t))
        out.append(("f", depth, [p for p in pos if p not in deadset], None))
    # filter accepting everything except one whole level-1 quadrant / except one leaf
    out.append(("f", depth, [p for p in pos if anc(p, 1) != (1, 1, 0)], None))
    out.append(("f", depth, [p for p in pos if p != (depth, 2 ** depth - 1, 2 ** depth - 1)], None))
    # a single root-to-leaf chain (deep jump after a finished shallow tile)
    leaf = (depth, 2 ** depth - 1, 0)
    out.append(("f", depth, [anc(leaf, k) for k in range(1, depth + 1)], None))
    leaf2 = (depth, 0, 2 ** depth - 1)
    out.append(("f", depth, [anc(leaf, k) for k in range(1, depth + 1)] + [anc(leaf2, k) for k in range(1, depth + 1)], None))
    # empty filter, full filter
    out.append(("f", depth, [], None))
    out.append(("f", depth, full, None))
    # apex depth == pyramid depth, for all kinds; filter disjoint from the sub-pyramid
    last = (depth, 2 ** depth - 1, 2 ** depth - 1)
    for kind in "gtf":
        out.append((kind, depth, full if kind == "f" else [], last))
        out.append((kind, depth, full if kind == "f" else [], (0, 0, 0)))
        out.append((kind, depth, full if kind == "f" else [], (1, 0, 1)))
    out.append(("f", depth, [p for p in pos if anc(p, 1) == (1, 0, 0)], (1, 1, 1)))          # disjoint
    out.append(("f", depth, [p for p in pos if anc(p, 1) == (1, 0, 0)], last))               # disjoint, apex at depth
    out.append(("f", depth, [p for p in pos if p != (1, 1, 1)], last))                       # ancestor of apex rejected
    return out
